// D9: a handle held on the in-order predecessor must survive the removal of a two-child sibling,
// and random create/remove histories must keep every live stream reachable with its own content.
use std::io::{Cursor, Read, Seek, SeekFrom, Write};
use std::collections::BTreeMap;

#[test]
fn handle_on_predecessor_survives() {
    let mut comp = cfb::CompoundFile::create(Cursor::new(Vec::new())).unwrap();
    for n in ["b", "a", "c"] { comp.create_stream(format!("/{}", n)).unwrap().write_all(n.as_bytes()).unwrap(); }
    let mut h = comp.open_stream("/a").unwrap();
    comp.remove_stream("/b").unwrap();
    h.seek(SeekFrom::End(0)).unwrap();
    h.write_all(b"-more").unwrap();
    h.flush().unwrap();
    drop(h);
    let mut s = String::new();
    comp.open_stream("/a").unwrap().read_to_string(&mut s).unwrap();
    assert_eq!(s, "a-more");
    let bytes = comp.into_inner().into_inner();
    let mut comp = cfb::CompoundFile::open_strict(Cursor::new(bytes)).unwrap();
    let mut s = String::new();
    comp.open_stream("/a").unwrap().read_to_string(&mut s).unwrap();
    assert_eq!(s, "a-more");
    assert!(!comp.exists("/b"));
}

fn lcg(x: &mut u64) -> u64 { *x = x.wrapping_mul(6364136223846793005).wrapping_add(1442695040888963407); *x >> 33 }

#[test]
fn random_histories() {
    for seed in 0..300u64 {
        let mut r = seed * 7919 + 1;
        let mut comp = cfb::CompoundFile::create(Cursor::new(Vec::new())).unwrap();
        let mut model: BTreeMap<String, Vec<u8>> = BTreeMap::new();
        let names: Vec<String> = (0..12).map(|i| format!("n{}{}", (b'a' + (i * 5 % 11) as u8) as char, "x".repeat((i % 3) as usize))).collect();
        for step in 0..60 {
            let n = &names[(lcg(&mut r) % names.len() as u64) as usize];
            let path = format!("/{}", n);
            if model.contains_key(n) && lcg(&mut r) % 2 == 0 {
                comp.remove_stream(&path).unwrap();
                model.remove(n);
            } else if !model.contains_key(n) {
                let data = vec![(step as u8) ^ (seed as u8); (lcg(&mut r) % 200) as usize + 1];
                comp.create_stream(&path).unwrap().write_all(&data).unwrap();
                model.insert(n.clone(), data);
            }
            // every modelled stream is reachable with its own content; listing matches
            let listed: Vec<String> = comp.read_root_storage().map(|e| e.name().to_string()).collect();
            assert_eq!(listed.len(), model.len(), "seed {} step {}", seed, step);
            for (k, v) in &model {
                let mut got = Vec::new();
                comp.open_stream(format!("/{}", k)).unwrap().read_to_end(&mut got).unwrap();
                assert_eq!(&got, v, "seed {} step {} name {}", seed, step, k);
            }
        }
        let bytes = comp.into_inner().into_inner();
        let mut comp = cfb::CompoundFile::open_strict(Cursor::new(bytes)).unwrap();
        for (k, v) in &model {
            let mut got = Vec::new();
            comp.open_stream(format!("/{}", k)).unwrap().read_to_end(&mut got).unwrap();
            assert_eq!(&got, v);
        }
    }
}
