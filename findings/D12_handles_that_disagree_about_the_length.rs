// D12: two parties that disagree about a stream's length.  Before the repair each of these histories tripped a debug
// assertion in the stream layer (dev profile): flush_changes compared the directory's length with the handle's cached
// one, write_data_to_stream asserted that the window starts inside the stream.  After it: the handle follows the
// directory's length, and a window that starts beyond the (truncated) stream is reported as an error.
//   cp findings/D12_handles_that_disagree_about_the_length.rs <crate>/tests/d12.rs && cargo test --offline --test d12 -- --nocapture
use std::io::{Cursor, Read, Seek, SeekFrom, Write};

fn guarded(name: &str, f: impl FnOnce() -> std::io::Result<String> + std::panic::UnwindSafe) -> bool {
    match std::panic::catch_unwind(f) {
        Ok(Ok(s)) => { println!("{}: {}", name, s); true }
        Ok(Err(e)) => { println!("{}: Err({:?}: {})", name, e.kind(), e); true }
        Err(_) => { println!("{}: PANIC", name); false }
    }
}

fn sound(comp: cfb::CompoundFile<Cursor<Vec<u8>>>) -> std::io::Result<()> {
    let bytes = comp.into_inner().into_inner();
    let mut again = cfb::CompoundFile::open_strict(Cursor::new(bytes))?;
    let paths: Vec<_> = again.walk().filter(|e| e.is_stream()).map(|e| e.path().to_path_buf()).collect();
    for p in paths { let mut v = Vec::new(); again.open_stream(&p)?.read_to_end(&mut v)?; }
    Ok(())
}

#[test]
fn d12() {
    let mut ok = true;
    // (1) the other handle extends the stream
    ok &= guarded("other handle extends", || {
        let mut comp = cfb::CompoundFile::create(Cursor::new(Vec::new())).unwrap();
        let mut a = comp.create_stream("/s")?; a.write_all(&[1u8; 10])?; a.flush()?;
        let mut b = comp.open_stream("/s")?;
        a.seek(SeekFrom::End(0))?; a.write_all(&[2u8; 10])?; a.flush()?;
        b.seek(SeekFrom::Start(0))?; b.write_all(&[3u8; 2])?; b.flush()?;
        let len = b.len();
        std::mem::drop((a, b));
        let mut v = Vec::new(); comp.open_stream("/s")?.read_to_end(&mut v)?;
        assert_eq!(v.len(), 20); assert_eq!(&v[..3], &[3, 3, 1]); assert_eq!(len, 20);
        sound(comp)?; Ok("Ok, both handles' bytes are there, len() follows".into())
    });
    // (2) the other handle truncates the stream to before this handle's window
    ok &= guarded("other handle truncates", || {
        let mut comp = cfb::CompoundFile::create(Cursor::new(Vec::new())).unwrap();
        let mut a = comp.create_stream("/s")?; a.write_all(&[1u8; 1000])?; a.flush()?;
        let mut b = comp.open_stream("/s")?;
        a.set_len(0)?;
        b.seek(SeekFrom::Start(500))?;
        let r = b.write_all(b"hello").and_then(|_| b.flush());
        std::mem::forget(b); std::mem::drop(a);
        sound(comp)?; Ok(format!("write+flush at 500 after truncation to 0 -> {:?}; image sound", r.map_err(|e| e.to_string())))
    });
    // (3) create_stream replaces the stream under an open handle
    ok &= guarded("stream replaced under a handle", || {
        let mut comp = cfb::CompoundFile::create(Cursor::new(Vec::new())).unwrap();
        let mut a = comp.create_stream("/s")?; a.write_all(&[1u8; 9000])?; a.flush()?;
        a.seek(SeekFrom::Start(8000))?;
        let _ = comp.create_stream("/s")?;
        let r = a.write_all(&[5u8; 100]).and_then(|_| a.flush());
        std::mem::forget(a);
        sound(comp)?; Ok(format!("write+flush at 8000 after replacement -> {:?}; image sound", r.map_err(|e| e.to_string())))
    });
    assert!(ok);
}
