// D22: compare_names ordered names of equal UTF-16 length by Unicode scalar value instead of by UTF-16 code unit.
// MS-CFB 2.6.4 compares "UTF-16 code points" (code units): a character outside the BMP is a surrogate pair
// (0xD800..0xDFFF) and sorts BEFORE U+E000..U+FFFF.  Before the repair the listing below came out as
// ["\u{ff21}\u{ff22}", "\u{1f600}"], and a file whose sibling tree is ordered as the specification says was refused
// by open() with "name ordering".  Run as an integration test of the crate:
//   cp findings/D22_name_order_outside_bmp.rs <crate>/tests/d22.rs && cargo test --offline --test d22 -- --nocapture
use std::io::Cursor;

fn units(s: &str) -> Vec<u16> { s.to_uppercase().encode_utf16().collect() }

#[test]
fn listing_is_in_code_unit_order() {
    let names = ["\u{ff21}\u{ff22}", "\u{1f600}", "\u{e000}x", "\u{10400}", "zz", "\u{fffd}\u{fffd}", "\u{10000}"];
    for version in [cfb::Version::V3, cfb::Version::V4] {
        let mut comp = cfb::CompoundFile::create_with_version(version, Cursor::new(Vec::new())).unwrap();
        for n in names { comp.create_storage(format!("/{}", n)).unwrap(); }
        for n in names { assert!(comp.exists(format!("/{}", n))); }
        let listed: Vec<String> = comp.read_storage("/").unwrap().map(|e| e.name().to_string()).collect();
        let mut expected: Vec<String> = names.iter().map(|s| s.to_string()).collect();
        expected.sort_by(|a, b| { let (a, b) = (units(a), units(b)); a.len().cmp(&b.len()).then(a.cmp(&b)) });
        println!("{:?}: {:?}", version, listed);
        assert_eq!(listed, expected, "listing must be shortlex over upper-cased UTF-16 code units");
        let bytes = comp.into_inner().into_inner();
        cfb::CompoundFile::open_strict(Cursor::new(bytes)).unwrap();
    }
}

// A hand-ordered image: take a file with the two siblings and swap which one is the tree's root, so that the tree is
// ordered by code units whatever the library itself thinks; it must open.
#[test]
fn spec_ordered_file_opens() {
    let mut comp = cfb::CompoundFile::create(Cursor::new(Vec::new())).unwrap();
    comp.create_storage("/\u{ff21}\u{ff22}").unwrap();   // slot 1, root's child
    comp.create_storage("/\u{1f600}").unwrap();           // slot 2
    let mut img = comp.into_inner().into_inner();
    // locate directory entries (128 bytes each) by their names
    let find = |img: &[u8], name: &str| -> usize {
        let pat: Vec<u8> = name.encode_utf16().flat_map(|u| u.to_le_bytes()).chain([0u8, 0u8]).collect();
        (0..img.len() - 128).step_by(128).find(|&i| img[i..].starts_with(&pat)).expect("entry")
    };
    let a = find(&img, "\u{ff21}\u{ff22}");
    let b = find(&img, "\u{1f600}");
    // specification order: D83D DE00 < FF21 FF22, so the smiley is the LEFT sibling of the fullwidth name
    img[a + 68..a + 72].copy_from_slice(&2u32.to_le_bytes());            // left sibling of slot 1 := slot 2
    img[a + 72..a + 76].copy_from_slice(&0xffff_ffffu32.to_le_bytes());  // right sibling := none
    img[b + 68..b + 72].copy_from_slice(&0xffff_ffffu32.to_le_bytes());
    img[b + 72..b + 76].copy_from_slice(&0xffff_ffffu32.to_le_bytes());
    let comp = cfb::CompoundFile::open(Cursor::new(img)).expect("a sibling tree in specification order must open");
    assert!(comp.exists("/\u{1f600}") && comp.exists("/\u{ff21}\u{ff22}"));
}
