// D14: a damaged version 4 file records a stream length (or a root mini-stream length) close to u64::MAX.
// Before the repair permissive open accepted it and seek(End(0)) + write panicked with 'attempt to add with overflow'
// (dev profile); after it the file is refused at open with InvalidData.  Run as an integration test of the crate:
//   cp findings/D14_stream_len_near_u64_max.rs <crate>/tests/d14.rs && cargo test --offline --test d14 -- --nocapture
use std::io::{Cursor, Read, Seek, SeekFrom, Write};

fn image(version: cfb::Version) -> Vec<u8> {
    let mut comp = cfb::CompoundFile::create_with_version(version, Cursor::new(Vec::new())).unwrap();
    {
        let mut s = comp.create_stream("/s").unwrap();
        s.write_all(&vec![7u8; 5000]).unwrap();
        s.flush().unwrap();
    }
    comp.into_inner().into_inner()
}

// Finds the 128-byte directory entry whose UTF-16 name is `name` and patches its stream length.
fn patch_len(img: &mut [u8], name: &str, len: u64) {
    let pat: Vec<u8> = name.encode_utf16().flat_map(|u| u.to_le_bytes()).chain([0u8, 0u8]).collect();
    let at = (0..img.len() - 128).step_by(128).find(|&i| img[i..].starts_with(&pat)).expect("entry");
    img[at + 120..at + 128].copy_from_slice(&len.to_le_bytes());
}

fn outcome(img: Vec<u8>, strict: bool) -> String {
    let r = std::panic::catch_unwind(move || -> std::io::Result<String> {
        let mut comp = if strict { cfb::CompoundFile::open_strict(Cursor::new(img))? } else { cfb::CompoundFile::open(Cursor::new(img))? };
        let mut s = comp.open_stream("/s")?;
        s.seek(SeekFrom::End(0))?;
        s.write_all(&[1u8; 10])?;
        s.flush()?;
        let mut t = comp.create_stream("/t")?;
        t.write_all(&[2u8; 10])?;
        t.flush()?;
        let mut b = [0u8; 4];
        let mut s = comp.open_stream("/t")?;
        s.read_exact(&mut b)?;
        Ok("Ok".into())
    });
    match r { Ok(Ok(s)) => s, Ok(Err(e)) => format!("Err({:?}: {})", e.kind(), e), Err(_) => "PANIC".into() }
}

#[test]
fn d14() {
    let mut panics = 0;
    for strict in [false, true] {
        for (who, len) in [("s", u64::MAX), ("s", u64::MAX - 4096), ("Root Entry", u64::MAX - 63), ("s", 0xfffffffa * 4096 + 1)] {
            let mut img = image(cfb::Version::V4);
            patch_len(&mut img, who, len);
            let o = outcome(img, strict);
            println!("strict={} entry={:?} stream_len={:#x} -> {}", strict, who, len, o);
            if o == "PANIC" { panics += 1; }
        }
    }
    // The largest length a version 4 FAT can address is still accepted at open.
    let mut img = image(cfb::Version::V4);
    patch_len(&mut img, "s", 0xfffffffa * 4096);
    assert!(cfb::CompoundFile::open(Cursor::new(img)).is_ok());
    assert_eq!(panics, 0);
}
