//! Demonstration for property C13 (write failures are reported, not
//! swallowed; a successful flush means durable).
//!
//! A stream that lives in a regular sector chain is appended to, so that the
//! chain has to grow by several sectors.  The backing store fails exactly once,
//! at the k-th underlying write/seek/flush call made after the data has been
//! handed to the stream, for every k.  The failed flush is retried.  Whenever
//! a flush reports Ok, the bytes that the handle accepted must be in the
//! compound file: the file is reopened from its raw bytes and the stream is
//! read back through a fresh handle.

use cfb::{CompoundFile, Version};
use std::io::{self, Cursor, Read, Seek, SeekFrom, Write};
use std::sync::atomic::{AtomicIsize, AtomicUsize, Ordering};
use std::sync::Arc;

//===========================================================================//

/// Shared control block for a `Faulty` backing store.
#[derive(Default)]
struct Control {
    /// Number of write/seek/flush calls seen while counting is enabled.
    ops: AtomicUsize,
    /// When >= 0: number of further write/seek/flush calls that succeed
    /// before one call fails.  Negative: disarmed.
    countdown: AtomicIsize,
    /// Number of faults that were actually delivered.
    delivered: AtomicUsize,
}

/// A `Cursor<Vec<u8>>` whose k-th write/seek/flush call fails (once).
struct Faulty {
    inner: Cursor<Vec<u8>>,
    control: Arc<Control>,
}

impl Faulty {
    fn new(bytes: Vec<u8>) -> (Faulty, Arc<Control>) {
        let control = Arc::new(Control::default());
        control.countdown.store(-1, Ordering::SeqCst);
        let faulty =
            Faulty { inner: Cursor::new(bytes), control: control.clone() };
        (faulty, control)
    }

    /// Returns an error if this call is the one chosen to fail.
    fn tick(&self, what: &str) -> io::Result<()> {
        self.control.ops.fetch_add(1, Ordering::SeqCst);
        let remaining = self.control.countdown.load(Ordering::SeqCst);
        if remaining < 0 {
            return Ok(());
        }
        self.control.countdown.store(remaining - 1, Ordering::SeqCst);
        if remaining == 0 {
            self.control.delivered.fetch_add(1, Ordering::SeqCst);
            eprintln!("   fault delivered at op: {} pos={}", what, self.inner.position());
            return Err(io::Error::other(format!("injected {} fault", what)));
        }
        Ok(())
    }
}

impl Read for Faulty {
    fn read(&mut self, buf: &mut [u8]) -> io::Result<usize> {
        self.inner.read(buf)
    }
}

impl Write for Faulty {
    fn write(&mut self, buf: &[u8]) -> io::Result<usize> {
        self.tick("write")?;
        self.inner.write(buf)
    }

    fn flush(&mut self) -> io::Result<()> {
        self.tick("flush")?;
        self.inner.flush()
    }
}

impl Seek for Faulty {
    fn seek(&mut self, pos: SeekFrom) -> io::Result<u64> {
        self.tick("seek")?;
        self.inner.seek(pos)
    }
}

//===========================================================================//

fn pattern(len: usize, salt: u8) -> Vec<u8> {
    (0..len).map(|i| (i as u8).wrapping_mul(31).wrapping_add(salt)).collect()
}

/// A version 3 compound file (512-byte sectors) holding one stream "/s" of
/// `initial_len` bytes.
fn base_file(initial_len: usize) -> Vec<u8> {
    base_file_with(initial_len, &[])
}

fn base_file_with(initial_len: usize, others: &[usize]) -> Vec<u8> {
    let mut comp =
        CompoundFile::create_with_version(Version::V3, Cursor::new(Vec::new()))
            .expect("create");
    {
        let mut stream = comp.create_stream("/s").expect("create_stream");
        stream.write_all(&pattern(initial_len, 7)).expect("write");
        stream.flush().expect("flush");
    }
    for (i, len) in others.iter().enumerate() {
        let mut stream = comp.create_stream(format!("/o{}", i)).expect("create_stream");
        stream.write_all(&pattern(*len, 3)).expect("write");
        stream.flush().expect("flush");
    }
    comp.flush().expect("flush");
    comp.into_inner().into_inner()
}

fn read_back(bytes: Vec<u8>) -> io::Result<Vec<u8>> {
    let mut comp = CompoundFile::open(Cursor::new(bytes))?;
    let mut stream = comp.open_stream("/s")?;
    let mut data = Vec::new();
    stream.read_to_end(&mut data)?;
    Ok(data)
}

/// Appends `extra_len` bytes to "/s" with the `fault_at`-th underlying
/// write/seek/flush call failing (None: no fault).  Returns the number of
/// underlying calls that were made, or a description of what went wrong.
fn append_with_fault(
    base: &[u8],
    initial_len: usize,
    extra_len: usize,
    fault_at: Option<usize>,
) -> Result<usize, String> {
    let mut expected = pattern(initial_len, 7);
    let extra = pattern(extra_len, 99);
    expected.extend_from_slice(&extra);

    let (faulty, control) = Faulty::new(base.to_vec());
    let mut comp = CompoundFile::open(faulty).map_err(|e| e.to_string())?;
    let mut stream = comp.open_stream("/s").map_err(|e| e.to_string())?;
    stream.seek(SeekFrom::End(0)).map_err(|e| e.to_string())?;
    // The data is accepted into the handle's buffer; nothing reaches the
    // backing store before the flush below.
    stream.write_all(&extra).map_err(|e| e.to_string())?;

    control.ops.store(0, Ordering::SeqCst);
    if let Some(k) = fault_at {
        control.countdown.store(k as isize, Ordering::SeqCst);
    }

    let mut flushed = false;
    let mut failures = 0;
    for _attempt in 0..4 {
        match stream.flush() {
            Ok(()) => {
                flushed = true;
                break;
            }
            Err(_) => failures += 1,
        }
    }
    let ops = control.ops.load(Ordering::SeqCst);
    let delivered = control.delivered.load(Ordering::SeqCst);
    control.countdown.store(-1, Ordering::SeqCst);
    if delivered > 0 && failures == 0 {
        return Err(format!(
            "fault {:?}: the backing store failed but every flush said Ok",
            fault_at
        ));
    }
    if !flushed {
        // Later calls may keep failing; that is allowed.
        return Ok(ops);
    }

    // A fresh handle on the same compound file must see the data.
    drop(stream);
    {
        let mut fresh = comp.open_stream("/s").map_err(|e| e.to_string())?;
        let mut data = Vec::new();
        fresh.read_to_end(&mut data).map_err(|e| {
            format!("fault {:?}: fresh handle cannot read: {}", fault_at, e)
        })?;
        if data != expected {
            return Err(format!(
                "fault {:?}: fresh handle reads different data",
                fault_at
            ));
        }
    }

    // And the data must really be in the compound file.
    let bytes = comp.into_inner().inner.into_inner();
    match read_back(bytes) {
        Ok(data) if data == expected => Ok(ops),
        Ok(data) => Err(format!(
            "fault {:?}: flush returned Ok (after {} failed attempt(s)) but \
             the reopened file holds {} bytes that differ from the {} bytes \
             written",
            fault_at,
            failures,
            data.len(),
            expected.len()
        )),
        Err(err) => Err(format!(
            "fault {:?}: flush returned Ok (after {} failed attempt(s)) but \
             the stream cannot be read from the reopened file: {}",
            fault_at, failures, err
        )),
    }
}

fn sweep(initial_len: usize, extra_len: usize) { sweep_with(initial_len, extra_len, &[]) }
fn sweep_with(initial_len: usize, extra_len: usize, others: &[usize]) {
    let base = base_file_with(initial_len, others);
    let total_ops = append_with_fault(&base, initial_len, extra_len, None)
        .expect("fault-free run");
    assert!(total_ops > 0);
    let mut problems = Vec::new();
    for k in 0..total_ops {
        if let Err(problem) =
            append_with_fault(&base, initial_len, extra_len, Some(k))
        {
            problems.push(problem);
        }
    }
    assert!(
        problems.is_empty(),
        "{} of {} fault positions broke the property:\n{}",
        problems.len(),
        total_ops,
        problems.join("\n")
    );
}

//===========================================================================//


#[test]
fn crossing_fat_sector_boundary() { sweep(118 * 512, 12 * 512); }
#[test]
fn first_mini_sector() { sweep(0, 100); }
#[test]
fn first_regular_chain() { sweep(0, 5000); }
#[test]
fn minifat_sector_boundary() { sweep_with(100, 300, &[4000, 4000]); }
#[test]
fn mini_to_regular_migration() { sweep(3000, 3000); }
#[test]
fn mini_stream_container_grows() { sweep_with(400, 300, &[200]); }
#[test]
fn crossing_difat_sector_boundary() { sweep(13700 * 512, 300 * 512); }
