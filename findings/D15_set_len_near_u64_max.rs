// D15: Stream::set_len(n) with n within a sector of u64::MAX on a VALID file: before the repair (ec6e95c) every line printed PANIC
// (arithmetic overflow in Chain::set_len, src/internal/chain.rs:85); after it, InvalidInput.  Run as an integration test of the crate:
//   cp findings/D15_set_len_near_u64_max.rs <crate>/tests/d15.rs && cargo test --offline --test d15 -- --nocapture
use std::io::{Cursor, Write};
fn try_len(version: cfb::Version, n: u64) -> String {
    let mut comp = cfb::CompoundFile::create_with_version(version, Cursor::new(Vec::new())).unwrap();
    {
        let mut s = comp.create_stream("/s").unwrap();
        s.write_all(&vec![7u8; 5000]).unwrap();
        s.flush().unwrap();
    }
    let mut s = comp.open_stream("/s").unwrap();
    let r = std::panic::catch_unwind(std::panic::AssertUnwindSafe(|| s.set_len(n)));
    match r { Ok(Ok(())) => "Ok".into(), Ok(Err(e)) => format!("Err({:?}: {})", e.kind(), e), Err(_) => "PANIC".into() }
}
#[test]
fn d15() {
    for v in [cfb::Version::V3, cfb::Version::V4] {
        for n in [u64::MAX, u64::MAX - 511, u64::MAX - 4095, u64::MAX - 4096] {
            println!("{:?} set_len({:#x}) -> {}", v, n, try_len(v, n));
        }
    }
}
