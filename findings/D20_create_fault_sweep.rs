// D20: a write/seek fault during create_stream / create_storage, the call is retried, data written and flushed:
// whatever flush reports as Ok must be in the file after reopening.
use std::io::{self, Cursor, Read, Seek, SeekFrom, Write};
use std::sync::atomic::{AtomicIsize, AtomicUsize, Ordering};
use std::sync::Arc;

#[derive(Default)]
struct Control { ops: AtomicUsize, countdown: AtomicIsize }
struct Faulty { inner: Cursor<Vec<u8>>, c: Arc<Control> }
impl Faulty {
    fn tick(&self) -> io::Result<()> {
        self.c.ops.fetch_add(1, Ordering::SeqCst);
        let r = self.c.countdown.load(Ordering::SeqCst);
        if r < 0 { return Ok(()); }
        self.c.countdown.store(r - 1, Ordering::SeqCst);
        if r == 0 { return Err(io::Error::other("injected")); }
        Ok(())
    }
}
impl Read for Faulty { fn read(&mut self, b: &mut [u8]) -> io::Result<usize> { self.inner.read(b) } }
impl Write for Faulty {
    fn write(&mut self, b: &[u8]) -> io::Result<usize> { self.tick()?; self.inner.write(b) }
    fn flush(&mut self) -> io::Result<()> { self.tick()?; self.inner.flush() }
}
impl Seek for Faulty { fn seek(&mut self, p: SeekFrom) -> io::Result<u64> { self.tick()?; self.inner.seek(p) } }

fn base(version: cfb::Version, n: usize) -> Vec<u8> {
    let mut comp = cfb::CompoundFile::create_with_version(version, Cursor::new(Vec::new())).unwrap();
    for i in 0..n { comp.create_stream(format!("/e{}", i)).unwrap().write_all(b"x").unwrap(); }
    comp.create_storage("/dir").unwrap();
    comp.into_inner().into_inner()
}

fn run(version: cfb::Version, n: usize, path: &str, fault: Option<usize>) -> Result<usize, String> {
    let c = Arc::new(Control::default());
    c.countdown.store(-1, Ordering::SeqCst);
    let mut comp = cfb::CompoundFile::open(Faulty { inner: Cursor::new(base(version, n)), c: c.clone() }).unwrap();
    c.ops.store(0, Ordering::SeqCst);
    if let Some(k) = fault { c.countdown.store(k as isize, Ordering::SeqCst); }
    let data = vec![0x5Au8; 300];
    let mut ok = false;
    for _ in 0..4 {
        let r = (|| -> io::Result<()> {
            let mut s = comp.create_stream(path)?;
            s.write_all(&data)?;
            s.flush()
        })();
        if r.is_ok() { ok = true; break; }
    }
    let ops = c.ops.load(Ordering::SeqCst);
    c.countdown.store(-1, Ordering::SeqCst);
    if !ok { return Ok(ops); }
    let bytes = comp.into_inner().inner.into_inner();
    let mut comp = cfb::CompoundFile::open(Cursor::new(bytes)).map_err(|e| format!("fault {:?}: reopen fails: {}", fault, e))?;
    let mut got = Vec::new();
    comp.open_stream(path).map_err(|e| format!("fault {:?}: stream gone after reopen: {}", fault, e))?
        .read_to_end(&mut got).map_err(|e| format!("fault {:?}: read: {}", fault, e))?;
    if got != data { return Err(format!("fault {:?}: content differs", fault)); }
    Ok(ops)
}

fn sweep(version: cfb::Version, n: usize, path: &str) {
    let total = run(version, n, path, None).unwrap();
    let probs: Vec<String> = (0..total).filter_map(|k| run(version, n, path, Some(k)).err()).collect();
    assert!(probs.is_empty(), "{} of {} fault positions:\n{}", probs.len(), total, probs.join("\n"));
}

#[test] fn v3_root() { sweep(cfb::Version::V3, 2, "/new"); }
#[test] fn v3_new_dir_sector() { sweep(cfb::Version::V3, 2, "/dir/new"); }
#[test] fn v3_many() { sweep(cfb::Version::V3, 6, "/m"); }
#[test] fn v4_root() { sweep(cfb::Version::V4, 3, "/new"); }
