// D23: a stream handle that outlives the removal of its stream.  Before the repair a write-back, a refill or a
// set_len through such a handle tripped `debug_assert_eq!(dir_entry.obj_type, ObjType::Stream)` (dev profile);
// in a release build the write-back wrote a start sector and a length into the freed directory slot.  After the
// repair those calls return an error (NotFound) and leave the file alone.  Run as an integration test of the crate:
//   cp findings/D23_handle_outlives_its_stream.rs <crate>/tests/d23.rs && cargo test --offline --test d23 -- --nocapture
use std::io::{Cursor, Read, Seek, SeekFrom, Write};

fn run(what: &str) -> String {
    let r = std::panic::catch_unwind(|| -> std::io::Result<String> {
        let mut comp = cfb::CompoundFile::create(Cursor::new(Vec::new())).unwrap();
        comp.create_stream("/keep").unwrap().write_all(&[9u8; 100]).unwrap();
        let mut h = comp.create_stream("/s").unwrap();
        h.write_all(&[7u8; 5000])?;
        h.flush()?;
        comp.remove_stream("/s")?;
        let res: std::io::Result<()> = (|| {
            match what {
                "write+flush" => { h.seek(SeekFrom::Start(0))?; h.write_all(&[1u8; 10])?; h.flush() }
                "read" => { h.seek(SeekFrom::Start(4000))?; let mut b = [0u8; 16]; h.read_exact(&mut b) }
                "set_len" => h.set_len(10),
                _ => unreachable!(),
            }
        })();
        std::mem::forget(h); // the handle's Drop would write back once more
        // whatever the stale handle did, the file must still be sound
        let bytes = comp.into_inner().into_inner();
        let mut again = cfb::CompoundFile::open_strict(Cursor::new(bytes))?;
        let mut v = Vec::new();
        again.open_stream("/keep")?.read_to_end(&mut v)?;
        assert_eq!(v, vec![9u8; 100]);
        assert!(!again.exists("/s"));
        Ok(match res { Ok(()) => "Ok".into(), Err(e) => format!("Err({:?})", e.kind()) })
    });
    match r { Ok(Ok(s)) => s, Ok(Err(e)) => format!("file damaged: {}", e), Err(_) => "PANIC".into() }
}

#[test]
fn d23() {
    let mut bad = 0;
    for what in ["write+flush", "read", "set_len"] {
        let o = run(what);
        println!("{} through a handle whose stream was removed -> {}", what, o);
        if o == "PANIC" || o.starts_with("file damaged") { bad += 1; }
    }
    assert_eq!(bad, 0);
}
