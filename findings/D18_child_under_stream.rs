use std::io::{Cursor, Write};
#[test]
fn child_under_stream() {
    let mut comp = cfb::CompoundFile::create(Cursor::new(Vec::new())).unwrap();
    comp.create_stream("/foo").unwrap().write_all(b"hello").unwrap();
    let r = comp.create_stream("/foo/bar");
    println!("create_stream under a stream: {:?}", r.as_ref().map(|_| ()));
    drop(r);
    let r2 = comp.create_storage("/foo/baz");
    println!("create_storage under a stream: {:?}", r2);
    println!("is_stream(/foo)={} exists(/foo/bar)={}", comp.is_stream("/foo"), comp.exists("/foo/bar"));
    let bytes = comp.into_inner().into_inner();
    println!("strict reopen: {:?}", cfb::CompoundFile::open_strict(Cursor::new(bytes.clone())).map(|_| ()));
    println!("permissive reopen: {:?}", cfb::CompoundFile::open(Cursor::new(bytes)).map(|_| ()));
}
