// D25 (C16): "DIFAT chain ended by the free marker" is a deviation the library tolerates under permissive validation
// and refuses under strict validation - for a link inside a DIFAT sector.  The head of the chain in the header got the
// same normalisation (FREE_SECTOR read as END_OF_CHAIN) in BOTH modes, so a file whose (empty) DIFAT chain is ended by
// the free marker right in the header was accepted by open_strict.
// Run as an integration test: cp to tests/, cargo test --offline --test D25_strict_accepts_free_first_difat_sector
use std::io::{Cursor, Read, Write};

fn image(version: cfb::Version) -> Vec<u8> {
    let mut comp = cfb::CompoundFile::create_with_version(version, Cursor::new(Vec::new())).unwrap();
    comp.create_stream("/data").unwrap().write_all(b"payload").unwrap();
    comp.flush().unwrap();
    comp.into_inner().into_inner()
}

fn check(version: cfb::Version) {
    let good = image(version);
    assert_eq!(&good[68..72], &[0xfe, 0xff, 0xff, 0xff], "a fresh file ends its DIFAT chain with END_OF_CHAIN");
    let mut bad = good.clone();
    bad[68..72].copy_from_slice(&[0xff, 0xff, 0xff, 0xff]);
    // tolerated by permissive open, with the same content ...
    let mut comp = cfb::CompoundFile::open(Cursor::new(bad.clone())).expect("permissive open tolerates the deviation");
    let mut s = String::new();
    comp.open_stream("/data").unwrap().read_to_string(&mut s).unwrap();
    assert_eq!(s, "payload");
    // ... and refused by strict open
    assert!(cfb::CompoundFile::open_strict(Cursor::new(bad)).is_err(), "strict open must refuse a DIFAT chain ended by the free marker");
    cfb::CompoundFile::open_strict(Cursor::new(good)).expect("the undamaged file is strictly valid");
}

#[test]
fn strict_refuses_free_marker_as_first_difat_sector_v3() {
    check(cfb::Version::V3);
}

#[test]
fn strict_refuses_free_marker_as_first_difat_sector_v4() {
    check(cfb::Version::V4);
}
