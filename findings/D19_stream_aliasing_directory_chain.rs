use std::io::{Cursor, Write};
#[test]
fn stream_aliasing_directory_chain() {
    let mut comp = cfb::CompoundFile::create_with_version(cfb::Version::V3, Cursor::new(Vec::new())).unwrap();
    comp.create_stream("/big").unwrap().write_all(&vec![7u8; 5000]).unwrap();
    let mut bytes = comp.into_inner().into_inner();
    let dir_start = u32::from_le_bytes(bytes[48..52].try_into().unwrap());
    // directory entry 1 ("big") lives in the first directory sector at 512*(dir_start+1) + 128
    let e = 512 * (dir_start as usize + 1) + 128;
    assert_eq!(bytes[e], b'b');
    bytes[e + 116..e + 120].copy_from_slice(&dir_start.to_le_bytes());
    let mut comp = cfb::CompoundFile::open(Cursor::new(bytes)).expect("permissive open accepts");
    println!("remove: {:?}", comp.remove_stream("/big"));
    for i in 0..6 {
        println!("create {}: {:?}", i, comp.create_storage(format!("/s{}", i)));
    }
}
