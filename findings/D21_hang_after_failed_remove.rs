//! Reproducer for an endless loop in `Directory::stream_id_for_name_chain`
//! (src/internal/directory.rs, the inner `loop` that walks the sibling tree).
//!
//! Not a corrupted *input* file: the file is created by the crate itself.
//! One I/O error from the underlying writer in the middle of
//! `remove_storage` leaves the in-memory directory tree with a node that has
//! two parents; repeating the same `remove_storage` (which now succeeds) turns
//! that into a node whose right sibling is itself.  Every later lookup of a
//! name that sorts after that node never returns.
//!
//! Run (copy into the crate's `tests/` directory):
//!   cp /tmp/R88_hang/hang_demo.rs <crate>/tests/hang_demo.rs
//!   cargo test --offline --test hang_demo
//!
//! `hang_after_failed_remove_storage` FAILS with "watchdog: ... did not
//! return" on the affected code instead of hanging.

use std::io::{self, Cursor, Read, Seek, SeekFrom, Write};
use std::sync::atomic::{AtomicBool, Ordering};
use std::sync::{mpsc, Arc};
use std::thread;
use std::time::Duration;

use cfb::CompoundFile;

/// A `Cursor<Vec<u8>>` whose next read/write/seek/flush fails once after
/// `fail_next` has been set (one-shot: the flag clears itself).
struct Flaky {
    inner: Cursor<Vec<u8>>,
    fail_next: Arc<AtomicBool>,
}

impl Flaky {
    fn check(&self) -> io::Result<()> {
        if self.fail_next.swap(false, Ordering::SeqCst) {
            return Err(io::Error::new(io::ErrorKind::Other, "injected"));
        }
        Ok(())
    }
}

impl Read for Flaky {
    fn read(&mut self, buf: &mut [u8]) -> io::Result<usize> {
        self.check()?;
        self.inner.read(buf)
    }
}

impl Write for Flaky {
    fn write(&mut self, buf: &[u8]) -> io::Result<usize> {
        self.check()?;
        self.inner.write(buf)
    }
    fn flush(&mut self) -> io::Result<()> {
        self.check()?;
        self.inner.flush()
    }
}

impl Seek for Flaky {
    fn seek(&mut self, pos: SeekFrom) -> io::Result<u64> {
        self.check()?;
        self.inner.seek(pos)
    }
}

/// Runs `f` on its own thread and panics if it has not finished in time.
fn with_watchdog<T: Send + 'static>(
    what: &str,
    timeout: Duration,
    f: impl FnOnce() -> T + Send + 'static,
) -> T {
    let (tx, rx) = mpsc::channel();
    thread::spawn(move || {
        let _ = tx.send(f());
    });
    match rx.recv_timeout(timeout) {
        Ok(value) => value,
        Err(_) => panic!("watchdog: {} did not return within {:?}", what, timeout),
    }
}

/// Builds the compound file and performs the calls up to (not including) the
/// one that spins.  Returns the file and, for inspection, nothing else.
fn build_broken_tree() -> CompoundFile<Flaky> {
    let fail_next = Arc::new(AtomicBool::new(false));
    let flaky =
        Flaky { inner: Cursor::new(Vec::new()), fail_next: fail_next.clone() };
    let mut comp = CompoundFile::create(flaky).expect("create");

    // Sibling tree under the root (no rebalancing is done on insert):
    //        b
    //       / \
    //      a   c
    comp.create_storage("/b").expect("create /b");
    comp.create_storage("/a").expect("create /a");
    comp.create_storage("/c").expect("create /c");

    // First removal of /b: the writer fails on the very first I/O operation
    // of Directory::remove_dir_entry (the seek before writing a's new right
    // sibling).  In memory a.right_sibling is already c, and b is still
    // linked with b.left = a, b.right = c: c now has two parents.
    fail_next.store(true, Ordering::SeqCst);
    let err = comp.remove_storage("/b").expect_err("first remove must fail");
    assert_eq!(err.to_string(), "injected");
    assert!(!fail_next.load(Ordering::SeqCst), "the failure was consumed");
    assert!(comp.exists("/b"));

    // Second removal of /b: no I/O error this time, returns Ok.  The
    // predecessor search now walks a -> c, picks c as "predecessor" of b and
    // sets c.right_sibling = b.right_sibling = c.
    comp.remove_storage("/b").expect("second remove succeeds");
    assert!(!comp.exists("/b"));
    assert!(comp.exists("/a"));
    assert!(comp.exists("/c"));
    comp
}

#[test]
fn hang_after_failed_remove_storage() {
    // Everything up to here terminates.
    let comp = with_watchdog("setup", Duration::from_secs(20), build_broken_tree);

    // Any lookup of a name that sorts after "c" and is not in the tree never
    // returns: exists, is_stream, is_storage, entry, open_stream,
    // create_storage, create_stream, remove_stream, ...  `exists` is the
    // simplest.
    let found = with_watchdog(
        "CompoundFile::exists(\"/d\")",
        Duration::from_secs(10),
        move || comp.exists("/d"),
    );
    assert!(!found);
}

/// The bytes the writer holds after the sequence above (what would be on disk)
/// are saved as /tmp/R88_hang/hang1.cfb (set R88_WRITE_HANG1=1 to rewrite
/// it).  The self-link is in the file too, but a fresh open refuses the file,
/// so the saved file alone does not hang: the endless loop needs the
/// in-memory tree of the handle that saw the I/O error.
#[test]
fn valid_twin_without_failure() {
    let flaky = Flaky {
        inner: Cursor::new(Vec::new()),
        fail_next: Arc::new(AtomicBool::new(false)),
    };
    let mut comp = CompoundFile::create(flaky).expect("create");
    comp.create_storage("/b").expect("create /b");
    comp.create_storage("/a").expect("create /a");
    comp.create_storage("/c").expect("create /c");
    comp.remove_storage("/b").expect("remove /b");
    assert!(!comp.exists("/d"));
    let bytes = comp.into_inner().inner.into_inner();
    CompoundFile::open_strict(Cursor::new(bytes.clone())).expect("valid");
    if std::env::var_os("R88_WRITE_HANG1").is_some() {
        std::fs::write("/tmp/R88_hang/valid_twin.cfb", &bytes).unwrap();
    }
}
