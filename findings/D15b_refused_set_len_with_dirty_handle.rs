// Run as an integration test of the crate: cp findings/D15b_refused_set_len_with_dirty_handle.rs <crate>/tests/d15b.rs && cargo test --offline --test d15b
// Fails on ec6e95c (first repair of D15), passes from the second repair on.
// D15b: a refused Stream::set_len (InvalidInput: length beyond what the FAT can address) must leave the underlying
// bytes unchanged even when the handle has buffered, unflushed writes (C10).  With the first repair of D15 the
// handle's buffer was written back before the refusal; the second repair refuses first.
use std::io::{Cursor, Seek, SeekFrom, Write};
use std::rc::Rc;
use std::cell::RefCell;

#[derive(Clone)]
struct Shared(Rc<RefCell<Cursor<Vec<u8>>>>);
impl std::io::Read for Shared { fn read(&mut self, b: &mut [u8]) -> std::io::Result<usize> { self.0.borrow_mut().read(b) } }
impl Write for Shared { fn write(&mut self, b: &[u8]) -> std::io::Result<usize> { self.0.borrow_mut().write(b) } fn flush(&mut self) -> std::io::Result<()> { Ok(()) } }
impl Seek for Shared { fn seek(&mut self, p: SeekFrom) -> std::io::Result<u64> { self.0.borrow_mut().seek(p) } }

#[test]
fn refused_set_len_leaves_bytes_unchanged_with_dirty_handle() {
    let shared = Shared(Rc::new(RefCell::new(Cursor::new(Vec::new()))));
    let mut comp = cfb::CompoundFile::create(shared.clone()).unwrap();
    { let mut s = comp.create_stream("/s").unwrap(); s.write_all(&[1u8; 5000]).unwrap(); s.flush().unwrap(); }
    comp.flush().unwrap();
    let mut s = comp.open_stream("/s").unwrap();
    s.seek(SeekFrom::Start(100)).unwrap();
    s.write_all(&[9u8; 50]).unwrap();            // buffered, not yet written back
    let before = shared.0.borrow().get_ref().clone();
    let err = s.set_len(u64::MAX).unwrap_err();
    assert_eq!(err.kind(), std::io::ErrorKind::InvalidInput);
    let after = shared.0.borrow().get_ref().clone();
    assert!(before == after, "the refused set_len changed the underlying bytes");
}
