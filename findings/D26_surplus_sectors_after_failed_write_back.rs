// D26 (C08, after a write fault): "When set_len makes a stream longer, every byte between the old and the new length
// reads as zero ... regardless of earlier history".  A write-back that fails after write_data_to_stream has already
// appended sectors to the stream's chain and filled them leaves those sectors in the chain (the directory entry still
// holds the old length).  A later set_len that grows the stream finds the chain long enough, appends nothing, and
// zero_fill_stream clears only the rest of the sector that holds the old end - the sectors beyond it are assumed to be
// fresh.  The stream's own discarded bytes read back where zeros are promised.  (The device fails from the k-th write of
// the flush on, until the handle is gone; then it works again.)
// Run as an integration test: cp to tests/, cargo test --offline --test D26_surplus_sectors_after_failed_write_back
use std::cell::Cell;
use std::io::{self, Cursor, Read, Seek, SeekFrom, Write};
use std::rc::Rc;

struct Faulty {
    inner: Cursor<Vec<u8>>,
    writes: Rc<Cell<u32>>,
    fail_at: Rc<Cell<u32>>,
}

impl Read for Faulty {
    fn read(&mut self, buf: &mut [u8]) -> io::Result<usize> {
        self.inner.read(buf)
    }
}
impl Seek for Faulty {
    fn seek(&mut self, pos: SeekFrom) -> io::Result<u64> {
        self.inner.seek(pos)
    }
}
impl Write for Faulty {
    fn write(&mut self, buf: &[u8]) -> io::Result<usize> {
        self.writes.set(self.writes.get() + 1);
        if self.fail_at.get() != 0 && self.writes.get() >= self.fail_at.get() {
            return Err(io::Error::new(io::ErrorKind::Other, "injected write fault"));
        }
        self.inner.write(buf)
    }
    fn flush(&mut self) -> io::Result<()> {
        self.inner.flush()
    }
}

/// Returns the offsets (>= 5000) at which a non-zero byte was read after the growing set_len, for one fault position.
fn run(fail_at: u32) -> Option<Vec<usize>> {
    let writes = Rc::new(Cell::new(0));
    let fail = Rc::new(Cell::new(0));
    let file = Faulty { inner: Cursor::new(Vec::new()), writes: writes.clone(), fail_at: fail.clone() };
    let mut comp = cfb::CompoundFile::create_with_version(cfb::Version::V3, file).unwrap();
    {
        let mut s = comp.create_stream("/s").unwrap();
        s.write_all(&vec![0x11u8; 5000]).unwrap();
        s.flush().unwrap();
    }
    let mut s = comp.open_stream("/s").unwrap();
    s.seek(SeekFrom::End(0)).unwrap();
    s.write_all(&vec![0xBBu8; 3000]).unwrap();
    writes.set(0);
    fail.set(fail_at);
    let failed = s.flush().is_err();
    drop(s); // the handle's Drop tries the write-back once more: the device is still failing
    fail.set(0);
    if !failed {
        return None; // the fault position lies beyond this flush
    }
    let mut s = comp.open_stream("/s").unwrap();
    if s.len() != 5000 {
        return Some(Vec::new()); // the write-back got as far as the entry: not the case looked at here
    }
    if s.set_len(9000).is_err() {
        return Some(Vec::new());
    }
    let mut data = Vec::new();
    s.seek(SeekFrom::Start(0)).unwrap();
    if s.read_to_end(&mut data).is_err() || data.len() != 9000 {
        return Some(Vec::new());
    }
    Some((5000..9000).filter(|&i| data[i] != 0).collect())
}

#[test]
fn bytes_gained_by_growing_read_as_zero_after_a_failed_write_back() {
    let mut dirty = Vec::new();
    for k in 1..200 {
        match run(k) {
            None => break,
            Some(bad) => {
                if !bad.is_empty() {
                    dirty.push((k, bad[0], bad.len()));
                }
            }
        }
    }
    assert!(dirty.is_empty(), "fault positions after which grown bytes are not zero (position, first offset, count): {:?}", dirty);
}
