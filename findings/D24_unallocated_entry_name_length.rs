// D24 (C03): "unallocated entries are blank".  MS-CFB 2.6.3: a free directory entry is all zeroes except for the three
// link fields, which are NOSTREAM.  DirEntry::write_to wrote the name-length word as (len + 1) * 2 for every entry,
// so every unallocated entry - never used, or freed by a removal - carried 02 00 at bytes 64..66.
// An independent checker reading the rule literally flags every file the library writes.
// Run as an integration test: cp to tests/, cargo test --offline --test D24_unallocated_entry_name_length
use std::convert::TryInto;
use std::io::{Cursor, Write};

fn check(version: cfb::Version, sector_len: usize) {
    let mut comp = cfb::CompoundFile::create_with_version(version, Cursor::new(Vec::new())).unwrap();
    comp.create_stream("/x").unwrap().write_all(b"hello").unwrap();
    comp.create_stream("/y").unwrap().write_all(b"world").unwrap();
    comp.remove_stream("/x").unwrap();
    comp.flush().unwrap();
    let bytes = comp.into_inner().into_inner();
    // the directory starts in the sector the header names at offset 48
    let dir_start = u32::from_le_bytes(bytes[48..52].try_into().unwrap()) as usize;
    let base = (dir_start + 1) * sector_len;
    let mut seen_free = 0;
    for i in 0..(sector_len / 128) {
        let e = &bytes[base + i * 128..base + (i + 1) * 128];
        if e[66] != 0 {
            continue; // allocated
        }
        seen_free += 1;
        for (k, b) in e.iter().enumerate() {
            let link = (68..80).contains(&k);
            assert_eq!(*b, if link { 0xff } else { 0 }, "free entry {} byte {} is {:#x}", i, k, b);
        }
    }
    assert!(seen_free >= 1);
    // and the image still reopens in both modes
    cfb::CompoundFile::open_strict(Cursor::new(bytes.clone())).unwrap();
    cfb::CompoundFile::open(Cursor::new(bytes)).unwrap();
}

#[test]
fn free_directory_entries_are_blank_v3() {
    check(cfb::Version::V3, 512);
}

#[test]
fn free_directory_entries_are_blank_v4() {
    check(cfb::Version::V4, 4096);
}
