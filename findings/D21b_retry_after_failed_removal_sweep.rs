// D21b: the first repair of D21 (fff5e49) wrote each link of a removal to the file before changing it in memory, but a
// removal with two children that failed AFTER the in-order predecessor (the removed entry's direct left child) had
// adopted the right subtree, and was then repeated, searched the predecessor again by walking right links - into the
// subtree just adopted - and linked an entry to itself: walk(), read_storage(), exists() never returned.
// This sweep builds small sibling trees of every insertion order of a few names, fails one underlying write/seek at
// every position of every removal, repeats the failed call, and then lists the storage and looks every name up; a
// watchdog turns a hang into a failure.
//   cp findings/D21b_retry_after_failed_removal_sweep.rs <crate>/tests/d21b.rs && cargo test --offline --test d21b -- --nocapture
use cfb::CompoundFile;
use std::io::{self, Cursor, Read, Seek, SeekFrom, Write};
use std::sync::atomic::{AtomicI64, Ordering};
use std::sync::{mpsc, Arc};
use std::time::Duration;

struct Faulty { inner: Cursor<Vec<u8>>, countdown: Arc<AtomicI64> }
impl Faulty {
    fn tick(&self) -> io::Result<()> {
        if self.countdown.load(Ordering::SeqCst) < 0 { return Ok(()); }
        if self.countdown.fetch_sub(1, Ordering::SeqCst) == 0 { return Err(io::Error::new(io::ErrorKind::Other, "injected")); }
        Ok(())
    }
}
impl Read for Faulty { fn read(&mut self, b: &mut [u8]) -> io::Result<usize> { self.inner.read(b) } }
impl Write for Faulty {
    fn write(&mut self, b: &[u8]) -> io::Result<usize> { self.tick()?; self.inner.write(b) }
    fn flush(&mut self) -> io::Result<()> { self.inner.flush() }
}
impl Seek for Faulty { fn seek(&mut self, p: SeekFrom) -> io::Result<u64> { self.tick()?; self.inner.seek(p) } }

fn permutations(items: &[&'static str]) -> Vec<Vec<&'static str>> {
    if items.len() <= 1 { return vec![items.to_vec()]; }
    let mut out = Vec::new();
    for i in 0..items.len() {
        let mut rest = items.to_vec();
        let x = rest.remove(i);
        for mut p in permutations(&rest) { p.insert(0, x); out.push(p); }
    }
    out
}

// Returns Some(description) if something hangs or panics.
fn one_case(order: Vec<&'static str>, victim: &'static str, k: i64) -> Option<Option<String>> {
    let (tx, rx) = mpsc::channel();
    std::thread::spawn(move || {
        let res = std::panic::catch_unwind(move || -> Option<bool> {
            let countdown = Arc::new(AtomicI64::new(-1));
            let mut comp = CompoundFile::create(Faulty { inner: Cursor::new(Vec::new()), countdown: countdown.clone() }).unwrap();
            for n in &order { comp.create_storage(format!("/{}", n)).unwrap(); }
            countdown.store(k, Ordering::SeqCst);
            let first = comp.remove_storage(format!("/{}", victim));
            let fired = countdown.load(Ordering::SeqCst) < 0;
            countdown.store(-1, Ordering::SeqCst);
            if first.is_ok() && !fired { return None; } // k is beyond the last call of the operation
            if first.is_err() { let _ = comp.remove_storage(format!("/{}", victim)); }
            let listed: Vec<String> = comp.read_storage("/").unwrap().take(1000).map(|e| e.name().to_string()).collect();
            assert!(listed.len() < 1000, "listing does not end: {:?}...", &listed[..8]);
            let walked = comp.walk().take(1000).count();
            assert!(walked < 1000, "walk does not end");
            for n in &order { let _ = comp.exists(format!("/{}", n)); }
            let _ = comp.create_storage("/zz");
            let _ = comp.create_storage("/0");
            Some(true)
        });
        let _ = tx.send(match res { Ok(None) => None, Ok(Some(_)) => Some(None), Err(e) => Some(Some(format!("panic: {:?}", e.downcast_ref::<String>()))) });
    });
    match rx.recv_timeout(Duration::from_secs(10)) {
        Ok(v) => v,
        Err(_) => Some(Some("HANG".to_string())),
    }
}

#[test]
fn retry_after_failed_removal_never_hangs() {
    let names = ["m", "d", "t", "b", "f"];
    let mut cases = 0;
    let mut bad = Vec::new();
    for order in permutations(&names) {
        for victim in names {
            for k in 0..200 {
                match one_case(order.clone(), victim, k) {
                    None => break,
                    Some(None) => cases += 1,
                    Some(Some(what)) => { cases += 1; bad.push(format!("{:?} remove {} fault at {}: {}", order, victim, k, what)); if bad.len() > 5 { break; } }
                }
            }
        }
        if bad.len() > 5 { break; }
    }
    println!("{} fault positions", cases);
    assert!(bad.is_empty(), "{:#?}", bad);
}
