// cfbsa-driver: a rustc_private driver that dumps type-checked MIR facts
// (resolved callees, field names, constants, spans/macros) as JSON.
// It is injected with RUSTC_WORKSPACE_WRAPPER; nothing of the analysed crate
// is ever executed.  Output: $CFBSA_OUT_DIR/<crate name>.json for every crate
// compiled as a primary (workspace) package.
#![feature(rustc_private)]
#![allow(clippy::all)]

extern crate rustc_abi;
extern crate rustc_driver;
extern crate rustc_hir;
extern crate rustc_interface;
extern crate rustc_middle;
extern crate rustc_session;
extern crate rustc_span;

use rustc_driver::{Callbacks, Compilation};
use rustc_hir::def::DefKind;
use rustc_hir::def_id::{DefId, LocalDefId};
use rustc_middle::mir::{
    self, AggregateKind, AssertKind, BasicBlock, Body, Const, ConstValue,
    Operand, Place, ProjectionElem, Rvalue, StatementKind, TerminatorKind,
};
use rustc_middle::ty::{self, Instance, Ty, TyCtxt, TyKind, TypingEnv};
use rustc_span::Span;
use std::fmt::Write as _;

// ---------------------------------------------------------------- JSON --

enum J {
    Null,
    Bool(bool),
    Int(i128),
    Str(String),
    Arr(Vec<J>),
    Obj(Vec<(&'static str, J)>),
}

fn esc(s: &str, out: &mut String) {
    out.push('"');
    for c in s.chars() {
        match c {
            '"' => out.push_str("\\\""),
            '\\' => out.push_str("\\\\"),
            '\n' => out.push_str("\\n"),
            '\r' => out.push_str("\\r"),
            '\t' => out.push_str("\\t"),
            c if (c as u32) < 0x20 => {
                let _ = write!(out, "\\u{:04x}", c as u32);
            }
            c => out.push(c),
        }
    }
    out.push('"');
}

impl J {
    fn write(&self, out: &mut String) {
        match self {
            J::Null => out.push_str("null"),
            J::Bool(b) => out.push_str(if *b { "true" } else { "false" }),
            J::Int(i) => {
                let _ = write!(out, "{}", i);
            }
            J::Str(s) => esc(s, out),
            J::Arr(v) => {
                out.push('[');
                for (i, x) in v.iter().enumerate() {
                    if i > 0 {
                        out.push(',');
                    }
                    x.write(out);
                }
                out.push(']');
            }
            J::Obj(v) => {
                out.push('{');
                for (i, (k, x)) in v.iter().enumerate() {
                    if i > 0 {
                        out.push(',');
                    }
                    esc(k, out);
                    out.push(':');
                    x.write(out);
                }
                out.push('}');
            }
        }
    }
}

fn s<T: ToString>(x: T) -> J {
    J::Str(x.to_string())
}

// --------------------------------------------------------------- facts --

struct Cx<'tcx> {
    tcx: TyCtxt<'tcx>,
}

impl<'tcx> Cx<'tcx> {
    fn path(&self, did: DefId) -> String {
        self.tcx.def_path_str(did)
    }

    fn span(&self, sp: Span) -> J {
        let sm = self.tcx.sess.source_map();
        // the user-written call site (outside all macro expansions)
        let root = sp.source_callsite();
        let loc = sm.lookup_char_pos(root.lo());
        let file = match &loc.file.name {
            rustc_span::FileName::Real(r) => r
                .local_path()
                .map(|p| p.to_string_lossy().to_string())
                .unwrap_or_else(|| format!("{:?}", loc.file.name)),
            other => format!("{:?}", other),
        };
        let mut macros = Vec::new();
        for e in sp.macro_backtrace() {
            match e.kind {
                rustc_span::ExpnKind::Macro(_, name) => macros.push(s(name)),
                rustc_span::ExpnKind::Desugaring(d) => {
                    macros.push(J::Str(format!("desugar:{:?}", d)))
                }
                _ => macros.push(s("other")),
            }
        }
        J::Obj(vec![
            ("file", J::Str(file)),
            ("line", J::Int(loc.line as i128)),
            ("col", J::Int(loc.col.0 as i128)),
            ("macros", J::Arr(macros)),
        ])
    }

    fn ty(&self, t: Ty<'tcx>) -> J {
        // structured summary + string
        let mut o: Vec<(&'static str, J)> = vec![("s", s(t))];
        match t.kind() {
            TyKind::Adt(def, args) => {
                o.push(("k", s("adt")));
                o.push(("adt", J::Str(self.path(def.did()))));
                let a: Vec<J> = args
                    .iter()
                    .filter_map(|g| g.as_type())
                    .map(|x| self.ty_shallow(x))
                    .collect();
                o.push(("args", J::Arr(a)));
            }
            TyKind::Ref(_, inner, m) => {
                o.push(("k", s("ref")));
                o.push(("mut", J::Bool(m.is_mut())));
                o.push(("inner", self.ty_shallow(*inner)));
            }
            TyKind::RawPtr(inner, m) => {
                o.push(("k", s("ptr")));
                o.push(("mut", J::Bool(m.is_mut())));
                o.push(("inner", self.ty_shallow(*inner)));
            }
            TyKind::Param(p) => {
                o.push(("k", s("param")));
                o.push(("name", s(p.name)));
            }
            TyKind::Tuple(ts) => {
                o.push(("k", s("tuple")));
                o.push((
                    "elems",
                    J::Arr(ts.iter().map(|x| self.ty_shallow(x)).collect()),
                ));
            }
            TyKind::Closure(did, _) => {
                o.push(("k", s("closure")));
                o.push(("def", J::Str(self.path(*did))));
            }
            TyKind::FnDef(did, _) => {
                o.push(("k", s("fndef")));
                o.push(("def", J::Str(self.path(*did))));
            }
            TyKind::Slice(inner) => {
                o.push(("k", s("slice")));
                o.push(("inner", self.ty_shallow(*inner)));
            }
            TyKind::Array(inner, _) => {
                o.push(("k", s("array")));
                o.push(("inner", self.ty_shallow(*inner)));
            }
            TyKind::Dynamic(..) => o.push(("k", s("dyn"))),
            TyKind::Bool => o.push(("k", s("bool"))),
            TyKind::Int(_) | TyKind::Uint(_) => o.push(("k", s("int"))),
            TyKind::Str => o.push(("k", s("str"))),
            _ => o.push(("k", s("other"))),
        }
        J::Obj(o)
    }

    fn ty_shallow(&self, t: Ty<'tcx>) -> J {
        // one more level for references/ADTs, string beyond that
        match t.kind() {
            TyKind::Adt(def, args) => J::Obj(vec![
                ("s", s(t)),
                ("k", s("adt")),
                ("adt", J::Str(self.path(def.did()))),
                (
                    "args",
                    J::Arr(
                        args.iter()
                            .filter_map(|g| g.as_type())
                            .map(|x| s(x))
                            .collect(),
                    ),
                ),
            ]),
            TyKind::Ref(_, inner, m) => J::Obj(vec![
                ("s", s(t)),
                ("k", s("ref")),
                ("mut", J::Bool(m.is_mut())),
                ("inner", self.ty_shallow(*inner)),
            ]),
            TyKind::Param(p) => J::Obj(vec![
                ("s", s(t)),
                ("k", s("param")),
                ("name", s(p.name)),
            ]),
            _ => J::Obj(vec![("s", s(t))]),
        }
    }

    fn place(&self, body: &Body<'tcx>, p: &Place<'tcx>) -> J {
        let tcx = self.tcx;
        let mut pty = mir::PlaceTy::from_ty(body.local_decls[p.local].ty);
        let mut projs = Vec::new();
        for elem in p.projection.iter() {
            let j = match elem {
                ProjectionElem::Deref => J::Obj(vec![("p", s("deref"))]),
                ProjectionElem::Field(f, fty) => {
                    let mut name = format!("{}", f.index());
                    let mut owner = String::new();
                    match pty.ty.kind() {
                        TyKind::Adt(def, _) => {
                            let vidx = pty
                                .variant_index
                                .unwrap_or(rustc_abi::FIRST_VARIANT);
                            if (vidx.index()) < def.variants().len() {
                                let v = def.variant(vidx);
                                if f.index() < v.fields.len() {
                                    name = v.fields[f].name.to_string();
                                }
                                owner = self.path(def.did());
                                if def.is_enum() {
                                    owner.push_str("::");
                                    owner.push_str(v.name.as_str());
                                }
                            }
                        }
                        TyKind::Closure(did, _) => {
                            owner = self.path(*did);
                            if let Some(ldid) = did.as_local() {
                                let caps = tcx.closure_captures(ldid);
                                if f.index() < caps.len() {
                                    name = caps[f.index()]
                                        .to_symbol()
                                        .to_string();
                                }
                            }
                        }
                        TyKind::Tuple(_) => owner = "tuple".to_string(),
                        _ => {}
                    }
                    J::Obj(vec![
                        ("p", s("field")),
                        ("i", J::Int(f.index() as i128)),
                        ("name", J::Str(name)),
                        ("owner", J::Str(owner)),
                        ("ty", s(fty)),
                    ])
                }
                ProjectionElem::Index(l) => J::Obj(vec![
                    ("p", s("index")),
                    ("local", J::Int(l.index() as i128)),
                ]),
                ProjectionElem::ConstantIndex {
                    offset, from_end, ..
                } => J::Obj(vec![
                    ("p", s("constindex")),
                    ("offset", J::Int(offset as i128)),
                    ("from_end", J::Bool(from_end)),
                ]),
                ProjectionElem::Subslice { from, to, from_end } => {
                    J::Obj(vec![
                        ("p", s("subslice")),
                        ("from", J::Int(from as i128)),
                        ("to", J::Int(to as i128)),
                        ("from_end", J::Bool(from_end)),
                    ])
                }
                ProjectionElem::Downcast(name, vidx) => J::Obj(vec![
                    ("p", s("downcast")),
                    (
                        "variant",
                        match name {
                            Some(n) => s(n),
                            None => J::Null,
                        },
                    ),
                    ("vidx", J::Int(vidx.index() as i128)),
                ]),
                _ => J::Obj(vec![("p", s("other"))]),
            };
            projs.push(j);
            pty = pty.projection_ty(tcx, elem);
        }
        J::Obj(vec![
            ("local", J::Int(p.local.index() as i128)),
            ("proj", J::Arr(projs)),
            ("ty", s(pty.ty)),
        ])
    }

    fn constant(&self, body_def: DefId, c: &mir::ConstOperand<'tcx>) -> J {
        let tcx = self.tcx;
        let ty = c.const_.ty();
        let mut o: Vec<(&'static str, J)> =
            vec![("k", s("const")), ("ty", s(ty))];
        if let TyKind::FnDef(did, args) = ty.kind() {
            o.push(("fndef", J::Str(self.path(*did))));
            o.push(("fnargs", s(format!("{:?}", args))));
            return J::Obj(o);
        }
        if let TyKind::Closure(did, _) = ty.kind() {
            o.push(("closure", J::Str(self.path(*did))));
            return J::Obj(o);
        }
        if let Const::Unevaluated(u, _) = c.const_ {
            o.push(("named", J::Str(self.path(u.def))));
            if u.promoted.is_some() {
                o.push(("promoted", J::Bool(true)));
            }
        }
        let env = TypingEnv::post_analysis(tcx, body_def);
        // only integer-like scalars are evaluated
        let is_intlike = matches!(
            ty.kind(),
            TyKind::Bool | TyKind::Int(_) | TyKind::Uint(_) | TyKind::Char
        );
        if is_intlike {
            if let Some(si) = c.const_.try_eval_scalar_int(tcx, env) {
                let size = si.size();
                let bits = si.to_bits(size);
                let v: i128 = match ty.kind() {
                    TyKind::Int(_) => {
                        let sh = 128 - size.bits() as u32;
                        ((bits as i128) << sh) >> sh
                    }
                    _ => bits as i128,
                };
                if bits <= i128::MAX as u128 || matches!(ty.kind(), TyKind::Int(_)) {
                    o.push(("val", J::Int(v)));
                } else {
                    o.push(("valstr", J::Str(format!("{}", bits))));
                }
            }
        } else if let Const::Val(cv @ ConstValue::Slice { .. }, _) = c.const_ {
            if let TyKind::Ref(_, inner, _) = ty.kind() {
                if inner.is_str() {
                    if let Some(b) = cv.try_get_slice_bytes_for_diagnostics(tcx) {
                        o.push((
                            "str",
                            J::Str(String::from_utf8_lossy(b).to_string()),
                        ));
                    }
                }
            }
        } else if let TyKind::Adt(def, _) = ty.kind() {
            // fieldless enum constants (ErrorKind::NotFound, ObjType::Stream...)
            if def.is_enum() {
                if let Some(sc) = c.const_.try_eval_scalar(tcx, env) {
                    if let Ok(si) = sc.try_to_scalar_int() {
                        let bits = si.to_bits(si.size());
                        o.push(("enum", J::Str(self.path(def.did()))));
                        o.push(("discr_bits", J::Int(bits as i128)));
                        for (vi, d) in def.discriminants(tcx) {
                            if d.val == bits {
                                o.push((
                                    "variant",
                                    s(def.variant(vi).name),
                                ));
                            }
                        }
                    }
                }
            }
        }
        o.push(("repr", s(format!("{}", c.const_))));
        J::Obj(o)
    }

    fn operand(&self, body: &Body<'tcx>, did: DefId, op: &Operand<'tcx>) -> J {
        match op {
            Operand::Copy(p) => {
                J::Obj(vec![("k", s("copy")), ("place", self.place(body, p))])
            }
            Operand::Move(p) => {
                J::Obj(vec![("k", s("move")), ("place", self.place(body, p))])
            }
            Operand::Constant(c) => self.constant(did, c),
            _ => J::Obj(vec![("k", s("runtime_checks"))]),
        }
    }

    fn rvalue(&self, body: &Body<'tcx>, did: DefId, rv: &Rvalue<'tcx>) -> J {
        let op = |o: &Operand<'tcx>| self.operand(body, did, o);
        match rv {
            Rvalue::Use(o, ..) => J::Obj(vec![("r", s("use")), ("op", op(o))]),
            Rvalue::Repeat(o, n) => J::Obj(vec![
                ("r", s("repeat")),
                ("op", op(o)),
                ("count", s(n)),
            ]),
            Rvalue::Ref(_, bk, p) => J::Obj(vec![
                ("r", s("ref")),
                (
                    "mut",
                    J::Bool(matches!(bk, mir::BorrowKind::Mut { .. })),
                ),
                ("place", self.place(body, p)),
            ]),
            Rvalue::RawPtr(k, p) => J::Obj(vec![
                ("r", s("rawptr")),
                ("kind", s(format!("{:?}", k))),
                ("place", self.place(body, p)),
            ]),
            Rvalue::Cast(k, o, t) => J::Obj(vec![
                ("r", s("cast")),
                ("kind", s(format!("{:?}", k))),
                ("op", op(o)),
                ("ty", s(t)),
            ]),
            Rvalue::BinaryOp(b, ops) => J::Obj(vec![
                ("r", s("binop")),
                ("op", s(format!("{:?}", b))),
                ("a", op(&ops.0)),
                ("b", op(&ops.1)),
            ]),
            Rvalue::UnaryOp(u, o) => J::Obj(vec![
                ("r", s("unop")),
                ("op", s(format!("{:?}", u))),
                ("a", op(o)),
            ]),
            Rvalue::Discriminant(p) => J::Obj(vec![
                ("r", s("discriminant")),
                ("place", self.place(body, p)),
            ]),
            Rvalue::Aggregate(kind, ops) => {
                let mut o: Vec<(&'static str, J)> = vec![("r", s("aggregate"))];
                match &**kind {
                    AggregateKind::Adt(adid, vidx, _, _, _) => {
                        let def = self.tcx.adt_def(*adid);
                        let v = def.variant(*vidx);
                        o.push(("agg", s("adt")));
                        o.push(("adt", J::Str(self.path(*adid))));
                        o.push(("variant", s(v.name)));
                        o.push((
                            "fields",
                            J::Arr(v.fields.iter().map(|f| s(f.name)).collect()),
                        ));
                    }
                    AggregateKind::Tuple => o.push(("agg", s("tuple"))),
                    AggregateKind::Array(_) => o.push(("agg", s("array"))),
                    AggregateKind::Closure(cd, _) => {
                        o.push(("agg", s("closure")));
                        o.push(("closure", J::Str(self.path(*cd))));
                    }
                    _ => o.push(("agg", s("other"))),
                }
                o.push(("ops", J::Arr(ops.iter().map(|x| op(x)).collect())));
                J::Obj(o)
            }
            Rvalue::CopyForDeref(p) => J::Obj(vec![
                ("r", s("use")),
                (
                    "op",
                    J::Obj(vec![
                        ("k", s("copy")),
                        ("place", self.place(body, p)),
                    ]),
                ),
            ]),
            other => J::Obj(vec![
                ("r", s("other")),
                ("repr", s(format!("{:?}", other))),
            ]),
        }
    }

    fn generics(&self, did: DefId) -> J {
        let g = self.tcx.generics_of(did);
        let mut v = Vec::new();
        for i in 0..g.count() {
            let p = g.param_at(i, self.tcx);
            if matches!(p.kind, ty::GenericParamDefKind::Type { .. }) {
                v.push(s(p.name));
            }
        }
        J::Arr(v)
    }

    fn callee(
        &self,
        body_def: DefId,
        func: &Operand<'tcx>,
    ) -> Vec<(&'static str, J)> {
        let tcx = self.tcx;
        let mut o: Vec<(&'static str, J)> = Vec::new();
        let fty = match func {
            Operand::Constant(c) => c.const_.ty(),
            _ => {
                o.push(("callee_kind", s("indirect")));
                return o;
            }
        };
        if let TyKind::FnDef(did, args) = fty.kind() {
            o.push(("callee_kind", s("direct")));
            o.push(("callee", J::Str(self.path(*did))));
            o.push(("callee_name", s(tcx.item_name(*did))));
            o.push(("callee_krate", s(tcx.crate_name(did.krate))));
            let targs: Vec<J> =
                args.iter().filter_map(|g| g.as_type()).map(|t| self.ty_shallow(t)).collect();
            o.push(("callee_targs", J::Arr(targs)));
            // trait method?
            if let Some(tr) = tcx.trait_of_assoc(*did) {
                o.push(("callee_trait", J::Str(self.path(tr))));
                if let Some(self_ty) = args.iter().next().and_then(|g| g.as_type()) {
                    o.push(("callee_self", self.ty(self_ty)));
                }
            } else if let Some(imp) = tcx.impl_of_assoc(*did) {
                let st = tcx.type_of(imp).instantiate_identity().skip_norm_wip();
                o.push(("callee_impl_self", self.ty_shallow(st)));
            }
            // resolution
            let env = TypingEnv::post_analysis(tcx, body_def);
            match Instance::try_resolve(tcx, env, *did, args) {
                Ok(Some(inst)) => {
                    let rdid = inst.def_id();
                    o.push(("resolved", J::Str(self.path(rdid))));
                    o.push(("resolved_local", J::Bool(rdid.is_local())));
                    o.push((
                        "resolved_targs",
                        J::Arr(
                            inst.args
                                .iter()
                                .filter_map(|g| g.as_type())
                                .map(|t| self.ty_shallow(t))
                                .collect(),
                        ),
                    ));
                    o.push((
                        "resolved_kind",
                        s(match inst.def {
                            ty::InstanceKind::Item(_) => "item",
                            ty::InstanceKind::Virtual(..) => "virtual",
                            ty::InstanceKind::Intrinsic(_) => "intrinsic",
                            ty::InstanceKind::ClosureOnceShim { .. } => "closure_once_shim",
                            ty::InstanceKind::FnPtrShim(..) => "fnptr_shim",
                            ty::InstanceKind::DropGlue(..) => "drop_glue",
                            ty::InstanceKind::CloneShim(..) => "clone_shim",
                            _ => "other",
                        }),
                    ));
                    // closure call through Fn* traits: which closure?
                    if let Some(st) = inst.args.iter().next().and_then(|g| g.as_type()) {
                        if let TyKind::Closure(cd, _) = st.peel_refs().kind() {
                            o.push(("resolved_closure", J::Str(self.path(*cd))));
                        }
                    }
                }
                _ => o.push(("resolved", J::Null)),
            }
        } else {
            o.push(("callee_kind", s("indirect")));
        }
        o
    }

    fn body(&self, ldid: LocalDefId) -> Option<J> {
        let tcx = self.tcx;
        let did = ldid.to_def_id();
        let kind = tcx.def_kind(did);
        let kstr = match kind {
            DefKind::Fn => "fn",
            DefKind::AssocFn => "assocfn",
            DefKind::Closure => "closure",
            _ => return None,
        };
        if !tcx.is_mir_available(did) {
            return None;
        }
        let body: &Body<'tcx> = tcx.optimized_mir(did);
        let mut o: Vec<(&'static str, J)> = Vec::new();
        o.push(("path", J::Str(self.path(did))));
        o.push(("kind", s(kstr)));
        o.push(("name", s(tcx.item_name(tcx.typeck_root_def_id(did)))));
        o.push(("span", self.span(tcx.def_span(did))));
        o.push(("arg_count", J::Int(body.arg_count as i128)));
        o.push(("generics", self.generics(did)));
        if matches!(kind, DefKind::Fn | DefKind::AssocFn) {
            o.push(("vis", s(format!("{:?}", tcx.visibility(did)))));
            o.push((
                "is_pub",
                J::Bool(tcx.visibility(did).is_public()),
            ));
        }
        if kind == DefKind::Closure {
            o.push(("parent", J::Str(self.path(tcx.parent(did)))));
            let caps: Vec<J> = tcx
                .closure_captures(ldid)
                .iter()
                .map(|c| {
                    J::Obj(vec![
                        ("name", s(c.to_symbol())),
                        ("ty", s(c.place.ty())),
                        ("by", s(format!("{:?}", c.info.capture_kind))),
                    ])
                })
                .collect();
            o.push(("captures", J::Arr(caps)));
        }
        if let Some(imp) = tcx.impl_of_assoc(did) {
            let st = tcx.type_of(imp).instantiate_identity().skip_norm_wip();
            o.push(("impl_self", self.ty_shallow(st)));
            if let Some(tr) = tcx.impl_opt_trait_ref(imp) {
                let tr = tr.instantiate_identity().skip_norm_wip();
                o.push(("impl_trait", J::Str(self.path(tr.def_id))));
                o.push(("impl_trait_full", s(tr)));
            }
        }
        if let Some(tr) = tcx.trait_of_assoc(did) {
            o.push(("in_trait", J::Str(self.path(tr))));
        }
        // locals
        let mut locals = Vec::new();
        for (_l, d) in body.local_decls.iter_enumerated() {
            locals.push(self.ty(d.ty));
        }
        o.push(("locals", J::Arr(locals)));
        // debug names
        let mut dbg = Vec::new();
        for v in body.var_debug_info.iter() {
            if let mir::VarDebugInfoContents::Place(p) = &v.value {
                dbg.push(J::Obj(vec![
                    ("name", s(v.name)),
                    ("place", self.place(body, p)),
                ]));
            }
        }
        o.push(("debug", J::Arr(dbg)));
        // blocks
        let mut blocks = Vec::new();
        for (_bb, data) in body.basic_blocks.iter_enumerated() {
            let mut stmts = Vec::new();
            for st in data.statements.iter() {
                match &st.kind {
                    StatementKind::Assign(b) => {
                        let (p, rv) = &**b;
                        stmts.push(J::Obj(vec![
                            ("s", s("assign")),
                            ("place", self.place(body, p)),
                            ("rv", self.rvalue(body, did, rv)),
                            ("span", self.span(st.source_info.span)),
                        ]));
                    }
                    StatementKind::SetDiscriminant {
                        place,
                        variant_index,
                    } => {
                        stmts.push(J::Obj(vec![
                            ("s", s("setdiscr")),
                            ("place", self.place(body, place)),
                            ("vidx", J::Int(variant_index.index() as i128)),
                            ("span", self.span(st.source_info.span)),
                        ]));
                    }
                    StatementKind::Intrinsic(i) => {
                        stmts.push(J::Obj(vec![
                            ("s", s("intrinsic")),
                            ("repr", s(format!("{:?}", i))),
                        ]));
                    }
                    _ => {}
                }
            }
            let term = data.terminator();
            let bbj = |b: BasicBlock| J::Int(b.index() as i128);
            let unw = |u: &mir::UnwindAction| match u {
                mir::UnwindAction::Cleanup(b) => bbj(*b),
                _ => J::Null,
            };
            let mut t: Vec<(&'static str, J)> = Vec::new();
            match &term.kind {
                TerminatorKind::Goto { target } => {
                    t.push(("t", s("goto")));
                    t.push(("target", bbj(*target)));
                }
                TerminatorKind::SwitchInt { discr, targets } => {
                    t.push(("t", s("switch")));
                    t.push(("discr", self.operand(body, did, discr)));
                    let mut arms = Vec::new();
                    for (v, b) in targets.iter() {
                        arms.push(J::Arr(vec![
                            if v <= i128::MAX as u128 {
                                J::Int(v as i128)
                            } else {
                                J::Str(format!("{}", v))
                            },
                            bbj(b),
                        ]));
                    }
                    t.push(("arms", J::Arr(arms)));
                    t.push(("otherwise", bbj(targets.otherwise())));
                }
                TerminatorKind::Return => t.push(("t", s("return"))),
                TerminatorKind::Unreachable => t.push(("t", s("unreachable"))),
                TerminatorKind::UnwindResume => t.push(("t", s("resume"))),
                TerminatorKind::UnwindTerminate(_) => {
                    t.push(("t", s("terminate")))
                }
                TerminatorKind::Drop {
                    place,
                    target,
                    unwind,
                    ..
                } => {
                    t.push(("t", s("drop")));
                    t.push(("place", self.place(body, place)));
                    t.push(("target", bbj(*target)));
                    t.push(("unwind", unw(unwind)));
                }
                TerminatorKind::Call {
                    func,
                    args,
                    destination,
                    target,
                    unwind,
                    fn_span,
                    ..
                } => {
                    t.push(("t", s("call")));
                    t.extend(self.callee(did, func));
                    if !matches!(func, Operand::Constant(_)) {
                        t.push(("func", self.operand(body, did, func)));
                    }
                    t.push((
                        "args",
                        J::Arr(
                            args.iter()
                                .map(|a| self.operand(body, did, &a.node))
                                .collect(),
                        ),
                    ));
                    t.push(("dest", self.place(body, destination)));
                    t.push((
                        "target",
                        match target {
                            Some(b) => bbj(*b),
                            None => J::Null,
                        },
                    ));
                    t.push(("unwind", unw(unwind)));
                    t.push(("fn_span", self.span(*fn_span)));
                }
                TerminatorKind::TailCall { func, args, .. } => {
                    t.push(("t", s("tailcall")));
                    t.extend(self.callee(did, func));
                    t.push((
                        "args",
                        J::Arr(
                            args.iter()
                                .map(|a| self.operand(body, did, &a.node))
                                .collect(),
                        ),
                    ));
                }
                TerminatorKind::Assert {
                    cond,
                    expected,
                    msg,
                    target,
                    unwind,
                } => {
                    t.push(("t", s("assert")));
                    t.push(("cond", self.operand(body, did, cond)));
                    t.push(("expected", J::Bool(*expected)));
                    let (k, ops): (String, Vec<J>) = match &**msg {
                        AssertKind::BoundsCheck { len, index } => (
                            "BoundsCheck".into(),
                            vec![
                                self.operand(body, did, len),
                                self.operand(body, did, index),
                            ],
                        ),
                        AssertKind::Overflow(op, a, b) => (
                            format!("Overflow:{:?}", op),
                            vec![
                                self.operand(body, did, a),
                                self.operand(body, did, b),
                            ],
                        ),
                        AssertKind::OverflowNeg(a) => (
                            "OverflowNeg".into(),
                            vec![self.operand(body, did, a)],
                        ),
                        AssertKind::DivisionByZero(a) => (
                            "DivisionByZero".into(),
                            vec![self.operand(body, did, a)],
                        ),
                        AssertKind::RemainderByZero(a) => (
                            "RemainderByZero".into(),
                            vec![self.operand(body, did, a)],
                        ),
                        AssertKind::MisalignedPointerDereference { .. } => {
                            ("UB:Misaligned".into(), vec![])
                        }
                        AssertKind::NullPointerDereference => {
                            ("UB:Null".into(), vec![])
                        }
                        AssertKind::InvalidEnumConstruction(_) => {
                            ("UB:InvalidEnum".into(), vec![])
                        }
                        _ => ("Other".into(), vec![]),
                    };
                    t.push(("kind", J::Str(k)));
                    t.push(("ops", J::Arr(ops)));
                    t.push(("target", bbj(*target)));
                    t.push(("unwind", unw(unwind)));
                }
                other => {
                    t.push(("t", s("other")));
                    t.push(("repr", s(format!("{:?}", other))));
                }
            }
            t.push(("span", self.span(term.source_info.span)));
            blocks.push(J::Obj(vec![
                ("cleanup", J::Bool(data.is_cleanup)),
                ("stmts", J::Arr(stmts)),
                ("term", J::Obj(t)),
            ]));
        }
        o.push(("blocks", J::Arr(blocks)));
        // promoted constants (e.g. `&ObjType::Root` in comparisons): value text
        let mut proms = Vec::new();
        for pb in tcx.promoted_mir(did).iter() {
            let mut parts = Vec::new();
            for data in pb.basic_blocks.iter() {
                for st in data.statements.iter() {
                    if let StatementKind::Assign(b) = &st.kind {
                        let (_, rv) = &**b;
                        match rv {
                            Rvalue::Ref(..) => {}
                            other => parts.push(format!("{:?}", other)),
                        }
                    }
                }
            }
            proms.push(J::Str(parts.join("; ")));
        }
        o.push(("promoted", J::Arr(proms)));
        Some(J::Obj(o))
    }

    fn adts(&self) -> J {
        let tcx = self.tcx;
        let mut out = Vec::new();
        for ldid in tcx.hir_crate_items(()).definitions() {
            let did = ldid.to_def_id();
            if !matches!(tcx.def_kind(did), DefKind::Struct | DefKind::Enum) {
                continue;
            }
            let def = tcx.adt_def(did);
            let mut variants = Vec::new();
            for v in def.variants().iter() {
                let fields: Vec<J> = v
                    .fields
                    .iter()
                    .map(|f| {
                        let fty = tcx.type_of(f.did).instantiate_identity().skip_norm_wip();
                        J::Obj(vec![
                            ("name", s(f.name)),
                            ("ty", self.ty(fty)),
                            ("pub", J::Bool(f.vis.is_public())),
                        ])
                    })
                    .collect();
                variants.push(J::Obj(vec![
                    ("name", s(v.name)),
                    ("fields", J::Arr(fields)),
                ]));
            }
            out.push(J::Obj(vec![
                ("path", J::Str(self.path(did))),
                ("is_enum", J::Bool(def.is_enum())),
                ("is_pub", J::Bool(tcx.visibility(did).is_public())),
                ("variants", J::Arr(variants)),
            ]));
        }
        J::Arr(out)
    }

    fn fns_sigs(&self) -> J {
        // signatures of all fn-like items (incl. trait method declarations)
        let tcx = self.tcx;
        let mut out = Vec::new();
        for ldid in tcx.hir_crate_items(()).definitions() {
            let did = ldid.to_def_id();
            if !matches!(tcx.def_kind(did), DefKind::Fn | DefKind::AssocFn) {
                continue;
            }
            let sig = tcx.fn_sig(did).instantiate_identity().skip_norm_wip().skip_binder();
            out.push(J::Obj(vec![
                ("path", J::Str(self.path(did))),
                ("is_pub", J::Bool(tcx.visibility(did).is_public())),
                (
                    "inputs",
                    J::Arr(sig.inputs().iter().map(|t| self.ty(*t)).collect()),
                ),
                ("output", self.ty(sig.output())),
                ("has_body", J::Bool(tcx.is_mir_available(did))),
            ]));
        }
        J::Arr(out)
    }

    fn consts(&self) -> J {
        // named integer constants of the crate, evaluated
        let tcx = self.tcx;
        let mut out = Vec::new();
        for ldid in tcx.hir_crate_items(()).definitions() {
            let did = ldid.to_def_id();
            if !matches!(tcx.def_kind(did), DefKind::Const { .. }) {
                continue;
            }
            let ty = tcx.type_of(did).instantiate_identity().skip_norm_wip();
            if !matches!(ty.kind(), TyKind::Int(_) | TyKind::Uint(_)) {
                continue;
            }
            if let Ok(v) = tcx.const_eval_poly(did) {
                if let Some(si) = v.try_to_scalar_int() {
                    let bits = si.to_bits(si.size());
                    out.push(J::Obj(vec![
                        ("path", J::Str(self.path(did))),
                        ("ty", s(ty)),
                        ("val", J::Str(format!("{}", bits))),
                    ]));
                }
            }
        }
        J::Arr(out)
    }
}

struct Dump;

impl Callbacks for Dump {
    fn after_analysis<'tcx>(
        &mut self,
        _compiler: &rustc_interface::interface::Compiler,
        tcx: TyCtxt<'tcx>,
    ) -> Compilation {
        let out_dir = match std::env::var("CFBSA_OUT_DIR") {
            Ok(d) => d,
            Err(_) => return Compilation::Continue,
        };
        if std::env::var("CARGO_PRIMARY_PACKAGE").is_err()
            && std::env::var("CFBSA_FORCE").is_err()
        {
            return Compilation::Continue;
        }
        let krate = tcx.crate_name(rustc_hir::def_id::LOCAL_CRATE).to_string();
        // build scripts are not analysed
        if krate.starts_with("build_script") {
            return Compilation::Continue;
        }
        let cx = Cx { tcx };
        let mut bodies = Vec::new();
        for ldid in tcx.mir_keys(()).iter() {
            if let Some(b) = cx.body(*ldid) {
                bodies.push(b);
            }
        }
        let doc = J::Obj(vec![
            ("crate", J::Str(krate.clone())),
            (
                "debug_assertions",
                J::Bool(tcx.sess.opts.debug_assertions),
            ),
            (
                "overflow_checks",
                J::Bool(tcx.sess.overflow_checks()),
            ),
            ("adts", cx.adts()),
            ("sigs", cx.fns_sigs()),
            ("consts", cx.consts()),
            ("bodies", J::Arr(bodies)),
        ]);
        let mut out = String::new();
        doc.write(&mut out);
        let path = format!("{}/{}.json", out_dir, krate);
        let tmp = format!("{}.tmp{}", path, std::process::id());
        std::fs::write(&tmp, out).expect("write facts");
        std::fs::rename(&tmp, &path).expect("rename facts");
        Compilation::Continue
    }
}

fn main() {
    let mut args: Vec<String> = std::env::args().collect();
    // invoked as RUSTC_WORKSPACE_WRAPPER: argv[1] is the real rustc path
    if args.len() > 1 && (args[1].ends_with("rustc") || args[1].contains("/rustc")) {
        args.remove(1);
    }
    rustc_driver::run_compiler(&args, &mut Dump);
}
