"""Error discipline and cache-protocol path rules:
R-ERRDISC (C12, C13), R-DIRTY, R-FLUSHREACH (C13), R-WINDOW (C06, C12), R-FLUSHFIRST (C06)."""
import re

from cg import op_local
from core import Finding, RuleResult, atoms_match, is_io_result_ty, view
from facts import callee_name, fmt_place

STREAM = "internal::stream::Stream"


def _stream_methods(ctx):
    out = []
    for f in ctx.fx.fns.values():
        s = f.d.get("impl_self", {})
        if s.get("adt") == STREAM and f.kind != "closure":
            out.append(f)
    return out


def errdisc(kinds, pid):
    want = set(kinds)

    def run(ctx):
        res = RuleResult("R-ERRDISC(%s)" % pid, "no I/O error from the storage layer is dropped: every fallible call with backend %s effect is propagated (?, returned, or matched with an Err arm that returns Err)" % "/".join(sorted(want)))
        allowed = ctx.table("errdisc").get("allowed_drop", {})
        n_sites = 0
        for f in ctx.fx.fns.values():
            v = view(ctx, f)
            for bb, c in v.calls.items():
                t = c.term
                if t["dest"]["proj"]:
                    continue
                if not is_io_result_ty(f.locals[t["dest"]["local"]]):
                    continue
                eff = ctx.cg.call_effects(c)
                if not (eff & want):
                    # the residual of a `?` inside an inlined helper: the helper's Err, threaded to this function's
                    # local.  It carries whatever backend failure the `?` was applied to.
                    if not (c.name.endswith("FromResidual<std::result::Result<std::convert::Infallible, E>>>::from_residual") and t["dest"]["local"] != 0 and v.disp(bb)["kind"] in ("dropped", "discarded", "unwrap")):
                        continue
                    eff = set(want)
                n_sites += 1
                d = v.disp(bb)
                k = d["kind"]
                sample = {"function": f.path, "callee": c.name, "disposition": k, "line": c.line}
                if k in ("try", "returned"):
                    res.ok(sample, nontrivial=(k == "try"))
                elif k == "matched":
                    # the Err arm must leave the function with an Err (no rejoin with the Ok continuation)
                    pg = v.pg
                    errs = v.err_nodes(bb)
                    oks = set(v.ok_nodes(bb))
                    bad = False
                    reach = pg.reach(errs)
                    rets = [r for r in pg.returns() if r in reach]
                    # an Err arm that reaches a later backend call or falls through to Ok(..) swallows the error
                    sets_err = False
                    for n in reach:
                        if n[0] == "s":
                            st = f.blocks[n[1]]["stmts"][n[2]]
                            if st["s"] == "assign" and st["place"]["local"] == 0 and st["rv"]["r"] == "aggregate" and st["rv"].get("variant") == "Err":
                                sets_err = True
                        if n[0] == "t":
                            tt = f.blocks[n[1]]["term"]
                            if tt["t"] == "call" and (callee_name(tt) or "").endswith("FromResidual<std::result::Result<std::convert::Infallible, E>>>::from_residual"):
                                sets_err = True
                    if not sets_err and any(n in reach for n in v.all_err_nodes()):
                        sets_err = True   # an error exit of an inlined helper (its Err is threaded to the caller's local)
                    if not sets_err:
                        bad = True
                    # ... on every way out: a return reached from the Err arm without passing an error exit
                    # (and without re-issuing the same call, i.e. a retry) hands the caller Ok after a failure
                    if not bad:
                        quiet = pg.reach(errs, set(v.all_err_nodes()) | {("t", bb)})
                        if any(r in quiet for r in pg.returns()):
                            bad = "partial"
                    if bad == "partial":
                        res.fail(Finding(res.rule, "%s/%s/err-arm-can-return-ok/%s" % (res.rule, f.path, c.name),
                                         "one way out of the Err arm of the match on the result of %s reaches a return without reporting the error (and without retrying the call): the failure is turned into an Ok result" % c.name, f, t["span"]))
                    elif bad:
                        res.fail(Finding(res.rule, "%s/%s/err-arm-continues/%s" % (res.rule, f.path, c.name),
                                         "the Err arm of the match on the result of %s does not return the error" % c.name, f, t["span"]))
                    else:
                        res.ok(sample, nontrivial=True)
                elif k in ("dropped", "discarded", "unwrap"):
                    if f.path in allowed and c.name.endswith(allowed[f.path]["callee_suffix"]):
                        res.ok({**sample, "listed_exception": allowed[f.path]["reason"]})
                        continue
                    what = {"dropped": "is dropped unused", "discarded": "is discarded through .%s()" % d.get("detail"), "unwrap": "is unwrapped (panics instead of reporting)"}[k]
                    res.fail(Finding(res.rule, "%s/%s/%s/%s" % (res.rule, f.path, k, c.name),
                                     "the io::Result of %s (backend effects: %s) %s" % (c.name, ",".join(sorted(eff & want)), what), f, t["span"]))
                elif k in ("stored", "passed"):
                    # handed on: not a drop by itself; reported, not failed (alarm policy)
                    res.ok(sample)
                    res.unclassified.append(sample)
                else:
                    res.unclassified.append(sample)
                    res.ok(sample)
        # a closure that returns the io::Result of a backend call, handed to an adaptor that iterates over the
        # Result itself (flat_map, map + flatten): Result's IntoIterator yields the Ok value and nothing for Err, so
        # every failure is dropped and the sequence just gets shorter
        from dataflow import forward_taint as _ft
        for f in ctx.fx.fns.values():
            v = view(ctx, f)
            for bb, c in v.calls.items():
                short = c.name.split("::")[-1]
                if short not in ("flat_map", "map") or "Iterator" not in c.name or not c.closures:
                    continue
                for g_ in c.closures:
                    if not is_io_result_ty(g_.locals[0]):
                        continue
                    eff = set()
                    for c2 in ctx.cg.calls[g_.path]:
                        eff |= ctx.cg.call_effects(c2)
                    if not (eff & want):
                        continue
                    dropped = short == "flat_map"
                    if short == "map" and not c.term["dest"]["proj"]:
                        T = _ft(f, {c.term["dest"]["local"]}, through_calls=True)
                        dropped = any(c3.name.split("::")[-1] == "flatten" and "Iterator" in c3.name and c3.term["args"] and op_local(c3.term["args"][0]) in T for c3 in v.calls.values())
                    if dropped:
                        res.fail(Finding(res.rule, "%s/%s/result-flattened/%s" % (res.rule, f.path, short), "the closure handed to %s() returns the io::Result of a backend call (%s) and the adaptor iterates over that Result: an Err yields no element, so the failure is dropped and everything after it shifts down" % (short if short == "flat_map" else "map().flatten", ",".join(sorted(eff & want))), f, c.term["span"]))
        res.floor("fallible backend call sites", n_sites, ctx.table("floors").get("errdisc_" + pid, 0))
        return res
    return run


def dirty(ctx):
    """R-DIRTY: typestate of Stream.flusher (the dirty marker)."""
    res = RuleResult("R-DIRTY", "the dirty marker is consumed only when the write-back succeeded (or is restored before returning); every Ok(n>0) path of write sets it")
    n_clear = 0
    for f in _stream_methods(ctx):
        v = view(ctx, f)
        pg = v.pg
        # locals that are &mut self.flusher
        refs = {}
        for bb, blk in enumerate(f.blocks):
            for st in blk["stmts"]:
                if st["s"] == "assign" and st["rv"]["r"] == "ref" and st["rv"]["mut"]:
                    fl = [e for e in st["rv"]["place"]["proj"] if e["p"] == "field"]
                    if fl and fl[-1]["name"] == "flusher":
                        refs[st["place"]["local"]] = True
        restore = set()
        for n in v.stores_to_field("flusher", STREAM):
            st = f.blocks[n[1]]["stmts"][n[2]]
            rv = st["rv"]
            from prov import Prov as _Prov
            valp = _Prov(f)._def((n[1], n[2], st), 0, ())
            if (rv["r"] == "aggregate" and rv.get("variant") == "None") or re.match(r"^(Option::)?None(\(\))?$", valp):
                # the marker is thrown away without a write-back (the buffered bytes are declared obsolete): that
                # is only true once whatever makes them obsolete has happened - nothing may fail afterwards
                if f.d["name"] in ("new", "default"):
                    continue
                n_clear += 1
                after = pg.reach_after(n)
                hit = [e for e in v.all_err_nodes() if e in after]
                for bb2, c2 in v.calls.items():
                    t2 = c2.term
                    if ("t", bb2) in after and c2.kind == "call" and not t2["dest"]["proj"] and is_io_result_ty(f.locals[t2["dest"]["local"]]) \
                            and not c2.name.endswith("as std::ops::Try>::branch") and "FromResidual" not in c2.name:
                        hit.append(("t", bb2))
                if hit:
                    res.fail(Finding("R-DIRTY", "R-DIRTY/%s/marker-dropped-before-success" % f.path,
                                     "the dirty marker (Stream.flusher) is set to None without a write-back (line %d) and the method can still fail afterwards: if it does, the buffered bytes are neither in the file nor marked dirty, and the next flush reports Ok without writing them" % st["span"]["line"], f, st["span"]))
                else:
                    res.ok({"function": f.path, "marker_dropped_at_line": st["span"]["line"], "fallible_step_after": False}, nontrivial=True)
                continue
            restore.add(n)
        for bb, c in v.calls.items():
            nm = c.name
            short = nm.split("::")[-1]
            if short not in ("take", "replace") or not c.term["args"]:
                continue
            if op_local(c.term["args"][0]) not in refs:
                continue
            n_clear += 1
            # start: the arm in which a marker was actually taken
            d = c.term["dest"]
            starts = [("t", bb)]
            from cg import _switch_on_discr
            if not d["proj"]:
                m = _switch_on_discr(f, c.term["target"], d["local"]) if c.term["target"] is not None else None
                if m is not None:
                    starts = pg.edge_node(c.term["target"], m.get(1, m["otherwise"]))
            # write-back calls: anything with io_write effect after the clear
            wb_ok = set()
            wb = []
            for b2, c2 in v.calls.items():
                if "io_write" in ctx.cg.call_effects(c2):
                    wb.append(c2)
                    wb_ok.update(v.ok_nodes(b2))
            avoid = wb_ok | restore
            reach = pg.reach(starts, avoid)
            bad = [r for r in pg.returns() if r in reach]
            if bad:
                p = pg.path(starts[0], bad, avoid)
                res.fail(Finding("R-DIRTY", "R-DIRTY/%s/marker-lost-on-exit" % f.path,
                                 "the dirty marker (Stream.flusher) is taken at line %d and a path reaches return without a successful write-back and without restoring it (a failed flush followed by a second flush reports Ok with the bytes unwritten)" % c.line,
                                 f, c.term["span"], path=pg.fmt_path(p) if p else None))
            else:
                res.ok({"function": f.path, "clear_at_line": c.line, "write_back_calls": [x.name for x in wb]}, nontrivial=True)
    # mark_modified on every Ok(n>0) path of Stream::write
    for f in _stream_methods(ctx):
        if f.d.get("impl_trait") != "std::io::Write" or f.d["name"] != "write":
            continue
        v = view(ctx, f)
        pg = v.pg
        wbs = v.call_nodes(lambda c: c.name.endswith("StreamBuffer::write_bytes"))
        marks = set(v.call_nodes(lambda c: c.name.endswith("::mark_modified")))
        zero_exit = set()
        for bb, blk in enumerate(f.blocks):
            t = blk["term"]
            if t["t"] != "switch":
                continue
            dl = op_local(t["discr"])
            for st in blk["stmts"]:
                if st["s"] == "assign" and st["place"]["local"] == dl and st["rv"]["r"] == "binop" and st["rv"]["op"] in ("Gt", "Ne"):
                    b = st["rv"]["b"]
                    if b["k"] == "const" and b.get("val") == 0:
                        for v_, tgt in t["arms"]:
                            if int(v_) == 0:
                                zero_exit.update(pg.edge_node(bb, tgt))
        if not wbs:
            continue
        # the same, read off the guard atoms (an inverted test with an early `return Ok(0)`, a match on the count)
        from prov import guards as _guards
        from rules_sink import _edge_label
        g_ = _guards(ctx, f)
        for b_, blk_ in enumerate(f.blocks):
            if blk_["cleanup"] or blk_["term"]["t"] != "switch":
                continue
            for k_, tgt_ in enumerate(f.succ(b_)):
                val_, vals_ = _edge_label(f, b_, k_)
                if any(re.match(r"^\((Eq|Le)\((.*),const:0\)\)$", a_) or re.match(r"^\((Eq|Ge)\(const:0,(.*)\)\)$", a_) for a_ in g_.describe_all(b_, val_, vals_)):
                    zero_exit.update(pg.edge_node(b_, tgt_))
        # None-payload (nothing buffered) arms are not "bytes accepted"
        reach = pg.reach(wbs, marks | zero_exit | set(v.all_err_nodes()), include_starts=True)
        # a later write_bytes call is a new start, fine; look at returns
        bad = [r for r in pg.returns() if r in reach]
        if bad:
            res.fail(Finding("R-DIRTY", "R-DIRTY/%s/accepted-bytes-not-marked" % f.path,
                             "a path of Stream::write returns after write_bytes accepted bytes without calling mark_modified (bytes would never be written back)", f))
        else:
            res.ok({"function": f.path, "mark_modified_guard": "count > 0"}, nontrivial=True)
    res.floor("dirty-marker clear sites", n_clear, ctx.table("floors").get("dirty_clears", 0))
    return res


def flushreach(ctx):
    """R-FLUSHREACH: a successful flush reaches the backend's flush."""
    res = RuleResult("R-FLUSHREACH", "every Ok path of Stream::flush / CompoundFile::flush and of each link of the flush chain reaches <F as Write>::flush; Stream::flush writes back first")
    chain = ctx.table("flushreach").get("chain", [])
    found = 0
    for suffix in chain:
        f = ctx.fx.fns.get(suffix)
        if f is None:
            res.gone.append(suffix)
            continue
        found += 1
        v = view(ctx, f)
        pg = v.pg
        fl = v.call_nodes(lambda c: "io_flush" in ctx.cg.call_effects(c) and (c.name.endswith("::flush") or "io_flush" in c.events))
        avoid = set(fl) | set(v.all_err_nodes())
        reach = pg.reach([pg.entry()], avoid)
        bad = [r for r in pg.returns() if r in reach]
        if pg.entry() in avoid:
            bad = []
        if bad:
            res.fail(Finding("R-FLUSHREACH", "R-FLUSHREACH/%s/ok-without-backend-flush" % f.path,
                             "%s can return Ok without reaching the backend's flush()" % f.path, f))
        else:
            res.ok({"function": f.path, "flush_calls": [view(ctx, f).calls[n[1]].name for n in fl]}, nontrivial=True)
    # write-back precedes the backend flush in Stream::flush
    for f in _stream_methods(ctx):
        if f.d.get("impl_trait") == "std::io::Write" and f.d["name"] == "flush":
            v = view(ctx, f)
            pg = v.pg
            wb_ok = set()
            for bb, c in v.calls.items():
                if c.name.endswith("Stream::<F>::flush_changes"):
                    wb_ok.update(v.ok_nodes(bb))
            fl = v.call_nodes(lambda c: "io_flush" in ctx.cg.call_effects(c) and not c.name.endswith("Stream::<F>::flush_changes"))
            reach = pg.reach([pg.entry()], wb_ok)
            bad = [n for n in fl if n in reach]
            if bad or not wb_ok:
                res.fail(Finding("R-FLUSHREACH", "R-FLUSHREACH/%s/flush-before-writeback" % f.path,
                                 "Stream::flush reaches the backend flush without a successful write-back of the buffer first", f))
            else:
                res.ok({"function": f.path, "order": "flush_changes()? precedes backend flush"}, nontrivial=True)
    res.floor("flush chain links", found, ctx.table("floors").get("flush_chain", 0))
    return res


def _window_events(ctx, f):
    v = view(ctx, f)
    stores = v.stores_to_field("buf_offset_from_start", STREAM)
    clears = set(v.call_nodes(lambda c: c.name.endswith("StreamBuffer::clear")))
    refill_ok = set()
    refills = []
    for bb, c in v.calls.items():
        if c.name.endswith("StreamBuffer::refill_with"):
            refills.append(("t", bb))
            refill_ok.update(v.ok_nodes(bb))
    return v, stores, clears, refill_ok, refills


def window(ctx):
    """R-WINDOW: after the window offset moves, every exit (also error exits)
    passes a clear or a successful refill."""
    res = RuleResult("R-WINDOW", "after a store to Stream.buf_offset_from_start every path to any return passes StreamBuffer::clear or the ok successor of refill_with")
    n = 0
    for f in _stream_methods(ctx):
        v, stores, clears, refill_ok, _ = _window_events(ctx, f)
        pg = v.pg
        for sn in stores:
            n += 1
            avoid = clears | refill_ok
            reach = pg.reach_after(sn, avoid)
            bad = [r for r in pg.returns() if r in reach]
            line = f.blocks[sn[1]]["stmts"][sn[2]]["span"]["line"]
            if not bad:
                res.ok({"function": f.path, "store_line": line, "closed_by": "clear/refill on all exits"}, nontrivial=True)
                continue
            # one finding per error exit that leaves with the stale window, plus the ok path if any
            exits = []
            for bb in v.calls:
                for e in v.err_nodes(bb):
                    if e in reach and any(r in pg.reach([e], avoid) for r in bad):
                        exits.append((v.calls[bb].name, e))
            err_all = set(v.all_err_nodes())
            okreach = pg.reach_after(sn, avoid | err_all)
            if any(r in okreach for r in bad):
                exits.append(("ok-path", None))
            seen = set()
            for (nm, e) in exits:
                if nm in seen:
                    continue
                seen.add(nm)
                p = pg.path(sn, [e] if e else bad, avoid)
                res.fail(Finding("R-WINDOW", "R-WINDOW/%s/stale-window-on-exit/%s" % (f.path, nm),
                                 "buf_offset_from_start is moved at line %d and %s leaves the function with the buffer neither cleared nor refilled: the old window's bytes would be served at the new offset" % (line, ("the error exit of %s" % nm) if e else "an Ok path"),
                                 f, f.blocks[sn[1]]["stmts"][sn[2]]["span"], path=pg.fmt_path(p) if p else None))
    res.floor("window-offset stores", n, ctx.table("floors").get("window_stores", 0))
    return res


def flushfirst(ctx):
    """R-FLUSHFIRST: write-back before the window moves."""
    res = RuleResult("R-FLUSHFIRST", "every window move (store to buf_offset_from_start, clear, refill_with) in a Stream method is preceded on every path by a successful flush_changes with no buffered write in between")
    n = 0
    for f in _stream_methods(ctx):
        if f.d["name"] in ("new",):
            continue
        v, stores, clears, refill_ok, refills = _window_events(ctx, f)
        pg = v.pg
        moves = list(stores) + list(clears) + list(refills)
        if not moves:
            continue
        fc_ok = set()
        for bb, c in v.calls.items():
            if c.name.endswith("Stream::<F>::flush_changes"):
                fc_ok.update(v.ok_nodes(bb))
        dirtying = v.call_nodes(lambda c: c.name.endswith("::mark_modified"))
        # write_bytes dirties only when it accepted bytes (Some(n>0)); mark_modified is the marker
        for mn in moves:
            n += 1
            reach0 = pg.reach([pg.entry()], fc_ok)
            reach1 = pg.reach(dirtying, fc_ok, include_starts=False) if dirtying else set()
            if mn[0] == "s":
                line = f.blocks[mn[1]]["stmts"][mn[2]]["span"]["line"]
                what = "store to buf_offset_from_start"
            else:
                line = f.blocks[mn[1]]["term"]["span"]["line"]
                what = v.calls[mn[1]].name.split("::")[-1]
            if mn in reach0:
                res.fail(Finding("R-FLUSHFIRST", "R-FLUSHFIRST/%s/window-moves-without-writeback/%s" % (f.path, what),
                                 "%s (line %d) is reachable without a successful flush_changes() before it: dirty bytes would be lost or written at the wrong offset" % (what, line), f,
                                 path=pg.fmt_path(pg.path(pg.entry(), [mn], fc_ok) or [])))
            elif mn in reach1:
                res.fail(Finding("R-FLUSHFIRST", "R-FLUSHFIRST/%s/dirtied-after-writeback/%s" % (f.path, what),
                                 "%s (line %d) can follow mark_modified without a flush_changes() in between" % (what, line), f))
            else:
                res.ok({"function": f.path, "move": what, "line": line}, nontrivial=True)
    res.floor("window moves", n, ctx.table("floors").get("window_moves", 0))
    return res


def posdim(ctx):
    """R-POSDIM: stream positions and buffer-relative offsets are different dimensions.
    Every value stored into Stream.buf_offset_from_start / Stream.total_len must be a stream
    position: built from the old window offset plus a buffer-relative amount, from
    current_position(), or from a validated absolute target - never a bare buffer cursor."""
    import re
    from prov import Prov
    res = RuleResult("R-POSDIM", "a value stored as window offset or stream length is a stream position (old offset + buffer-relative amount, current_position(), or a validated absolute target), never a bare buffer-relative quantity")
    BUFREL = r"StreamBuffer::(cursor|filled_len)\("
    POS = r"param:self\.buf_offset_from_start|Stream::current_position\("
    n = 0
    for f in _stream_methods(ctx):
        v = view(ctx, f)
        pr = Prov(f)
        for field in ("buf_offset_from_start", "total_len"):
            for node in v.stores_to_field(field, STREAM):
                st = f.blocks[node[1]]["stmts"][node[2]]
                val = pr._def((node[1], node[2], st), 0, ())
                vals = [val]
                m = re.match(r"^var:(\w+)$", val)
                if m:
                    # a multiply-defined variable: look at each definition
                    names = {nm: l for l, nm in f.debug_names().items()}
                    l = names.get(m.group(1))
                    if l is not None:
                        vals = [pr._def(d, 1, (l,)) for d in pr.defs.get(l, [])]
                n += 1
                bad = []
                for x in vals:
                    if re.search(BUFREL, x) and not re.search(POS, x):
                        bad.append(x)
                    elif re.match(r"^const:\d+$", x) and x != "const:0":
                        bad.append(x)
                key = "R-POSDIM/%s/%s" % (f.path, field)
                if bad:
                    res.fail(Finding("R-POSDIM", key + "/buffer-relative-value-stored-as-position",
                                     "Stream.%s receives %s: a buffer-relative amount (cursor / filled length) without the window offset it is relative to" % (field, bad[0][:120]), f, st["span"]))
                else:
                    res.ok({"function": f.path, "field": field, "value": [x[:100] for x in vals][:3]}, nontrivial=True)
        if f.d["name"] == "current_position":
            n += 1
            rets = []
            for bb, blk in enumerate(f.blocks):
                for i, st in enumerate(blk["stmts"]):
                    if st["s"] == "assign" and st["place"]["local"] == 0 and not st["place"]["proj"]:
                        rets.append(pr._def((bb, i, st), 0, ()))
            ok = all(re.search(r"param:self\.buf_offset_from_start", r) and re.search(BUFREL, r) and r.startswith("Add(") for r in rets) and rets
            if ok:
                res.ok({"function": f.path, "returns": rets[0][:100]}, nontrivial=True)
            else:
                res.fail(Finding("R-POSDIM", "R-POSDIM/%s/position-formula" % f.path, "current_position() no longer returns window offset + cursor (%s)" % "; ".join(r[:80] for r in rets), f))
    res.floor("position stores", n, ctx.table("floors").get("posdim_sites", 0))
    return res


def poskeep(ctx):
    """R-POSKEEP: the handle's position is window offset + cursor, and clear() zeroes the cursor, so a window
    move keeps the position only if the new offset IS the old position.  Only seek (validated target) and
    set_len (min(position, size)) may set another one; only set_len may make total_len smaller."""
    import re
    from prov import Prov
    from rules_sink import guards
    res = RuleResult("R-POSKEEP", "outside seek/set_len every new window offset is the current position (offset + cursor / current_position()); set_len stores min(position, size); total_len shrinks only in set_len and a shrink re-establishes the window (clear, or a test against the buffered length)")
    tbl = ctx.table("stream")
    POSF = [re.compile(x) for x in tbl.get("position_formula", [])]
    CLAMP = [re.compile(x) for x in tbl.get("set_len_position", [])]
    MONO = [re.compile(x) for x in tbl.get("monotone_length", [])]
    n = 0
    for f in _stream_methods(ctx):
        v = view(ctx, f)
        pr = Prov(f)
        name = f.d["name"]

        def values(node):
            st = f.blocks[node[1]]["stmts"][node[2]]
            val = pr._def((node[1], node[2], st), 0, ())
            m = re.match(r"^var:(\w+)$", val)
            if m:
                names = {nm: l for l, nm in f.debug_names().items()}
                l = names.get(m.group(1))
                if l is not None:
                    return st, [pr._def(d, 1, (l,)) for d in pr.defs.get(l, [])]
            return st, [val]

        for node in v.stores_to_field("buf_offset_from_start", STREAM):
            st, vals = values(node)
            n += 1
            key = "R-POSKEEP/%s/window-offset" % f.path
            if name == "seek":
                res.ok({"function": f.path, "note": "seek sets the validated target (R-NOEFFECT / R-POSDIM decide the target)"})
                continue
            allowed = CLAMP + POSF if name == "set_len" else POSF
            bad = [x for x in vals if not any(rx.search(x) for rx in allowed)]
            if bad:
                res.fail(Finding("R-POSKEEP", key + "/position-not-kept", "the window is restarted at %s, which is not the handle's current position (offset + cursor): the position jumps, later bytes land elsewhere in the stream" % bad[0][:120], f, st["span"]))
            else:
                res.ok({"function": f.path, "new_offset": vals[0][:90]}, nontrivial=True)
        for node in v.stores_to_field("total_len", STREAM):
            st, vals = values(node)
            n += 1
            key = "R-POSKEEP/%s/length" % f.path
            g = guards(ctx, f)
            if name != "set_len":
                atoms = g.atoms_at(node)
                bad = [x for x in vals if not any(rx.search(x) for rx in MONO) and not any(re.match(r"^\((Gt|Ge)\(.*,param:self\.total_len\)\)$", a) for a in atoms)]
                if bad:
                    res.fail(Finding("R-POSKEEP", key + "/length-may-shrink", "%s stores %s as the stream length without max(self.total_len, ..): only set_len may shorten the stream" % (name, bad[0][:120]), f, st["span"]))
                else:
                    res.ok({"function": f.path, "length": vals[0][:90]}, nontrivial=True)
                continue
            # set_len: after the length changed, the buffered window must be re-established on every path out
            clears = set(v.call_nodes(lambda c: c.name.endswith("StreamBuffer::clear")))
            from rules_sink import _edge_label
            guarded = set()
            for b, blk in enumerate(f.blocks):
                if blk["cleanup"] or blk["term"]["t"] != "switch":
                    continue
                for k, tgt in enumerate(f.succ(b)):
                    val, vs = _edge_label(f, b, k)
                    if any("filled_len(" in a for a in g.describe_all(b, val, vs)):
                        guarded.update(v.pg.edge_node(b, tgt))
            after = v.pg.reach_after(node, avoid=clears | guarded)
            rets = [x for x in after if x[0] == "t" and f.blocks[x[1]]["term"]["t"] == "return"]
            if rets:
                res.fail(Finding("R-POSKEEP", key + "/window-kept-across-length-change", "after the length is changed a return is reachable without clearing the buffer or testing the buffered length against the new size: the window may still hold bytes past the new end (read back, or rewritten by the next flush)", f, st["span"]))
            else:
                res.ok({"function": f.path, "length": vals[0][:60], "window": "cleared on every path"}, nontrivial=True)
    res.floor("window/length stores", n, ctx.table("floors").get("poskeep_sites", 0))
    return res


def posatomic(pid):
    """R-POSATOMIC: a Stream method that moves the handle's position (stores a window offset that is not the current
    position) does so as its last fallible step: no error exit is reachable after the move.  Otherwise the call
    reports Err with the position already changed, and the retry on the same handle reads from (or writes at)
    another place - at the end of the stream it reads nothing and reports Ok."""
    import re
    from prov import Prov

    def run(ctx):
        res = RuleResult("R-POSATOMIC(%s)" % pid, "in every Stream method, after a store that moves the position (a window offset other than offset + cursor) no error exit is reachable")
        tbl = ctx.table("stream")
        POSF = [re.compile(x) for x in tbl.get("position_formula", [])]
        n = 0
        for f in _stream_methods(ctx):
            v = view(ctx, f)
            pr = Prov(f)
            errs = set(v.all_err_nodes())
            for node in v.stores_to_field("buf_offset_from_start", STREAM):
                st = f.blocks[node[1]]["stmts"][node[2]]
                val = pr._def((node[1], node[2], st), 0, ())
                vals = [val]
                m = re.match(r"^var:(\w+)$", val)
                if m:
                    names = {nm: l for l, nm in f.debug_names().items()}
                    l = names.get(m.group(1))
                    if l is not None:
                        vals = [pr._def(d, 1, (l,)) for d in pr.defs.get(l, [])]
                if all(any(rx.search(x) for rx in POSF) for x in vals):
                    continue        # the window moves, the position does not
                n += 1
                after = v.pg.reach_after(node)
                hit = [e for e in errs if e in after]
                # a fallible call after the move, whose Result is handed back as it is, is an error exit as well
                for bb, c in v.calls.items():
                    t = c.term
                    if ("t", bb) in after and c.kind == "call" and not t["dest"]["proj"] and f.locals[t["dest"]["local"]]["s"].startswith("std::result::Result<") and "io::Error" in f.locals[t["dest"]["local"]]["s"] \
                            and not c.name.endswith("as std::ops::Try>::branch") and "FromResidual" not in c.name:
                        hit.append(("t", bb))
                key = "R-POSATOMIC/%s" % f.path
                if hit:
                    res.fail(Finding(res.rule, key + "/error-after-position-move", "%s moves the handle's position (window offset := %s, line %d) and can still fail afterwards: the caller gets Err with the position already changed, so a retry on the same handle continues elsewhere (at the end of the stream: reads nothing, reports Ok)" % (f.d["name"], vals[0][:80], st["span"]["line"]), f, st["span"]))
                else:
                    res.ok({"function": f.path, "moves_position_to": vals[0][:80], "line": st["span"]["line"], "error_exit_after": False}, nontrivial=True)
        res.floor("position moves in Stream methods", n, ctx.table("floors").get("posatomic_sites", 0))
        return res
    return run


def buffull(pid):
    """R-BUFFULL: Stream::write answers a refusal of the window buffer (write_bytes -> None) by writing the window
    back, starting an empty one and asking again; what the second request returns is the call's result.  That is
    only a positive count if the buffer refuses when it has NO room at all (cursor at the end and no growth left) -
    a buffer that refuses whenever the input does not fit entirely refuses the same input again when empty, and the
    write reports Ok(0) for a non-empty slice (write_all: WriteZero, nothing written)."""
    from prov import guards as _guards

    def run(ctx):
        res = RuleResult("R-BUFFULL(%s)" % pid, "StreamBuffer::write_bytes returns None only on a path that established cursor >= buffer length (no room at all)")
        f = ctx.fx.fns.get("internal::stream_buffer::StreamBuffer::write_bytes")
        if f is None:
            res.gone.append("StreamBuffer::write_bytes")
            return res
        g = _guards(ctx, f)
        n = 0
        for bb, blk in enumerate(f.blocks):
            if blk["cleanup"]:
                continue
            for i, st in enumerate(blk["stmts"]):
                if st["s"] == "assign" and st["place"]["local"] == 0 and not st["place"]["proj"] and st["rv"]["r"] == "aggregate" and st["rv"].get("variant") == "None":
                    n += 1
                    atoms = g.atoms_at(("s", bb, i))
                    if atoms_match(r"^\((Ge|Eq)\(param:self\.pos,len\(param:self\.data\)\)\)$", atoms):
                        res.ok({"function": f.path, "line": st["span"]["line"], "refuses_only_when": "pos >= data.len()"}, nontrivial=True)
                    else:
                        res.fail(Finding(res.rule, "R-BUFFULL/%s/refuses-with-room-left" % f.path, "write_bytes can return None although the buffer still has room (conditions on the path: %s): Stream::write then flushes, empties the window and asks again - an input that does not fit an empty window is refused again and the write returns Ok(0) for a non-empty slice" % ("; ".join(a[:70] for a in atoms[:4]) or "none"), f, st["span"]))
        res.floor("refusals of the window buffer", n, ctx.table("floors").get("buffull_sites", 0))
        return res
    return run


def writeat(pid):
    """R-WRITEAT: write_data_to_stream puts the flushed window `buf` at offset `buf_offset_from_start` of the stream,
    whichever chain the stream lives in afterwards.  Every write_all(chain, buf) there is positioned at that offset:
    by a seek to it on the same chain, by having first written exactly `buf_offset_from_start` carried-over bytes
    into a fresh chain (the migration out of the mini stream), or - for a stream that was found empty - trivially.
    How large a window is flushed at once depends on the handle's buffer size, so a migration that carries over a
    different number of bytes gives different stream contents for different buffer sizes."""
    from prov import Prov
    from prov import guards as _guards
    from rules_follow import _root_local

    def run(ctx):
        res = RuleResult("R-WRITEAT(%s)" % pid, "every write_all of the flushed window in write_data_to_stream happens at offset buf_offset_from_start of the target chain (seek to it, or exactly that many carried-over bytes written first into a fresh chain, or the stream was empty)")
        f = ctx.fx.fns.get("internal::stream::write_data_to_stream")
        if f is None:
            res.gone.append("write_data_to_stream")
            return res
        v = view(ctx, f)
        pr = Prov(f)
        g = _guards(ctx, f)
        pg = v.pg
        n = 0
        names = {nm: l for l, nm in f.debug_names().items()}

        def vec_len(x):
            m = re.match(r"^var:(\w+)$", x)
            if m and m.group(1) in names:
                ds = [pr._def(d, 1, (names[m.group(1)],)) for d in pr.defs.get(names[m.group(1)], [])]
                if len(ds) == 1:
                    x = ds[0]
            m = re.match(r"^vec::from_elem\(const:0,(?:cast\()?(.*?)\)?\)$", x)
            return m.group(1) if m else None
        for bb, c in sorted(v.calls.items()):
            if not c.name.endswith("Write::write_all") or len(c.term["args"]) < 2 or pr.operand(c.term["args"][1]) != "param:buf":
                continue
            n += 1
            recv = pr.operand(c.term["args"][0])
            r0 = _root_local(pr, c.term["args"][0])
            good = set()
            for bb2, c2 in v.calls.items():
                if bb2 == bb or not c2.term["args"] or pr.operand(c2.term["args"][0]) != recv:
                    continue
                if c2.name.endswith("Seek>::seek") and len(c2.term["args"]) > 1 and pr.operand(c2.term["args"][1]) == "SeekFrom::Start(param:buf_offset_from_start)":
                    good.update(v.ok_nodes(bb2) or [("t", bb2)])
                if c2.name.endswith("Write::write_all") and len(c2.term["args"]) > 1 and "const:END_OF_CHAIN" in recv and vec_len(pr.operand(c2.term["args"][1])) == "param:buf_offset_from_start":
                    good.update(v.ok_nodes(bb2) or [("t", bb2)])
            key = "R-WRITEAT/%s" % f.path
            if good and ("t", bb) not in pg.reach([pg.entry()], good):
                res.ok({"function": f.path, "line": c.line, "positioned_by": "seek to / carry-over of buf_offset_from_start"}, nontrivial=True)
                continue
            atoms = g.atoms_at(("t", bb))
            if "const:END_OF_CHAIN" in recv and any(re.match(r"^\(Eq\(.*\.stream_len,const:0\)\)$", a) for a in atoms) and not any(
                    c2.name.endswith("Write::write_all") and bb2 != bb and c2.term["args"] and pr.operand(c2.term["args"][0]) == recv and ("t", bb) in pg.reach_after(("t", bb2)) for bb2, c2 in v.calls.items()):
                res.ok({"function": f.path, "line": c.line, "positioned_by": "fresh chain for a stream found empty"}, nontrivial=True)
                continue
            res.fail(Finding(res.rule, key + "/window-not-written-at-its-offset", "write_all(buf) at line %d is not positioned at buf_offset_from_start: no seek to that offset and no carry-over of exactly that many bytes dominates it on this chain; the flushed window lands at another offset whenever it does not start at the old end of the stream - which depends on how much the handle buffers, i.e. on max_buffer_size" % c.line, f, c.term["span"]))
        res.floor("writes of the flushed window", n, ctx.table("floors").get("writeat_sites", 0))
        return res
    return run


def dirtyrange(pid):
    """R-DIRTYRANGE: what a handle writes back is its whole buffered window - or, if the write-back is narrowed to
    "from the first modified byte", that lower bound is maintained as a MINIMUM over all writes since the last
    write-back.  A bound recorded only when the buffer turns from clean to dirty is wrong as soon as a later write
    lands in front of it (write, seek back inside the window, write): those bytes are never written back."""
    def run(ctx):
        from prov import Prov, guards as _guards
        res = RuleResult("R-DIRTYRANGE(%s)" % pid, "the write-back of a stream handle covers the whole window from buf_offset_from_start, or starts at a bound that is updated from its own previous value (a running minimum)")
        n = 0
        for f in ctx.fx.fns.values():
            if not (f.d.get("impl_trait", "") or "").endswith("Flusher<F>") and "Flusher<F>>::flush_changes" not in f.path:
                continue
            v = view(ctx, f)
            pr = Prov(f)
            for c in v.calls.values():
                if not c.name.endswith("write_data_to_stream") or len(c.term["args"]) < 4:
                    continue
                n += 1
                off, buf = pr.operand(c.term["args"][2]), pr.operand(c.term["args"][3])
                if re.match(r"^param:\w+\.buf_offset_from_start$", off) and re.match(r"^StreamBuffer::filled_slice\(param:\w+\.buffer\)$", buf):
                    res.ok({"function": f.path, "writes_back": "the whole filled window from the window offset"}, nontrivial=True)
                    continue
                fields = set(re.findall(r"param:\w+(?:\.buffer)?\.(\w+)", off + " " + buf)) - {"buf_offset_from_start", "buffer", "data", "cap", "pos", "stream_id", "total_len"}
                if not fields:
                    res.fail(Finding(res.rule, "R-DIRTYRANGE/%s/unrecognised-narrowing" % f.path, "the write-back passes offset %s and bytes %s: neither the whole window nor a window narrowed by a recorded bound" % (off[:80], buf[:80]), f, c.term["span"]))
                    continue
                for fld in sorted(fields):
                    stores = []
                    for f2 in ctx.fx.fns.values():
                        if "internal::stream" not in f2.path:
                            continue
                        pr2 = None
                        for bb, blk in enumerate(f2.blocks):
                            if blk["cleanup"]:
                                continue
                            for i, st in enumerate(blk["stmts"]):
                                if st["s"] != "assign":
                                    continue
                                fl = [e for e in st["place"]["proj"] if e["p"] == "field"]
                                if fl and fl[-1]["name"] == fld:
                                    pr2 = pr2 or Prov(f2)
                                    val = pr2._def((bb, i, st), 0, ())
                                    atoms = _guards(ctx, f2).atoms_at(("s", bb, i))
                                    stores.append((f2, st, val, atoms))
                    running = False
                    for (f2, st, val, atoms) in stores:
                        if re.search(r"\.%s\b" % re.escape(fld), val):
                            running = True          # the new bound is computed from the old one
                        for a in atoms:
                            if re.match(r"^\((Lt|Le|Gt|Ge)\(", a) and re.search(r"\.%s\b" % re.escape(fld), a):
                                running = True      # stored only when the new position is in front of the old bound
                    if running:
                        res.ok({"function": f.path, "narrowed_by": fld, "stores": len(stores), "bound_is_a_running_minimum": True}, nontrivial=True)
                    else:
                        res.fail(Finding(res.rule, "R-DIRTYRANGE/%s/%s-not-a-minimum" % (f.path, fld), "the write-back starts at the recorded bound `%s`, but none of the %d stores to it takes its previous value into account (no minimum, no comparison with it): a write that lands in front of an earlier one in the same window is never written back" % (fld, len(stores)), f, c.term["span"]))
        res.floor("write-back calls", n, ctx.table("floors").get("dirtyrange_sites", 0))
        return res
    return run


def _err_arm_verdict(f, v, bb):
    """For a matched Result: False when the Err arm leaves with an error on every way out, "continues" when it never
    reports one, "partial" when one way out reaches a return without reporting."""
    pg = v.pg
    errs = v.err_nodes(bb)
    reach = pg.reach(errs)
    sets_err = False
    for n in reach:
        if n[0] == "s":
            st = f.blocks[n[1]]["stmts"][n[2]]
            if st["s"] == "assign" and st["place"]["local"] == 0 and st["rv"]["r"] == "aggregate" and st["rv"].get("variant") == "Err":
                sets_err = True
        if n[0] == "t":
            tt = f.blocks[n[1]]["term"]
            if tt["t"] == "call" and (callee_name(tt) or "").endswith("FromResidual<std::result::Result<std::convert::Infallible, E>>>::from_residual"):
                sets_err = True
    if not sets_err and any(n in reach for n in v.all_err_nodes()):
        sets_err = True
    if not sets_err:
        return "continues"
    quiet = pg.reach(errs, set(v.all_err_nodes()) | {("t", bb)})
    if any(r in quiet for r in pg.returns()):
        return "partial"
    return False


def refusalkept(pid):
    """R-REFUSALKEPT: a refusal made by a callee reaches the caller of the API.  Every call of a crate function that
    returns io::Result and has no backend effect (so R-ERRDISC does not look at it: the lookups, the path normaliser,
    the name validation, walk_storage / read_storage) has its result propagated, returned or matched; a result that
    is dropped, unwrapped or put through `.ok()`, `.unwrap_or_default()`, `.is_ok()` and the like turns `InvalidInput`
    for an escaping path or `NotFound` for a missing one into an Ok answer."""
    def run(ctx):
        res = RuleResult("R-REFUSALKEPT(%s)" % pid, "no io::Result of an effect-free crate function (a refusal: NotFound / InvalidInput / AlreadyExists) is dropped, unwrapped or discarded through ok / unwrap_or* / is_ok / is_err")
        allowed = ctx.table("errdisc").get("allowed_refusal_drop", {})
        n = 0
        for f in ctx.fx.fns.values():
            if f.d.get("is_test") or "::tests::" in f.path:
                continue
            if not is_io_result_ty(f.locals[0]):
                continue        # a predicate (exists, is_stream, is_storage) has no way to report a refusal but `false`
            v = view(ctx, f)
            for bb, c in v.calls.items():
                t = c.term
                if t["dest"]["proj"] or not c.targets:
                    continue
                if not is_io_result_ty(f.locals[t["dest"]["local"]]):
                    continue
                eff = ctx.cg.call_effects(c)
                if eff & {"io_read", "io_write", "io_seek", "io_flush"}:
                    continue
                n += 1
                d = v.disp(bb)
                k = d["kind"]
                sample = {"function": f.path, "callee": c.name, "disposition": k, "line": c.line}
                if k in ("dropped", "discarded", "unwrap"):
                    a = allowed.get(f.path)
                    if a and c.name.endswith(a["callee_suffix"]):
                        res.ok({**sample, "listed_exception": a["reason"]})
                        continue
                    what = {"dropped": "is dropped unused", "discarded": "is discarded through .%s()" % d.get("detail"), "unwrap": "is unwrapped (panics instead of reporting)"}[k]
                    res.fail(Finding(res.rule, "%s/%s/%s/%s" % (res.rule, f.path, k, c.name), "the io::Result of %s %s: a refusal made there (InvalidInput for an invalid or escaping path, NotFound for a missing one) never reaches the caller" % (c.name, what), f, t["span"]))
                elif k == "matched" and _err_arm_verdict(f, v, bb):
                    res.fail(Finding(res.rule, "%s/%s/err-arm-returns-ok/%s" % (res.rule, f.path, c.name), "the Err outcome of %s is matched (or mapped) and the function then goes on to an Ok result: a refusal made there (InvalidInput for an invalid or escaping path, NotFound for a missing one) never reaches the caller" % c.name, f, t["span"]))
                else:
                    res.ok(sample, nontrivial=(k in ("try", "matched")))
                    if k not in ("try", "returned", "matched"):
                        res.unclassified.append(sample)
        res.floor("effect-free fallible call sites", n, ctx.table("floors").get("refusalkept_sites", 0))
        return res
    return run
