"""R-MODE (C16): validation-mode monotonicity.
S: the strict-only side of every mode test only refuses (InvalidData), stores nothing.
P: permissive-only code is confined to listed normalisers that only shrink a listed vector.
Deviation inventory: each documented deviation has a strict-gated refusal that permissive mode does not take."""
import re

from cg import VEC_MUTATORS, op_local, peel
from core import Finding, RuleResult, atoms_match, view, wild
from prov import Prov, guards
from rules_api import refusals

IS_STRICT = "Validation::is_strict"


def _mode_switches(ctx, f):
    """(switch bb, strict edge nodes, permissive edge nodes) for every switch on is_strict() or !is_strict()."""
    pr = Prov(f)
    pg = ctx.pg(f)
    out = []
    for bb, blk in enumerate(f.blocks):
        if blk["cleanup"] or blk["term"]["t"] != "switch":
            continue
        t = blk["term"]
        cond = pr.term_operand(t["discr"], bb)
        neg = False
        m = cond
        if m.startswith("Not(") and m.endswith(")"):
            neg = True
            m = m[4:-1]
        if not m.startswith(IS_STRICT + "("):
            continue
        arms = {int(v): b for v, b in t["arms"]}
        false_t = arms.get(0, t["otherwise"])
        true_t = t["otherwise"] if 0 in arms else None
        if true_t is None:
            continue
        strict_t, perm_t = (false_t, true_t) if neg else (true_t, false_t)
        out.append((bb, pg.edge_node(bb, strict_t), pg.edge_node(bb, perm_t)))
    return out


def _dominated(pg, edges):
    allr = pg.reach([pg.entry()])
    return allr - pg.reach([pg.entry()], avoid=set(edges)) - set(edges)


def _effects_in(ctx, f, region):
    """Effectful things inside a node region: (description, node, is_shrink_of)"""
    v = view(ctx, f)
    pr = Prov(f)
    out = []
    for n in region:
        if n[0] == "t":
            c = v.calls.get(n[1])
            if c is None:
                continue
            short = c.name.split("::")[-1]
            eff = ctx.cg.call_effects(c)
            if ("Vec" in c.name or "vec::" in c.name) and short in VEC_MUTATORS and c.term["args"]:
                out.append(("%s on %s" % (short, pr.operand(c.term["args"][0])), n, (short, pr.operand(c.term["args"][0]))))
            elif eff & {"mutates_state", "state_store", "io_write", "io_read", "io_seek"}:
                out.append(("call %s" % c.name, n, None))
        elif n[0] == "s":
            st = f.blocks[n[1]]["stmts"][n[2]]
            if st["s"] == "assign" and any(e["p"] == "deref" for e in st["place"]["proj"]) and not st["span"]["macros"]:
                out.append(("store through a reference (line %d)" % st["span"]["line"], n, None))
            elif st["s"] == "assign" and not st["place"]["proj"] and st["place"]["local"] in f.debug_names() and st["place"]["local"] != 0 and not st["span"]["macros"] \
                    and st["place"]["local"] not in f.inlined_locals():
                out.append(("assignment to variable %s (line %d)" % (f.debug_names()[st["place"]["local"]], st["span"]["line"]), n, None))
    return out


def _cmp_datum(atom):
    """'(Op(X,Y))' or '!(Op(X,Y))' -> (Op, X, Y) with negation folded into Op."""
    from prov import _split_top
    neg = atom.startswith("!")
    a = atom[1:] if neg else atom
    m = re.match(r"^\((Eq|Ne|Gt|Lt|Ge|Le)\((.*)\)\)$", a)
    if not m:
        return None
    parts = _split_top(m.group(2))
    if len(parts) != 2:
        return None
    op = m.group(1)
    if neg:
        op = {"Eq": "Ne", "Ne": "Eq", "Gt": "Le", "Le": "Gt", "Lt": "Ge", "Ge": "Lt"}[op]
    return (op, parts[0].strip(), parts[1].strip())


def _constval(ctx, x):
    m = re.match(r"^const:(\d+)$", x)
    if m:
        return int(m.group(1))
    m = re.match(r"^const:(?:\w+::)*(\w+)$", x)
    if m:
        for cp, cv in ctx.fx.consts.items():
            if cp.split("::")[-1] == m.group(1) and isinstance(cv, int):
                return cv
    return None


def _holds(op, v, k):
    return {"Eq": v == k, "Ne": v != k, "Gt": v > k, "Lt": v < k, "Ge": v >= k, "Le": v <= k}[op]


def _overlaps(ctx, preds):
    """can one value satisfy every (op, const) predicate of the list (the deviation's own test plus every comparison
    of the same datum on the path to the other refusal)?  Decided for constants; an unknown operand decides nothing
    (no report)."""
    ks = []
    for (o, c) in preds:
        k = _constval(ctx, c)
        if k is None:
            return False
        ks.append((o, k))
    cand = {0, 0xFFFFFFFF}
    for (_, k) in ks:
        cand |= {k - 1, k, k + 1}
    return any(0 <= v <= 0xFFFFFFFF and all(_holds(o, v, k) for (o, k) in ks) for v in cand)


def run(ctx):
    res = RuleResult("R-MODE", "strict acceptance implies permissive acceptance with the same meaning: strict-only code only refuses; permissive-only code is a listed normaliser; every documented deviation is refused under is_strict() only")
    tbl = ctx.table("mode")
    normalisers = tbl.get("normalisers", {})
    n_sites = 0
    for f in ctx.fx.fns.values():
        if not any(c.kind == "call" and c.name.endswith(IS_STRICT) for c in ctx.cg.calls[f.path]):
            continue
        n_sites += sum(1 for c in ctx.cg.calls[f.path] if c.kind == "call" and c.name.endswith(IS_STRICT))
        pg = ctx.pg(f)
        v = view(ctx, f)
        for (bb, strict_e, perm_e) in _mode_switches(ctx, f):
            line = f.blocks[bb]["term"]["span"]["line"]
            # S: strict-only region
            sreg = _dominated(pg, strict_e)
            effs = _effects_in(ctx, f, sreg)
            key = "R-MODE/%s" % f.path
            bad_kinds = []
            for (c, kind) in refusals(ctx, f):
                if ("t", c.bb) in sreg and kind != "InvalidData":
                    bad_kinds.append(kind)
            ok_ret = False
            for n in sreg:
                if n[0] == "s":
                    st = f.blocks[n[1]]["stmts"][n[2]]
                    if st["s"] == "assign" and st["place"]["local"] == 0 and st["rv"]["r"] == "aggregate" and st["rv"].get("variant") == "Ok":
                        ok_ret = True
            if effs or bad_kinds or ok_ret:
                what = [e[0] for e in effs] + ["refusal of kind %s" % k for k in bad_kinds] + (["an Ok return"] if ok_ret else [])
                res.fail(Finding("R-MODE.S", key + "/strict-only-side-not-refusal-only", "code reachable only when is_strict() holds (test at line %d) does more than refuse: %s; a file strict accepts could then mean something else than under permissive" % (line, "; ".join(what[:3])), f, f.blocks[bb]["term"]["span"]))
            else:
                res.ok({"function": f.path, "mode_test_line": line, "strict_only_nodes": len(sreg), "class": "S (refusal only)"}, nontrivial=True)
            # P: permissive-only region
            preg = _dominated(pg, perm_e)
            peffs = _effects_in(ctx, f, preg)
            prefs = [(c, k) for (c, k) in refusals(ctx, f) if ("t", c.bb) in preg]
            if not peffs and not prefs:
                continue
            allowed = normalisers.get(f.path, [])
            problems = []
            nclass = []
            for (desc, node, shrink) in peffs:
                if shrink and shrink[0] in ("pop", "truncate"):
                    rows_ = [r for r in allowed if re.search(r["vector"], shrink[1]) or re.search(r["vector"], wild(shrink[1]))]
                    if rows_:
                        at_ = guards(ctx, f).atoms_at(node)
                        if any(atoms_match(r_["noop_guard"], at_) for r_ in rows_):
                            continue
                        problems.append("%s is no longer confined by the condition that makes it a no-op on strict-accepted input (%s)" % (desc, rows_[0]["why"]))
                        continue
                if desc.startswith("assignment to variable"):
                    # a boolean constant stored in a local is a flag being built (`let check = strict && v4;`
                    # lowers to `check = false` on the permissive side), not a change of what the file means
                    if node[0] == "s":
                        st_ = f.blocks[node[1]]["stmts"][node[2]]
                        if st_["s"] == "assign" and not st_["place"]["proj"] and f.locals[st_["place"]["local"]]["s"] == "bool" and st_["rv"]["r"] == "use" and st_["rv"]["op"]["k"] == "const":
                            continue
                    # class N: canonicalising assignment after a strict refusal, inside a deviation test
                    g_ = guards(ctx, f)
                    at_ = g_.atoms_at(("t", bb))
                    devs = [r for r in tbl.get("deviations", []) if r["function"] == f.path and all(atoms_match(rx, at_) for rx in r["test"])]
                    if devs:
                        nclass.append(devs[0]["id"])
                        continue
                    problems.append(desc + " outside any documented deviation test")
                    continue
                problems.append(desc)
            for (c, k) in prefs:
                problems.append("a refusal (%s, line %d) that strict mode does not make" % (k, c.line))
            if problems:
                res.fail(Finding("R-MODE.P", key + "/permissive-only-code-not-a-listed-normaliser", "code reachable only when is_strict() is false (test at line %d) is not a listed normaliser: %s" % (line, "; ".join(problems[:3])), f, f.blocks[bb]["term"]["span"]))
            else:
                res.ok({"function": f.path, "mode_test_line": line, "class": ("N (canonicalising assignment inside deviation test '%s')" % nclass[0]) if nclass else ("P (listed normaliser: only shrinks %s under its no-op guard)" % ", ".join(r["vector"] for r in allowed))}, nontrivial=True)
    res.floor("is_strict call sites", n_sites, ctx.table("floors").get("mode_sites", 0))
    # deviation inventory
    located = 0
    for row in tbl.get("deviations", []):
        f = ctx.fx.fns.get(row["function"])
        key = "R-MODE/deviation/%s" % row["id"]
        if f is None:
            res.fail(Finding("R-MODE.D", key + "/function-gone", "deviation '%s': function %s no longer exists" % (row["id"], row["function"])), nontrivial=False)
            continue
        g = guards(ctx, f)
        found = []
        for (c, kind) in refusals(ctx, f):
            atoms = g.atoms_at(("t", c.bb))
            if all(atoms_match(rx, atoms) for rx in row["test"]):
                found.append((c, kind, atoms))
        if not found:
            res.fail(Finding("R-MODE.D", key + "/not-rejected", "documented deviation '%s' is no longer refused anywhere in %s: strict open would accept it" % (row["id"], row["function"].split("::")[-1]), f))
            continue
        located += 1
        # the deviation is refused for exactly the values the documentation names: a weaker relation (`<` where the
        # check was `!=`) lets part of the deviation through strict validation
        if row.get("op"):
            seen_ops = set()
            for (c, kind, atoms) in found:
                for a in atoms:
                    if re.search(row["test"][0], a) or re.search(row["test"][0], wild(a)):
                        m_ = re.match(r"^\((Eq|Ne|Gt|Ge|Lt|Le)\(", a)
                        if m_:
                            seen_ops.add(m_.group(1))
            mirror = {"Gt": "Lt", "Lt": "Gt", "Ge": "Le", "Le": "Ge", "Eq": "Eq", "Ne": "Ne"}
            if seen_ops and not any(o in row["op"] or mirror[o] in row["op"] for o in seen_ops):
                c0 = found[0][0]
                res.fail(Finding("R-MODE.D", key + "/relation-weakened", "deviation '%s' used to be refused where the values are related by %s; the test now reads %s (line %d): part of the deviation is accepted by strict open" % (row["id"], "/".join(row["op"]), "/".join(sorted(seen_ops)), c0.line), f, c0.term["span"]))
                continue
        for (c, kind, atoms) in found:
            gated = any(re.search(r"^\(Validation::is_strict\(", a) for a in atoms)
            if row.get("unconditional"):
                res.ok({"deviation": row["id"], "refusal_line": c.line, "class": "rejected unconditionally; permissive pre-empts it with normaliser " + row.get("normaliser", "")})
            elif gated and kind == "InvalidData":
                res.ok({"deviation": row["id"], "function": f.path, "refusal_line": c.line, "class": "S: refused only under is_strict()"}, nontrivial=True)
            elif not gated:
                res.fail(Finding("R-MODE.D", key + "/rejected-in-permissive-mode", "documented deviation '%s' is refused without an is_strict() test on the path (line %d): permissive open would reject a file it documents as tolerated" % (row["id"], c.line), f, c.term["span"]))
            else:
                res.fail(Finding("R-MODE.D", key + "/wrong-kind", "deviation '%s' is refused with kind %s" % (row["id"], kind), f, c.term["span"]))
    res.floor("deviations located", located, ctx.table("floors").get("mode_deviations", 0))
    # R-MODE.X: nothing else refuses, without asking the mode, on account of the datum a tolerated deviation is about
    nx = 0
    for row in tbl.get("deviations", []):
        f = ctx.fx.fns.get(row["function"])
        if f is None or row.get("unconditional"):
            continue
        g = guards(ctx, f)
        refs = refusals(ctx, f)
        own = []
        data = []
        for (c, kind) in refs:
            atoms = g.atoms_at(("t", c.bb))
            if all(atoms_match(rx, atoms) for rx in row["test"]):
                own.append(c.bb)
                for a in atoms:
                    if re.search(row["test"][0], a) or re.search(row["test"][0], wild(a)):
                        d = _cmp_datum(a)
                        # a value read straight from the stream: its descriptor does not identify one datum
                        if d and d not in data and not re.search(r"param:reader|ReadLeNumber::|read_exact", d[1]):
                            data.append(d)
        if not data:
            continue
        nx += 1
        clash = None
        for (dop, dx, dc) in data:
            for (c, kind) in refs:
                if c.bb in own:
                    continue
                atoms = g.atoms_at(("t", c.bb))
                if any(re.search(r"^\(Validation::is_strict\(", a) for a in atoms):
                    continue
                on_x = [(a, d) for a, d in ((a, _cmp_datum(a)) for a in atoms) if d and d[1] == dx]
                if on_x and _overlaps(ctx, [(dop, dc)] + [(d[0], d[2]) for _, d in on_x]):
                    clash = (c, " and ".join(a for a, _ in on_x))
                    break
            if clash:
                break
        if clash:
            res.fail(Finding("R-MODE.X", "R-MODE/deviation/%s/refused-on-another-path" % row["id"], "documented deviation '%s' is tolerated in permissive mode where %s, yet the refusal at line %d tests the same datum (%s) without asking the mode: some files with this deviation are now rejected by a permissive open" % (row["id"], "%s(%s, %s)" % (dop, dx[:50], dc[:30]), clash[0].line, clash[1][:90]), f, clash[0].term["span"]))
        else:
            res.ok({"deviation": row["id"], "datum": [d[1][:80] for d in data], "other_refusals_on_datum": 0, "class": "X: only the strict refusal tests this datum"}, nontrivial=True)
    res.floor("deviation data checked for other refusals", nx, ctx.table("floors").get("mode_x", 0))
    # data that a tolerated deviation discards: nothing may refuse the file on their account first
    nign = 0
    for row in tbl.get("ignored_data", []):
        f = ctx.fx.fns.get(row["function"])
        if f is None:
            res.gone.append(row["id"])
            continue
        v = view(ctx, f)
        pr = Prov(f)
        g = guards(ctx, f)
        for bb, c in sorted(v.calls.items()):
            t = c.term
            if t["dest"]["proj"] or not f.locals[t["dest"]["local"]]["s"].startswith("std::result::Result<"):
                continue
            if c.name.endswith("as std::ops::Try>::branch") or "FromResidual" in c.name:
                continue
            if row.get("callee") and not re.search(row["callee"], c.name):
                continue
            if not any(re.search(row["datum"], pr.operand(a)) for a in t["args"]):
                continue
            if v.disp(bb)["kind"] not in ("try", "returned", "matched"):
                continue
            nign += 1
            atoms = g.atoms_at(("t", bb))
            if any(atoms_match(rx, atoms) for rx in row["unless"]):
                res.ok({"ignored_datum": row["id"], "function": f.path, "check": c.name.split("::")[-1], "line": c.line, "guard": [a for a in atoms if any(atoms_match(rx, [a]) for rx in row["unless"])][:1]}, nontrivial=True)
            else:
                res.fail(Finding("R-MODE.I", "R-MODE/ignored-datum/%s/%s" % (row["id"], c.name.split("::")[-1]), "%s: %s (line %d) can refuse the file on account of it with none of the excluding conditions on the path (%s)" % (row["why"], c.name.split("::")[-1], c.line, "; ".join(a[:60] for a in atoms[:4]) or "no conditions"), f, t["span"]))
    res.floor("checks on discarded data", nign, ctx.table("floors").get("mode_ignored", 0))
    # a normaliser that discards surplus data must run before anything refuses the file on account of that data
    nd = 0
    for fpath, rows in normalisers.items():
        f = ctx.fx.fns.get(fpath)
        if f is None:
            continue
        for row in rows:
            if not row.get("discard_before_checks"):
                continue
            v = view(ctx, f)
            pr = Prov(f)
            g = guards(ctx, f)
            pg = v.pg
            shrink = [c for c in v.calls.values() if c.name.split("::")[-1] in ("truncate", "pop") and c.term["args"] and re.search(row["vector"], pr.operand(c.term["args"][0]))]
            if not shrink:
                res.gone.append(fpath + ":normaliser")
                continue
            vec = pr.operand(shrink[0].term["args"][0])
            guard_true = []
            for bb, blk in enumerate(f.blocks):
                if blk["cleanup"] or blk["term"]["t"] != "switch":
                    continue
                t = blk["term"]
                vals = [str(x) for x, _ in t["arms"]] + ["otherwise"]
                tg = [b for _, b in t["arms"]] + [t["otherwise"]]
                for val, tgt in zip(vals, tg):
                    if atoms_match(row["noop_guard"], g.describe_all(bb, val, vals)):
                        guard_true += pg.edge_node(bb, tgt)
            strict_edges = set()
            for (_bb, strict_e, _perm_e) in _mode_switches(ctx, f):
                strict_edges.update(strict_e)
            avoid = {("t", c.bb) for c in shrink} | strict_edges
            reach = pg.reach(guard_true, avoid) if guard_true else set()
            for (c, kind) in refusals(ctx, f):
                atoms = g.atoms_at(("t", c.bb))
                if not any(vec in a for a in atoms):
                    continue
                nd += 1
                if ("t", c.bb) in reach:
                    res.fail(Finding("R-MODE.N", "R-MODE/%s/refusal-before-normaliser" % fpath, "under permissive validation the surplus part of %s is discarded (%s), yet the refusal at line %d, which depends on %s, can be reached with the surplus still in place: a tolerated deviation is rejected on account of data that would have been dropped" % (vec, row["why"], c.line, vec), f, c.term["span"]))
                else:
                    res.ok({"function": fpath, "refusal_line": c.line, "depends_on": vec, "normaliser_runs_first": True}, nontrivial=True)
    res.floor("refusals behind a discarding normaliser", nd, ctx.table("floors").get("mode_discard", 0))
    return res


def rawfield(pid):
    """R-RAWFIELD: the parsers hand on what the file says.  A parsed field of DirEntry / Header is replaced by another
    value only in the listed normalisations, each under its listed condition.  Any other replacement makes the
    library see something the file does not say (a chain start forgotten, a count trusted that permissive mode
    documents as ignored) - whatever the mode."""
    def run(ctx):
        res = RuleResult("R-RAWFIELD(%s)" % pid, "every value that DirEntry::read_from / Header::read_from put into the parsed struct is the value read from the file, or one of the listed normalisations under its listed condition")
        tbl = ctx.table("rawfield").get("readers", {})
        n = 0
        for fpath, spec in tbl.items():
            f = ctx.fx.fns.get(fpath)
            if f is None:
                res.gone.append(fpath)
                continue
            pr = Prov(f)
            g = guards(ctx, f)
            names = {nm: l for l, nm in f.debug_names().items()}
            # what was read from the file: results of calls on the reader, and buffers handed to them by &mut
            from dataflow import forward_taint, rv_places
            v_ = view(ctx, f)
            seeds = set()
            for c_ in v_.calls.values():
                if any("param:reader" in pr.operand(a_) for a_ in c_.term["args"]):
                    if not c_.term["dest"]["proj"]:
                        seeds.add(c_.term["dest"]["local"])
                    for a_ in c_.term["args"]:
                        if a_["k"] in ("copy", "move") and not a_["place"]["proj"]:
                            cur_ = [a_["place"]["local"]]
                            for _hop in range(6):
                                nxt_ = []
                                for l_ in cur_:
                                    for d_ in pr.defs.get(l_, []):
                                        if d_[1] == "t" or len(d_) < 3 or d_[2].get("s") != "assign":
                                            continue
                                        rv_ = d_[2]["rv"]
                                        if rv_["r"] in ("ref", "rawptr"):
                                            seeds.add(rv_["place"]["local"])
                                            if any(e_["p"] == "deref" for e_ in rv_["place"]["proj"]):
                                                nxt_.append(rv_["place"]["local"])     # a re-borrow: keep going to the owner
                                        elif rv_["r"] in ("use", "cast") and rv_["op"]["k"] in ("copy", "move"):
                                            nxt_.append(rv_["op"]["place"]["local"])
                                cur_ = nxt_
                                if not cur_:
                                    break
            from_file = forward_taint(f, seeds, through_calls=True)

            def is_raw(d):
                if d is None:
                    return False
                if d[1] == "t":
                    t_ = d[2] if len(d) > 2 else f.blocks[d[0]]["term"]
                    return any(a_["k"] in ("copy", "move") and a_["place"]["local"] in from_file for a_ in t_.get("args", [])) or d[0] in [c_.bb for c_ in v_.calls.values() if any("param:reader" in pr.operand(a_) for a_ in c_.term["args"])]
                st_ = d[2]
                return st_.get("s") == "assign" and any(p_["local"] in from_file for p_ in rv_places(st_["rv"]))
            for bb, blk in enumerate(f.blocks):
                for i, st in enumerate(blk["stmts"]):
                    if not (st["s"] == "assign" and st["rv"]["r"] == "aggregate" and st["rv"].get("adt") == spec["struct"]):
                        continue
                    for o, fname in zip(st["rv"]["ops"], st["rv"]["fields"]):
                        p = pr.operand(o)
                        m = re.match(r"^var:(\w+)$", p)
                        defs = []
                        if m and m.group(1) in names:
                            l = names[m.group(1)]
                            for d in pr.defs.get(l, []):
                                defs.append((pr._def(d, 1, (l,)), ("t", d[0]) if d[1] == "t" else ("s", d[0], d[1]), d))
                        else:
                            raw_op = o["k"] in ("copy", "move") and o["place"]["local"] in from_file
                            defs.append((p if not raw_op else "param:reader " + p, ("s", bb, i), None))
                        for (dp, node, d) in defs:
                            if "param:reader" in dp or is_raw(d):
                                n += 1
                                res.ok({"reader": fpath.split("::")[-2], "field": fname, "value": "as read"})
                                continue
                            if fname in spec.get("computed", []) or re.match(r"^repeat\(", dp):
                                continue
                            n += 1
                            rows = [r for r in spec["normalisations"] if r["field"] == fname and re.search(r["value"], dp)]
                            atoms = g.atoms_at(node)
                            okrow = [r for r in rows if any(re.search(r["when"], a) for a in atoms)]
                            key = "R-RAWFIELD/%s/%s" % (fpath, fname)
                            if okrow:
                                res.ok({"reader": fpath.split("::")[-2], "field": fname, "value": dp[:40], "normalisation": okrow[0]["why"]}, nontrivial=True)
                            else:
                                line = d[2]["span"]["line"] if d is not None and len(d) > 2 and isinstance(d[2], dict) and "span" in d[2] else st["span"]["line"]
                                res.fail(Finding(res.rule, key + "/unlisted-normalisation", "%s replaces the parsed `%s` by %s (line %d) outside the listed normalisations%s: the library then works with a value the file does not contain (conditions there: %s)" % (
                                    fpath.split("::")[-2] + "::read_from", fname, dp[:50], line, (" (listed for this field: " + "; ".join(r["why"] for r in spec["normalisations"] if r["field"] == fname) + ")") if any(r["field"] == fname for r in spec["normalisations"]) else "",
                                    "; ".join(a[:60] for a in atoms[-3:]) or "none"), f, (d[2]["span"] if d is not None and len(d) > 2 and isinstance(d[2], dict) and "span" in d[2] else st["span"])))
        res.floor("parsed field definitions", n, ctx.table("floors").get("rawfield_defs", 0))
        return res
    return run


def builder(pid):
    """R-BUILDER: a strict open is asked for with OpenOptions::strict(); every other builder step hands the option
    set on.  No OpenOptions method that returns an OpenOptions gives back a `validation` other than the one it
    received - except by setting Strict.  (A step that rebuilds the value from defaults silently turns a strict open
    into a permissive one, depending on the order of the builder calls.)"""
    def run(ctx):
        res = RuleResult("R-BUILDER(%s)" % pid, "every OpenOptions method returning OpenOptions returns the validation mode it received, or Validation::Strict")
        n = 0
        for f in ctx.fx.fns.values():
            if f.kind == "closure" or peel(f.d.get("impl_self", {})).get("adt") != "OpenOptions":
                continue
            if f.locals[0]["s"] != "OpenOptions" or f.arg_count < 1 or f.locals[1]["s"] != "OpenOptions":
                continue
            pr = Prov(f)
            n += 1
            vals = []
            for bb, blk in enumerate(f.blocks):
                if blk["cleanup"]:
                    continue
                for i, st in enumerate(blk["stmts"]):
                    if st["s"] != "assign":
                        continue
                    pl = st["place"]
                    # stores to the validation field of the value on its way out (the parameter or the return place)
                    if pl["local"] in (0, 1) and pl["proj"] and pl["proj"][-1].get("p") == "field" and pl["proj"][-1].get("name") == "validation":
                        vals.append((pr._def((bb, i, st), 0, ()), st))
                    elif pl["local"] == 0 and not pl["proj"]:
                        rv = st["rv"]
                        if rv["r"] == "aggregate" and rv.get("adt") == "OpenOptions":
                            for fld, op in zip(rv.get("fields", []), rv.get("ops", [])):
                                if fld == "validation":
                                    vals.append((pr.operand(op), st))
                        elif rv["r"] == "use" and rv["op"]["k"] in ("copy", "move") and rv["op"]["place"]["local"] == 1 and not rv["op"]["place"]["proj"]:
                            pass        # the received value, with whatever single fields were set above
                        else:
                            vals.append((pr._def((bb, i, st), 0, ()), st))
            bad = [(x, st) for (x, st) in vals if not re.match(r"^(param:self\.validation|Validation::Strict(\(\))?|const:(\w+::)*Strict)$", x)]
            if bad:
                res.fail(Finding(res.rule, "R-BUILDER/%s/validation-not-handed-on" % f.path, "OpenOptions::%s returns a value whose validation mode is %s instead of the one it received: strict() followed by this step opens permissively, and every tolerated deviation is accepted by an open the caller asked to be strict" % (f.d["name"], bad[0][0][:80]), f, bad[0][1]["span"]))
            else:
                res.ok({"function": f.path, "validation_out": [x for x, _ in vals] or ["the received value, untouched"]}, nontrivial=True)
        # ... and the methods that finally open hand the option set on: open / open_rw / create delegate with `self`,
        # and open_with passes self.validation to the parser
        nd = 0
        for f in ctx.fx.fns.values():
            if f.kind == "closure" or peel(f.d.get("impl_self", {})).get("adt") != "OpenOptions" or f.arg_count < 1 or f.locals[1]["s"] != "OpenOptions":
                continue
            v = view(ctx, f)
            pr = Prov(f)
            for bb, c in sorted(v.calls.items()):
                if re.search(r"^OpenOptions::(open_with|create_with)$", c.name) and c.term["args"]:
                    nd += 1
                    a0 = pr.operand(c.term["args"][0])
                    if a0 == "param:self":
                        res.ok({"function": f.path, "delegates_to": c.name, "with": a0})
                    else:
                        res.fail(Finding(res.rule, "R-BUILDER/%s/options-not-handed-on" % f.path, "OpenOptions::%s delegates to %s with %s instead of the option set it was called on: strict() (and max_buffer_size) configured by the caller are ignored on this entry point" % (f.d["name"], c.name.split("::")[-1], a0[:60]), f, c.term["span"]))
                if c.name.endswith("::open_internal"):
                    nd += 1
                    args = [pr.operand(a) for a in c.term["args"]]
                    if "param:self.validation" in args:
                        res.ok({"function": f.path, "parser_called_with": "self.validation"})
                    else:
                        res.fail(Finding(res.rule, "R-BUILDER/%s/validation-not-passed" % f.path, "OpenOptions::%s calls the parser with %s: the configured validation mode is not the one used" % (f.d["name"], ", ".join(a[:40] for a in args)), f, c.term["span"]))
        res.floor("OpenOptions delegations", nd, ctx.table("floors").get("builder_delegations", 0))
        res.floor("OpenOptions builder steps", n, ctx.table("floors").get("builder_fns", 0))
        return res
    return run


def normapplied(pid):
    """R-NORMALL: DirEntry::read_from documents, per object type, fields whose stored value is ignored under permissive
    validation (a CLSID or a time on a stream, a start sector or a size on a storage, the root's name) and replaces
    them by the canonical value.  Each of those replacements is independent of the others: for every such field, no
    path through the branch of that object type reaches the Ok return with the field neither found canonical nor
    replaced.  (Chaining two fix-ups with `else if` normalises only the first deviation that is present; a file
    with two of them keeps the second, and the permissive view is no longer that of the undamaged file.)"""
    from rules_sink import _edge_label

    def run(ctx):
        res = RuleResult("R-NORMALL(%s)" % pid, "for every type-dependent tolerated deviation of DirEntry::read_from, every path of that object type to the Ok return passes the test that found the field canonical or the assignment that makes it so")
        tbl = ctx.table("mode")
        f = ctx.fx.fns.get("internal::direntry::DirEntry::read_from")
        if f is None:
            res.gone.append("DirEntry::read_from")
            return res
        v = view(ctx, f)
        pg = v.pg
        pr = Prov(f)
        g = guards(ctx, f)
        names = {nm: l for l, nm in f.debug_names().items()}
        oks = []
        for bb, blk in enumerate(f.blocks):
            if blk["cleanup"]:
                continue
            for i, st in enumerate(blk["stmts"]):
                if st["s"] == "assign" and st["place"]["local"] == 0 and not st["place"]["proj"] and st["rv"]["r"] == "aggregate" and st["rv"].get("variant") == "Ok":
                    oks.append(("s", bb, i))
        edges = []
        for b, blk in enumerate(f.blocks):
            if blk["cleanup"] or blk["term"]["t"] != "switch":
                continue
            for k, tgt in enumerate(f.succ(b)):
                val, vals = _edge_label(f, b, k)
                edges.append((b, tgt, g.describe_all(b, val, vals)))
        n = 0
        done = set()
        for row in tbl.get("deviations", []):
            if row["function"] != f.path or len(row["test"]) != 2:
                continue
            mt = re.search(r"is ObjType::(\w+)\$?$", row["test"][1])
            if not mt:
                continue
            otype = mt.group(1)
            # the variables this kind of deviation is about: read off the located test atoms
            for (b, tgt, atoms) in edges:
                for a in atoms:
                    if not (re.search(row["test"][0], a) or re.search(row["test"][0], wild(a))):
                        continue
                    mv = re.search(r"var:(\w+)", a)
                    if not mv or mv.group(1) not in names or mv.group(1) in ("obj_type", "validation"):
                        continue
                    var = mv.group(1)
                    if (var, otype) in done:
                        continue
                    # only a test made for this object type
                    here = g.atoms_at(pg.edge_node(b, tgt)[0]) if pg.edge_node(b, tgt) else atoms
                    if not any(re.search(r" is ObjType::%s$" % otype, x) for x in here):
                        continue
                    done.add((var, otype))
                    n += 1
                    neg = ("(Eq(" + a[4:]) if a.startswith("(Ne(") else (a[1:] if a.startswith("!") else None)
                    barrier = set()
                    for (b2, t2, at2) in edges:
                        if neg and neg in at2:
                            barrier.update(pg.edge_node(b2, t2))
                        # another object type: not this deviation's business
                        if any(re.search(r" is not ObjType::%s$" % otype, x) or (re.search(r" is ObjType::(\w+)$", x) and not x.endswith("::" + otype)) for x in at2):
                            barrier.update(pg.edge_node(b2, t2))
                    for l in [l_ for l_, nm_ in f.debug_names().items() if nm_ == var]:
                        for d in pr.defs.get(l, []):
                            dp = pr._def(d, 1, (l,))
                            if re.match(r"^(const:[^()]*|[\w:<> ]+\((const:[^()]*)?\))$", dp) and "read" not in dp:
                                barrier.add(("t", d[0]) if d[1] == "t" else ("s", d[0], d[1]))
                    reach = pg.reach([pg.entry()], barrier)
                    key = "R-NORMALL/%s/%s-of-%s" % (f.path, var, otype)
                    if any(o in reach for o in oks):
                        res.fail(Finding(res.rule, key + "/deviation-survives-permissive-open", "a %s entry can reach the Ok return of read_from with `%s` neither found canonical nor replaced (deviation '%s'): when another fix-up on the same entry fires first, this one is skipped, and the permissive view differs from the undamaged file" % (otype.lower(), var, row["id"]), f))
                    else:
                        res.ok({"deviation": row["id"], "variable": var, "object_type": otype, "every_path": "tested canonical or replaced"}, nontrivial=True)
        res.floor("type-dependent normalisations", n, ctx.table("floors").get("normall_sites", 0))
        return res
    return run


def strictlist(pid):
    """R-MODE.U: what strict validation refuses beyond permissive validation is the audited list of documented
    deviations (rules/mode.json, `deviations`) - each of them a condition this library's own writers maintain on
    every image they produce.  A refusal that is reached only under is_strict() and matches none of the listed
    deviations is a NEW condition on files: nothing establishes that the library's own images meet it (the mini
    stream's chain may legitimately be longer than its length needs, say), so `create, modify, reopen strictly`
    may start to fail."""
    def run(ctx):
        res = RuleResult("R-MODE.U(%s)" % pid, "every refusal reached only under is_strict() is one of the documented deviations listed in rules/mode.json")
        tbl = ctx.table("mode")
        rows = tbl.get("deviations", [])
        n = 0
        for f in ctx.fx.fns.values():
            rs = refusals(ctx, f)
            if not rs:
                continue
            g = guards(ctx, f)
            for (c, kind) in rs:
                atoms = g.atoms_at(("t", c.bb))
                if not any(re.search(r"^\(Validation::is_strict\(", a) for a in atoms):
                    continue
                n += 1
                hit = [row for row in rows if row["function"] == f.path and all(atoms_match(rx, atoms) for rx in row["test"])]
                if hit:
                    res.ok({"function": f.path, "line": c.line, "deviation": hit[0]["id"]})
                else:
                    own = [a for a in atoms if not re.search(r"is_strict\(", a)][-3:]
                    res.fail(Finding(res.rule, "R-MODE.U/%s/unlisted-strict-refusal/%s" % (f.path, "+".join(sorted(set(re.findall(r"\.(\w+)", " ".join(own)))))[:60]), "%s refuses under strict validation only (line %d; conditions: %s) and this is none of the documented deviations: nothing establishes that the images this library writes satisfy the new condition, so a file it created and modified may stop reopening strictly" % (f.path.split("::")[-1], c.line, "; ".join(a[:70] for a in own) or "none"), f, c.term["span"]))
        res.floor("strict-only refusals", n, ctx.table("floors").get("strict_refusals", 0))
        return res
    return run


def strictalways(pid):
    """R-STRICTALWAYS: the header-count deviations (wrong DIFAT / FAT / MiniFAT sector count) are refused by strict open
    whatever else the file looks like.  For each deviation row marked `always` in rules/mode.json the comparison
    that detects it lies on every path strict validation takes from the entry of the function to its Ok return: no
    early exit, labelled break or special case (`there is no MiniFAT at all`) leads around it."""
    def run(ctx):
        from rules_sink import _edge_label
        res = RuleResult("R-STRICTALWAYS(%s)" % pid, "the comparison behind each header-count deviation is passed on every strict-mode path from the function's entry to its Ok return")
        rows = [r for r in ctx.table("mode").get("deviations", []) if r.get("always")]
        n = 0
        for row in rows:
            f = ctx.fx.fns.get(row["function"])
            if f is None:
                res.gone.append(row["function"])
                continue
            g = guards(ctx, f)
            v = view(ctx, f)
            pg = v.pg
            tests, lenient = set(), set()
            for b, blk in enumerate(f.blocks):
                if blk["cleanup"] or blk["term"]["t"] != "switch":
                    continue
                for k, tgt in enumerate(f.succ(b)):
                    val, vals = _edge_label(f, b, k)
                    atoms = g.describe_all(b, val, vals)
                    if all(atoms_match(rx, atoms) for rx in row["test"]):
                        tests.add(("t", b))
                    if any(re.match(r"^!\(Validation::is_strict\(", a) for a in atoms):
                        lenient.update(pg.edge_node(b, tgt))
            if not tests:
                continue        # the refusal itself is gone or respelled: R-MODE.U's floor and R-MODE see that
            n += 1
            oks = []
            for b, blk in enumerate(f.blocks):
                if blk["cleanup"]:
                    continue
                for i, st in enumerate(blk["stmts"]):
                    if st["s"] == "assign" and st["place"]["local"] == 0 and not st["place"]["proj"] and st["rv"]["r"] == "aggregate" and st["rv"].get("variant") == "Ok":
                        oks.append(("s", b, i))
            reach = pg.reach([pg.entry()], tests | lenient)
            around = [o for o in oks if o in reach]
            if around:
                sp = f.blocks[around[0][1]]["stmts"][around[0][2]]["span"]
                res.fail(Finding(res.rule, "R-STRICTALWAYS/%s/%s" % (f.path, row["id"]), "strict validation can reach the Ok return of %s without passing the comparison that detects `%s`: on that path the deviation is accepted by strict open" % (f.path.split("::")[-1], row["id"]), f, sp))
            else:
                res.ok({"function": f.path, "deviation": row["id"], "comparison_blocks": len(tests), "ok_returns": len(oks)}, nontrivial=True)
        res.floor("header-count deviations located", n, ctx.table("floors").get("strictalways_rows", 0))
        return res
    return run
