"""A7 field-based taint: which locals / fields / returns carry file-derived
data (read off the backend), and which carry caller-supplied API arguments."""
from cg import op_local, peel
from dataflow import rv_operands, rv_places
from facts import callee_name

FILE_SOURCES = ("ReadLeNumber::read_le_u16", "ReadLeNumber::read_le_u32", "ReadLeNumber::read_le_u64")
BUF_FILLERS = ("read_exact", "read", "read_to_end", "read_to_string", "read_buf")
CONTAINER_WRITERS = ("push", "insert", "extend_from_slice", "resize", "extend", "push_str", "append", "fill", "copy_from_slice")


class Taint:
    def __init__(self, ctx, kind="file", api_roots=None):
        self.ctx = ctx
        self.kind = kind
        self.locals = {p: set() for p in ctx.fx.fns}
        self.fields = set()
        self.rets = set()
        self.api_roots = api_roots or []
        self._run()

    # ------------------------------------------------------------------
    def _place_tainted(self, f, place):
        if place["local"] in self.locals[f.path]:
            return True
        for e in place["proj"]:
            if e["p"] == "field" and (e.get("owner"), e["name"]) in self.fields:
                return True
            if e["p"] == "index" and e["local"] in self.locals[f.path]:
                return True
        return False

    def op_tainted(self, f, o):
        return o["k"] in ("copy", "move") and self._place_tainted(f, o["place"])

    def place_tainted(self, f, p):
        return self._place_tainted(f, p)

    def _taint_place(self, f, place, refs):
        """Mark the storage designated by `place` as tainted. Returns True if anything changed."""
        ch = False
        fl = [e for e in place["proj"] if e["p"] == "field"]
        derefs = any(e["p"] == "deref" for e in place["proj"])
        if fl:
            e = fl[-1]
            key = (e.get("owner"), e["name"])
            if e.get("owner") not in ("tuple", "") and key not in self.fields:
                self.fields.add(key)
                ch = True
        if not derefs or not fl:
            l = place["local"]
            if derefs and l in refs:
                # store through a reference: taint what it points to
                for tgt in refs[l]:
                    ch |= self._taint_place(f, tgt, {})
            if l not in self.locals[f.path]:
                self.locals[f.path].add(l)
                ch = True
        return ch

    def _refs(self, f):
        """ref local -> places it may point to (one level)."""
        refs = {}
        for blk in f.blocks:
            if blk["cleanup"]:
                continue
            for st in blk["stmts"]:
                if st["s"] == "assign" and not st["place"]["proj"]:
                    rv = st["rv"]
                    if rv["r"] in ("ref", "rawptr"):
                        refs.setdefault(st["place"]["local"], []).append(rv["place"])
                    elif rv["r"] in ("use", "cast") and rv["op"]["k"] in ("copy", "move") and not rv["op"]["place"]["proj"]:
                        src = rv["op"]["place"]["local"]
                        if src in refs:
                            refs.setdefault(st["place"]["local"], []).extend(refs[src])
        return refs

    def _run(self):
        ctx = self.ctx
        fns = list(ctx.fx.fns.values())
        refs = {f.path: self._refs(f) for f in fns}
        if self.kind == "api":
            for f in self.api_roots:
                for i in range(1, f.arg_count + 1):
                    ty = f.locals[i]
                    s = ty["s"]
                    if s in ("u64", "usize", "u32", "i64", "std::io::SeekFrom") or s.startswith("&[u8]") or s.startswith("&mut [u8]"):
                        self.locals[f.path].add(i)
        changed = True
        rounds = 0
        while changed and rounds < 40:
            changed = False
            rounds += 1
            for f in fns:
                T = self.locals[f.path]
                rf = refs[f.path]
                for blk in f.blocks:
                    if blk["cleanup"]:
                        continue
                    for st in blk["stmts"]:
                        if st["s"] != "assign":
                            continue
                        rv = st["rv"]
                        src_t = any(self._place_tainted(f, p) for p in rv_places(rv))
                        if src_t:
                            if self._taint_place(f, st["place"], rf):
                                changed = True
                            if rv["r"] == "aggregate" and rv["agg"] == "adt":
                                for o, fname in zip(rv["ops"], rv.get("fields", [])):
                                    if self.op_tainted(f, o):
                                        key = (rv["adt"] if True else None, fname)
                                        owner = rv["adt"]
                                        # enum variants carry the variant in the owner string
                                        if (owner, fname) not in self.fields and not owner.startswith("std::") and not owner.startswith("core::"):
                                            self.fields.add((owner, fname))
                                            changed = True
                    t = blk["term"]
                    if t["t"] != "call":
                        continue
                    nm = callee_name(t) or ""
                    short = nm.split("::")[-1]
                    args = t["args"]
                    arg_t = [self.op_tainted(f, a) for a in args]
                    # arguments that are references to tainted storage
                    for i, a in enumerate(args):
                        l = op_local(a)
                        if not arg_t[i] and l is not None and l in rf:
                            if any(self._place_tainted(f, p) for p in rf[l]):
                                arg_t[i] = True
                    dest_t = False
                    if self.kind == "file":
                        if nm in FILE_SOURCES:
                            dest_t = True
                        if t.get("callee_trait") in ("std::io::Read", "std::io::BufRead") and short in BUF_FILLERS and len(args) >= 2:
                            l = op_local(args[1])
                            if l is not None:
                                for tgt in rf.get(l, []):
                                    if self._taint_place(f, tgt, rf):
                                        changed = True
                                if l not in T:
                                    T.add(l)
                                    changed = True
                    targets = []
                    if t.get("callee_kind") == "direct":
                        res = t.get("resolved")
                        if res in ctx.fx.fns:
                            targets = [ctx.fx.fns[res]]
                        elif t.get("resolved_closure") in ctx.fx.fns and (t.get("callee_trait") or "").split("::")[-1] in ("FnOnce", "FnMut", "Fn"):
                            targets = [ctx.fx.fns[t["resolved_closure"]]]
                    if targets:
                        for g in targets:
                            off = 0
                            if g.kind == "closure":
                                # call_once(closure, (args,)): not modelled precisely
                                continue
                            for i, at in enumerate(arg_t):
                                if at and (i + 1) <= g.arg_count and (i + 1) not in self.locals[g.path]:
                                    self.locals[g.path].add(i + 1)
                                    changed = True
                            if g.path in self.rets:
                                dest_t = True
                    else:
                        if any(arg_t):
                            dest_t = True
                        if short in CONTAINER_WRITERS and len(args) >= 2 and any(arg_t[1:]):
                            l = op_local(args[0])
                            if l is not None:
                                for tgt in rf.get(l, []):
                                    if self._taint_place(f, tgt, rf):
                                        changed = True
                                if l not in T:
                                    T.add(l)
                                    changed = True
                    # closures passed as arguments see their captures
                    for a in args:
                        l = op_local(a)
                        if l is not None:
                            ty = peel(f.locals[l])
                            if ty.get("k") == "closure" and ty["def"] in ctx.fx.fns:
                                g = ctx.fx.fns[ty["def"]]
                                # captured tainted variables: taint the closure's environment parameter
                                if l in T and 1 not in self.locals[g.path]:
                                    self.locals[g.path].add(1)
                                    changed = True
                    if dest_t:
                        if self._taint_place(f, t["dest"], rf):
                            changed = True
                if 0 in T and f.path not in self.rets:
                    self.rets.add(f.path)
                    changed = True
