"""A4 provenance (backward value slice to a descriptor) and A5 guard context
(conditions that hold on every path to a program point)."""
from dataflow import assigned_locals
from facts import callee_name

MAXD = 7
NAMED_CONTAINERS = ("std::vec::Vec", "std::collections::HashSet", "std::collections::HashMap", "std::string::String", "std::path::PathBuf")


def short_fn(name):
    """Drop generic noise from a callee path: keep the last two segments."""
    if name is None:
        return "?"
    n = name
    for g in ("::<F>", "::<'a, F>", "::<T>", "::<T, A>", "::<T, E>", "::<I>"):
        n = n.replace(g, "")
    if n.startswith("<") and " as " in n:
        # <Type as Trait>::method  ->  Trait::method
        tr = n[n.index(" as ") + 4:]
        tr = tr.replace(">::", "::", 1) if ">::" in tr else tr
        parts = tr.split("::")
        return "::".join(parts[-2:])
    parts = n.split("::")
    return "::".join(parts[-2:])


def _split_top(s):
    """Split a descriptor argument list at top-level commas."""
    out, depth, cur = [], 0, []
    for ch in s:
        if ch in "([{":
            depth += 1
        elif ch in ")]}":
            depth -= 1
        if ch == "," and depth == 0:
            out.append("".join(cur))
            cur = []
        else:
            cur.append(ch)
    out.append("".join(cur))
    return out


class Prov:
    def __init__(self, fn):
        self.fn = fn
        self.defs = assigned_locals(fn)
        self.names = fn.debug_names()
        self._memo = {}

    def mut_borrowed(self):
        mb = getattr(self, "_mb", None)
        if mb is None:
            mb = set()
            for blk in self.fn.blocks:
                for st in blk["stmts"]:
                    if st["s"] == "assign" and st["rv"]["r"] == "ref" and st["rv"]["mut"] and not st["rv"]["place"]["proj"]:
                        mb.add(st["rv"]["place"]["local"])
            self._mb = mb
        return mb

    def local(self, l, depth=0, seen=()):
        key = l
        if key in self._memo and depth == 0:
            return self._memo[key]
        if depth > MAXD or l in seen:
            return "_"
        fn = self.fn
        defs = self.defs.get(l, [])
        if not defs:
            if 1 <= l <= fn.arg_count:
                r = "param:%s" % self.names.get(l, "arg%d" % l)
            elif l == 0:
                r = "ret"
            else:
                r = "undef%d" % l
        elif len(defs) == 1:
            nm = self.names.get(l)
            ty = fn.locals[l]
            if nm and ty.get("k") == "adt" and defs[0][1] == "t" and ty.get("adt") in NAMED_CONTAINERS and l in self.mut_borrowed():
                # a named, by-value container built by a constructor call: its identity is its name
                r = "var:%s" % nm
            else:
                r = self._def(defs[0], depth, seen + (l,))
        else:
            parts = sorted(set(self._def(d, depth + 1, seen + (l,)) for d in defs))
            if len(parts) == 1:
                r = parts[0]
            else:
                nm = self.names.get(l)
                r = ("var:%s" % nm) if nm else ("phi(" + "|".join(parts[:4]) + ")")
        if depth == 0:
            self._memo[key] = r
        return r

    def _def(self, d, depth, seen):
        bb, idx, x = d
        if idx == "t":
            t = x
            nm = short_fn(callee_name(t)) if t.get("callee_kind") == "direct" else "indirect"
            args = [self.operand(a, depth + 1, seen) for a in t["args"]]
            # smart-pointer / guard derefs and trivial conversions are transparent
            tail = nm.split("::")[-1]
            if tail in ("deref", "deref_mut", "as_ref", "as_mut", "borrow", "borrow_mut", "clone", "into", "from", "unwrap", "expect", "copied", "cloned") and len(args) >= 1:
                if tail in ("unwrap", "expect", "clone", "copied", "cloned", "into", "from"):
                    return "%s(%s)" % (tail, args[0]) if tail in ("unwrap", "expect") else args[0]
                return args[0]
            return "%s(%s)" % (nm, ",".join(args))
        st = x
        rv = st["rv"]
        k = rv["r"]
        if k == "use":
            return self.operand(rv["op"], depth, seen)
        if k == "cast":
            return self.operand(rv["op"], depth, seen)
        if k in ("ref", "rawptr"):
            return self.place(rv["place"], depth, seen)
        if k == "binop":
            op = rv["op"].replace("WithOverflow", "")
            return "%s(%s,%s)" % (op, self.operand(rv["a"], depth + 1, seen), self.operand(rv["b"], depth + 1, seen))
        if k == "unop":
            return "%s(%s)" % (rv["op"], self.operand(rv["a"], depth + 1, seen))
        if k == "discriminant":
            return "discr(%s)" % self.place(rv["place"], depth + 1, seen)
        if k == "aggregate":
            if rv["agg"] == "adt":
                return "%s::%s(%s)" % (rv["adt"].split("::")[-1], rv["variant"], ",".join(self.operand(o, depth + 1, seen) for o in rv["ops"]))
            if rv["agg"] == "closure":
                return "closure:%s" % rv["closure"].split("::")[-1]
            return "%s(%s)" % (rv["agg"], ",".join(self.operand(o, depth + 1, seen) for o in rv["ops"]))
        if k == "repeat":
            return "repeat(%s)" % self.operand(rv["op"], depth + 1, seen)
        return "other"

    def place(self, p, depth=0, seen=()):
        s = self.local(p["local"], depth, seen)
        for e in p["proj"]:
            k = e["p"]
            if k == "deref":
                continue
            if k == "field":
                if e.get("owner") == "tuple" and s.endswith(")") and ("(" in s) and s.split("(")[0] in ("Add", "Sub", "Mul"):
                    # checked arithmetic returns (value, overflowed)
                    if e["name"] == "0":
                        continue
                    s = "overflowed(%s)" % s
                    continue
                if e.get("owner") == "tuple" and s.startswith("tuple(") and s.endswith(")") and e["name"].isdigit():
                    parts = _split_top(s[6:-1])
                    if int(e["name"]) < len(parts):
                        s = parts[int(e["name"])]
                        continue
                s = "%s.%s" % (s, e["name"])
            elif k == "index":
                s = "%s[%s]" % (s, self.local(e["local"], depth + 1, seen))
            elif k == "constindex":
                s = "%s[%d]" % (s, e["offset"])
            elif k == "downcast":
                s = "%s as %s" % (s, e["variant"])
            elif k == "subslice":
                s = "%s[%d..]" % (s, e["from"])
        return s

    def operand(self, o, depth=0, seen=()):
        k = o["k"]
        if k in ("copy", "move"):
            return self.place(o["place"], depth, seen)
        if k == "const":
            if "named" in o and not o.get("promoted"):
                return "const:%s" % o["named"].split("::")[-1]
            if "val" in o:
                return "const:%s" % o["val"]
            if "valstr" in o:
                return "const:%s" % o["valstr"]
            if "variant" in o:
                return "const:%s::%s" % (o["enum"].split("::")[-1], o["variant"])
            if "str" in o:
                return "str:%r" % o["str"]
            if "fndef" in o:
                return "fn:%s" % short_fn(o["fndef"])
            if o.get("promoted"):
                rep = o.get("repr", "")
                try:
                    idx = int(rep[rep.rindex("promoted[") + 9:rep.rindex("]")])
                    val = self.fn.d.get("promoted", [])[idx]
                    val = val.replace("const ", "")
                    return "const:%s" % "::".join(val.split("::")[-2:]) if "::" in val else "const:%s" % val
                except (ValueError, IndexError):
                    return "promoted:?"
            return "const:%s" % o.get("repr", "?")
        return k


class Guards:
    """A5: for each point-graph node the set of switch edges every path from
    the entry must take, rendered as condition atoms."""

    def __init__(self, ctx, fn):
        self.fn = fn
        self.pg = ctx.pg(fn)
        self.prov = Prov(fn)
        self._dom = None
        self._promoted = ctx

    def _edges(self):
        out = []
        for bb, blk in enumerate(self.fn.blocks):
            if blk["cleanup"] or blk["term"]["t"] != "switch":
                continue
            t = blk["term"]
            tgts = [(str(v), b) for v, b in t["arms"]] + [("otherwise", t["otherwise"])]
            for k, (val, tgt) in enumerate(tgts):
                out.append((("e", bb, k), bb, val, [x for x, _ in tgts]))
        return out

    def _compute(self):
        pg = self.pg
        allreach = pg.reach([pg.entry()])
        self._dom = {}
        for (e, bb, val, vals) in self._edges():
            if e not in allreach:
                continue
            r = pg.reach([pg.entry()], avoid={e})
            self._dom[e] = (allreach - r, bb, val, vals)

    def atoms_at(self, node):
        if self._dom is None:
            self._compute()
        out = []
        for e, (dom, bb, val, vals) in self._dom.items():
            if node in dom and node != e:
                a = self.describe(bb, val, vals)
                if a:
                    out.append(a)
        return sorted(set(out))

    def describe(self, bb, val, vals):
        """Atom string for taking the edge labelled `val` out of block bb."""
        t = self.fn.blocks[bb]["term"]
        cond = self.prov.operand(t["discr"])
        others = [v for v in vals if v != val]
        if cond.startswith("discr("):
            inner = cond[6:-1]
            if val == "otherwise":
                return "%s !in {%s}" % (inner, ",".join(others))
            return "%s is #%s" % (inner, val)
        # boolean conditions
        if val == "0":
            return "!(%s)" % cond
        if val == "otherwise" and others == ["0"]:
            return "(%s)" % cond
        if val == "otherwise":
            return "%s !in {%s}" % (cond, ",".join(others))
        return "%s == %s" % (cond, val)


def guards(ctx, fn):
    c = ctx.__dict__.setdefault("_guards", {})
    g = c.get(fn.path)
    if g is None:
        g = c[fn.path] = Guards(ctx, fn)
    return g


def expand_var(f, p, pr=None):
    """If p is `var:NAME` (a multiply-defined named local), the provenance of each of its definitions."""
    import re as _re
    m = _re.match(r"^var:(\w+)$", p)
    if not m:
        return [p]
    pr = pr or Prov(f)
    names = {nm: l for l, nm in f.debug_names().items()}
    l = names.get(m.group(1))
    if l is None:
        return [p]
    out = []
    for d in pr.defs.get(l, []):
        dp = pr._def(d, 0, ())
        if dp != p:
            out.append(dp)
    return out or [p]
