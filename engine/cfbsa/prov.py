"""A4 provenance (backward value slice to a descriptor) and A5 guard context
(conditions that hold on every path to a program point)."""
import re

from dataflow import assigned_locals
from facts import callee_name

MAXD = 7
NAMED_CONTAINERS = ("std::vec::Vec", "std::collections::HashSet", "std::collections::HashMap", "std::string::String", "std::path::PathBuf")


def short_fn(name):
    """Drop generic noise from a callee path: keep the last two segments."""
    if name is None:
        return "?"
    n = name
    for g in ("::<F>", "::<'a, F>", "::<T>", "::<T, A>", "::<T, E>", "::<I>"):
        n = n.replace(g, "")
    if n.startswith("<") and " as " in n:
        # <Type as Trait>::method  ->  Trait::method
        tr = n[n.index(" as ") + 4:]
        tr = tr.replace(">::", "::", 1) if ">::" in tr else tr
        parts = tr.split("::")
        return "::".join(parts[-2:])
    parts = n.split("::")
    return "::".join(parts[-2:])


def _split_top(s):
    """Split a descriptor argument list at top-level commas."""
    out, depth, cur = [], 0, []
    for ch in s:
        if ch in "([{":
            depth += 1
        elif ch in ")]}":
            depth -= 1
        if ch == "," and depth == 0:
            out.append("".join(cur))
            cur = []
        else:
            cur.append(ch)
    out.append("".join(cur))
    return out


def _ok_payload(s):
    """ok(Result::Ok(X)) -> X;  ok(phi(Result::Ok(X)|err(..)|..)) -> X when X is the only success alternative
    (the joined result of an inlined helper: its payload is what the helper returned on success)."""
    inner = s[3:-1]
    alts = _split_alts(inner[4:-1]) if inner.startswith("phi(") and inner.endswith(")") else [inner]
    oks = []
    opaque = []
    for a in alts:
        m = re.match(r"^(?:Result::Ok|Option::Some|ControlFlow::Continue)\((.*)\)$", a)
        if m:
            oks.append(m.group(1))
        elif a.startswith("err(") or a.startswith("Result::Err(") or a == "Option::None()":
            continue
        else:
            opaque.append(a)
    if opaque:
        # `x.and_then(|n| lookup(n))` lowered: the joined value is `lookup(..)` itself on one side and a None / Err built
        # on the other - its success payload is the payload of that one call
        if len(opaque) == 1 and not oks and len(alts) > 1 and not opaque[0].startswith("phi("):
            return "ok(%s)" % opaque[0]
        return s
    return oks[0] if len(oks) == 1 else s


def _split_alts(s):
    out, depth, cur = [], 0, ""
    for ch in s:
        if ch in "([":
            depth += 1
        elif ch in ")]":
            depth -= 1
        if ch == "|" and depth == 0:
            out.append(cur)
            cur = ""
        else:
            cur += ch
    out.append(cur)
    return out


REFERENCE_ADTS = set()      # struct paths of the reference tree (set by core.Ctx from rules/known_functions.json)


class Prov:
    def __init__(self, fn):
        self.fn = fn
        self.defs = assigned_locals(fn)
        self.names = fn.debug_names()
        self._memo = {}

    def mut_borrowed(self):
        mb = getattr(self, "_mb", None)
        if mb is None:
            mb = set()
            for blk in self.fn.blocks:
                for st in blk["stmts"]:
                    if st["s"] == "assign" and st["rv"]["r"] == "ref" and st["rv"]["mut"] and not st["rv"]["place"]["proj"]:
                        mb.add(st["rv"]["place"]["local"])
            self._mb = mb
        return mb

    def _preds(self):
        pm = getattr(self, "_pm", None)
        if pm is None:
            pm = {}
            for bb, blk in enumerate(self.fn.blocks):
                t = blk["term"]
                ss = []
                if t["t"] == "goto":
                    ss = [t["target"]]
                elif t["t"] == "switch":
                    ss = [b for _, b in t["arms"]] + [t["otherwise"]]
                elif t["t"] in ("call", "drop", "assert"):
                    ss = [t["target"]] if t.get("target") is not None else []
                    if isinstance(t.get("unwind"), int):
                        ss.append(t["unwind"])
                for x in set(ss):
                    pm.setdefault(x, []).append(bb)
            self._pm = pm
        return pm

    def _reaching(self, l, at):
        """The one definition of local l that reaches statement `at` = (bb, idx), when that can be read off a
        straight line: only inside blocks that threading made (copies of a path for one known value), where the
        original's single definition has become one definition per copy.  None = no refinement."""
        bb, idx = at
        blocks = self.fn.blocks
        if not blocks[bb].get("clone"):
            return None
        seen = set()
        while len(seen) < 16 and bb not in seen:
            seen.add(bb)
            stmts = blocks[bb]["stmts"]
            hi = len(stmts) if idx is None else idx
            for i in range(hi - 1, -1, -1):
                st = stmts[i]
                if st["s"] == "assign" and st["place"]["local"] == l:
                    return None if st["place"]["proj"] else (bb, i, st)
            preds = self._preds().get(bb, [])
            if len(preds) != 1 or not blocks[preds[0]].get("clone"):
                return None
            p = preds[0]
            t = blocks[p]["term"]
            if t["t"] == "call" and t["dest"]["local"] == l:
                return None if t["dest"]["proj"] else (p, "t", t)
            bb, idx = p, None
        return None

    def local(self, l, depth=0, seen=(), at=None):
        if at is not None and depth <= MAXD and l not in seen:
            rd = self._reaching(l, at)
            if rd is not None:
                return self._def(rd, depth, seen + (l,))
        key = l
        if key in self._memo and depth == 0:
            return self._memo[key]
        if depth > MAXD or l in seen:
            return "_"
        fn = self.fn
        defs = self.defs.get(l, [])
        if not defs:
            if 1 <= l <= fn.arg_count:
                r = "param:%s" % self.names.get(l, "arg%d" % l)
            elif l == 0:
                r = "ret"
            else:
                r = "undef%d" % l
        elif len(defs) == 1:
            nm = self.names.get(l)
            ty = fn.locals[l]
            if nm and ty.get("k") == "adt" and defs[0][1] == "t" and ty.get("adt") in NAMED_CONTAINERS and l in self.mut_borrowed():
                # a named, by-value container built by a constructor call: its identity is its name
                r = "var:%s" % nm
            else:
                r = self._def(defs[0], depth, seen + (l,))
        else:
            parts = sorted(set(self._def(d, depth + 1, seen + (l,)) for d in defs))
            if len(parts) > 1 and any("_" in x for x in parts):
                # the same value cut at different depths (a copy of a block made by threading evaluates it from
                # closer by): keep the most detailed spelling of each
                kept = []
                for x in sorted(parts, key=lambda y: (y.count("_"), -len(y))):
                    if not any(prov_eq(x, k_) for k_ in kept):
                        kept.append(x)
                parts = sorted(kept)
            if len(parts) == 1:
                r = parts[0]
            else:
                nm = self.names.get(l)
                r = ("var:%s" % nm) if nm else ("phi(" + "|".join(parts[:4]) + ")")
        if depth == 0:
            self._memo[key] = r
        return r

    def _def(self, d, depth, seen):
        bb, idx, x = d
        at = (bb, None if idx == "t" else idx)
        if idx == "t":
            t = x
            nm = short_fn(callee_name(t)) if t.get("callee_kind") == "direct" else "indirect"
            args = [self.operand(a, depth + 1, seen, at) for a in t["args"]]
            # smart-pointer / guard derefs and trivial conversions are transparent
            tail = nm.split("::")[-1]
            if tail in ("deref", "deref_mut", "as_ref", "as_mut", "borrow", "borrow_mut", "clone", "into", "from", "copied", "cloned", "branch", "from_residual", "from_output") and len(args) >= 1:
                return args[0]
            if tail == "size_of" and nm.endswith("mem::size_of") and not args:
                sz = {"u8": 1, "i8": 1, "u16": 2, "i16": 2, "u32": 4, "i32": 4, "u64": 8, "i64": 8, "usize": 8, "isize": 8, "u128": 16, "i128": 16}.get(((t.get("callee_targs") or [{}])[0] or {}).get("s"))
                if sz:
                    return "const:%d" % sz
            if tail in ("unwrap", "expect") and len(args) >= 1:
                return "ok(%s)" % args[0]
            if tail in ("unwrap_err", "expect_err") and len(args) >= 1:
                return "err(%s)" % args[0]
            if tail == "len" and len(args) == 1 and ("Vec" in nm or "[T]" in nm or "slice" in nm or "String" in nm or "str" in nm):
                n_ = self._array_len(t["args"][0]) if "[T]" in nm or "slice" in nm else None
                if n_ is not None:
                    return "const:%d" % n_
                return "len(%s)" % args[0]
            return "%s(%s)" % (nm, ",".join(args))
        st = x
        rv = st["rv"]
        k = rv["r"]
        if k == "use":
            return self.operand(rv["op"], depth, seen, at)
        if k == "cast":
            return self.operand(rv["op"], depth, seen, at)
        if k in ("ref", "rawptr"):
            return self.place(rv["place"], depth, seen, at)
        if k == "binop":
            op = rv["op"].replace("WithOverflow", "")
            a_, b_ = self.operand(rv["a"], depth + 1, seen, at), self.operand(rv["b"], depth + 1, seen, at)
            # shifts and masks by constants are the division / multiplication / remainder they stand for
            if op in ("Shr", "Shl", "BitAnd", "ShrUnchecked", "ShlUnchecked"):
                from core import numeric
                def cval(x):
                    m_ = re.match(r"^const:(\d+)(?:_[ui]\w+)?$", numeric(x))
                    return int(m_.group(1)) if m_ else None
                kb = cval(b_)
                if op.startswith("Shr") and kb is not None and kb < 64:
                    return "Div(%s,const:%d)" % (a_, 1 << kb)
                if op.startswith("Shl") and kb is not None and kb < 64:
                    return "Mul(%s,const:%d)" % (a_, 1 << kb)
                if op == "BitAnd":
                    for x_, y_ in ((a_, b_), (b_, a_)):
                        ky = cval(y_)
                        if ky is not None and ky > 0 and (ky & (ky + 1)) == 0:
                            return "Rem(%s,const:%d)" % (x_, ky + 1)
                        m_ = re.match(r"^Sub\((.*),const:1\)$", y_)
                        if m_ and cval(m_.group(1)) is not None and cval(m_.group(1)) & (cval(m_.group(1)) - 1) == 0:
                            return "Rem(%s,const:%d)" % (x_, cval(m_.group(1)))
            return "%s(%s,%s)" % (op, a_, b_)
        if k == "unop":
            if rv["op"] == "PtrMetadata":
                n_ = self._array_len(rv["a"])
                if n_ is not None:
                    return "const:%d" % n_      # length of a fixed-size array behind the (unsized) reference
                return "len(%s)" % self.operand(rv["a"], depth + 1, seen, at)
            return "%s(%s)" % (rv["op"], self.operand(rv["a"], depth + 1, seen, at))
        if k == "discriminant":
            return "discr(%s)" % self.place(rv["place"], depth + 1, seen, at)
        if k == "aggregate":
            if rv["agg"] == "adt":
                return "%s::%s(%s)" % (rv["adt"].split("::")[-1], rv["variant"], ",".join(self.operand(o, depth + 1, seen, at) for o in rv["ops"]))
            if rv["agg"] == "closure":
                return "closure:%s" % rv["closure"].split("::")[-1]
            return "%s(%s)" % (rv["agg"], ",".join(self.operand(o, depth + 1, seen, at) for o in rv["ops"]))
        if k == "repeat":
            return "repeat(%s)" % self.operand(rv["op"], depth + 1, seen, at)
        return "other"

    def _array_len(self, o, hops=0):
        """N if operand o is (a reference / unsizing cast of a reference to) a local of array type [T; N]."""
        if hops > 5 or o["k"] not in ("copy", "move") or o["place"]["proj"] not in ([], [{"p": "deref"}]) and any(e["p"] != "deref" for e in o["place"]["proj"]):
            return None
        l = o["place"]["local"]
        m = re.match(r"^&?(?:mut )?\[[^;\]]+; (\d+)\]$", self.fn.locals[l]["s"])
        if m:
            return int(m.group(1))
        ds = self.defs.get(l, [])
        if len(ds) != 1 or ds[0][1] == "t":
            return None
        rv = ds[0][2]["rv"] if len(ds[0]) > 2 and ds[0][2].get("s") == "assign" else None
        if rv is None:
            return None
        if rv["r"] in ("cast", "use"):
            return self._array_len(rv["op"], hops + 1)
        if rv["r"] in ("ref", "rawptr") and all(e["p"] == "deref" for e in rv["place"]["proj"]):
            m = re.match(r"^&?(?:mut )?\[[^;\]]+; (\d+)\]$", self.fn.locals[rv["place"]["local"]]["s"])
            if m:
                return int(m.group(1))
            return self._array_len({"k": "copy", "place": {"local": rv["place"]["local"], "proj": []}}, hops + 1)
        return None

    def place(self, p, depth=0, seen=(), at=None):
        s = self.local(p["local"], depth, seen, at)
        pending_variant = None
        for e in p["proj"]:
            k = e["p"]
            if pending_variant is not None and k == "field" and e["name"] == "0" and pending_variant in ("Some", "Ok", "Continue", "Err", "Break"):
                base = s[:-(len(pending_variant) + 4)]
                s = ("ok(%s)" if pending_variant in ("Some", "Ok", "Continue") else "err(%s)") % base
                if s.startswith("ok("):
                    s = _ok_payload(s)
                pending_variant = None
                continue
            pending_variant = None
            if k == "deref":
                continue
            if k == "field":
                if e.get("owner") == "tuple" and s.endswith(")") and ("(" in s) and s.split("(")[0] in ("Add", "Sub", "Mul"):
                    # checked arithmetic returns (value, overflowed)
                    if e["name"] == "0":
                        continue
                    s = "overflowed(%s)" % s
                    continue
                # a field of a struct value built right here (`Window { id, offset }.offset`): the operand it was built from
                # (only for structs the reference tree does not have - a parameter object introduced by a refactoring;
                # the library's own structs are mutable state, and their field is not what the constructor put there)
                if isinstance(e.get("i"), int) and e.get("owner") and e.get("owner") != "tuple" and s.endswith(")") and e["owner"] not in REFERENCE_ADTS:
                    short = e["owner"].split("::")[-1]
                    head = "%s::%s(" % (short, short)
                    if s.startswith(head):
                        parts = _split_top(s[len(head):-1])
                        if e["i"] < len(parts):
                            s = parts[e["i"]]
                            continue
                if e.get("owner") == "tuple" and s.startswith("tuple(") and s.endswith(")") and e["name"].isdigit():
                    parts = _split_top(s[6:-1])
                    if int(e["name"]) < len(parts):
                        s = parts[int(e["name"])]
                        continue
                s = "%s.%s" % (s, e["name"])
            elif k == "index":
                s = "%s[%s]" % (s, self.local(e["local"], depth + 1, seen, at))
            elif k == "constindex":
                s = "%s[%d]" % (s, e["offset"])
            elif k == "downcast":
                s = "%s as %s" % (s, e["variant"])
                pending_variant = e["variant"]
            elif k == "subslice":
                s = "%s[%d..]" % (s, e["from"])
        return s

    def term_operand(self, o, bb):
        """Operand of block bb's terminator: when the local it names is assigned in that very block (the usual shape
        of a test: `_d = discriminant(x); switchInt(_d)`), that assignment is the one that counts - copies of the
        block made by threading assign the same local elsewhere."""
        if o["k"] in ("copy", "move") and not o["place"]["proj"]:
            l = o["place"]["local"]
            stmts = self.fn.blocks[bb]["stmts"]
            for i in range(len(stmts) - 1, -1, -1):
                st = stmts[i]
                if st["s"] == "assign" and st["place"]["local"] == l:
                    if st["place"]["proj"]:
                        break
                    return self._def((bb, i, st), 0, (l,))
        return self.operand(o)

    def operand(self, o, depth=0, seen=(), at=None):
        k = o["k"]
        if k in ("copy", "move"):
            return self.place(o["place"], depth, seen, at)
        if k == "const":
            if "named" in o and not o.get("promoted") and "variant" in o and "enum" in o:
                # `const DIR_INIT: SectorInit = SectorInit::Dir;` - a name for a variant is that variant
                return "const:%s::%s" % (o["enum"].split("::")[-1], o["variant"])
            if "named" in o and not o.get("promoted"):
                return "const:%s" % o["named"].split("::")[-1]
            if "val" in o:
                return "const:%s" % o["val"]
            if "valstr" in o:
                return "const:%s" % o["valstr"]
            if "variant" in o:
                return "const:%s::%s" % (o["enum"].split("::")[-1], o["variant"])
            if "str" in o:
                return "str:%r" % o["str"]
            if "fndef" in o:
                return "fn:%s" % short_fn(o["fndef"])
            if o.get("promoted") and "promoted_val" in o:
                val = o["promoted_val"].replace("const ", "")
                return "const:%s" % "::".join(val.split("::")[-2:]) if "::" in val else "const:%s" % val
            if o.get("promoted"):
                rep = o.get("repr", "")
                try:
                    idx = int(rep[rep.rindex("promoted[") + 9:rep.rindex("]")])
                    val = self.fn.d.get("promoted", [])[idx]
                    val = val.replace("const ", "")
                    return "const:%s" % "::".join(val.split("::")[-2:]) if "::" in val else "const:%s" % val
                except (ValueError, IndexError):
                    return "promoted:?"
            return "const:%s" % o.get("repr", "?")
        return k


class Guards:
    """A5: for each point-graph node the set of switch edges every path from
    the entry must take, rendered as condition atoms."""

    def __init__(self, ctx, fn):
        self.fn = fn
        self.pg = ctx.pg(fn)
        self.prov = Prov(fn)
        self._dom = None
        self._promoted = ctx
        self._adts = ctx.fx.adts

    def _edges(self):
        out = []
        for bb, blk in enumerate(self.fn.blocks):
            if blk["cleanup"] or blk["term"]["t"] != "switch":
                continue
            t = blk["term"]
            tgts = [(str(v), b) for v, b in t["arms"]] + [("otherwise", t["otherwise"])]
            for k, (val, tgt) in enumerate(tgts):
                out.append((("e", bb, k), bb, val, [x for x, _ in tgts]))
        return out

    def _compute(self):
        pg = self.pg
        allreach = pg.reach([pg.entry()])
        self._dom = {}
        for (e, bb, val, vals) in self._edges():
            if e not in allreach:
                continue
            r = pg.reach([pg.entry()], avoid={e})
            self._dom[e] = (allreach - r, bb, val, vals)
        # switches with several arms: a node behind the switch that only SOME arms can reach excludes the others
        self._multi = []
        by_bb = {}
        for (e, bb, val, vals) in self._edges():
            by_bb.setdefault(bb, []).append((e, val, vals))
        for bb, es in by_bb.items():
            if len(es) < 3 or ("t", bb) not in allreach:
                continue
            if self._variant_names(bb) is None:
                continue
            domset = allreach - pg.reach([pg.entry()], avoid={("t", bb)})
            reach_k = [(val, pg.reach([e])) for (e, val, vals) in es if e in allreach]
            self._multi.append((bb, domset, reach_k, es[0][2]))

    def atoms_at(self, node, _depth=0):
        if self._dom is None:
            self._compute()
        memo = self.__dict__.setdefault("_memo", {})
        if node in memo:
            return memo[node]
        memo[node] = []          # cut recursion through loops
        out = []
        for e, (dom, bb, val, vals) in self._dom.items():
            if node in dom and node != e:
                out.extend(self.describe_all(bb, val, vals))
                if _depth < 3:
                    out.extend(self._refine(bb, val, vals, _depth))
        for (bb, domset, reach_k, vals) in getattr(self, "_multi", []):
            if node not in domset or node == ("t", bb):
                continue
            can = [val for (val, rk) in reach_k if node in rk]
            if 0 < len(can) < len(reach_k) and len(can) > 1:
                names = self._variant_names(bb) or {}
                cond = self.prov.term_operand(self.fn.blocks[bb]["term"]["discr"], bb)
                inner = cond[6:-1] if cond.startswith("discr(") else cond
                for (val, rk) in reach_k:
                    if val not in can and val != "otherwise":
                        out.append("%s is not %s" % (inner, names.get(val, "#" + val)))
                if "otherwise" not in can:
                    # only listed arms lead here (`A | B => ..`): every variant that is none of them is excluded
                    for k_, n_ in names.items():
                        if k_ not in can:
                            a_ = "%s is not %s" % (inner, n_)
                            if a_ not in out:
                                out.append(a_)
        # `if !seen.insert(x) { refuse }`: insert answered true, so x was not in the set before - the same fact as a
        # `contains` test that answered false (and the other way round)
        for a in list(out):
            m_ = re.match(r"^(!?)\((.*)::insert\((.*)\)\)$", a)
            if m_ and ("HashSet" in m_.group(2) or "<T, S, A>" in m_.group(2) or "BTreeSet" in m_.group(2) or "hash::set" in m_.group(2)):
                out.append("%s(%s::contains(%s))" % ("!" if m_.group(1) == "" else "", m_.group(2), m_.group(3)))
        # `match a.cmp(&b) { Less => .., Equal => .., Greater => .. }` on integers is the comparison spelled out
        for a in list(out):
            m_ = re.match(r"^(?:Ord for (?:usize|u64|u32|u16|u8|i64|i32)>::cmp|(?:usize|u64|u32|u16|u8|i64|i32)::cmp)\((.*)\) is (not )?(Less|Equal|Greater)$", a)
            if not m_:
                continue
            ps_ = _split_top(m_.group(1))
            if len(ps_) != 2:
                continue
            x_, y_ = ps_
            op_ = {("", "Less"): ("Lt", "Gt"), ("", "Equal"): ("Eq", "Eq"), ("", "Greater"): ("Gt", "Lt"),
                   ("not ", "Less"): ("Ge", "Le"), ("not ", "Equal"): ("Ne", "Ne"), ("not ", "Greater"): ("Le", "Ge")}[(m_.group(2) or "", m_.group(3))]
            out.append("(%s(%s,%s))" % (op_[0], x_, y_))
            out.append("(%s(%s,%s))" % (op_[1], y_, x_))
        # x > max(a, b) implies x > a and x > b; x < min(a, b) likewise (and the non-strict forms)
        more = []
        for a in out:
            m_ = re.match(r"^\((Gt|Ge|Lt|Le)\((.*)\)\)$", a)
            if not m_:
                continue
            ps_ = _split_top(m_.group(2))
            if len(ps_) != 2:
                continue
            op_, x_, y_ = m_.group(1), ps_[0], ps_[1]
            mm_ = re.match(r"^(?:\w+::)*(max|min)\((.*)\)$", y_)
            if mm_ and ((op_ in ("Gt", "Ge") and mm_.group(1) == "max") or (op_ in ("Lt", "Le") and mm_.group(1) == "min")):
                for part in _split_top(mm_.group(2)):
                    more.append("(%s(%s,%s))" % (op_, x_, part))
        out.extend(more)
        # a mode test hoisted into a local (`let strict = validation.is_strict(); .. if strict {..}`) is the same
        # test: name the call it stands for beside the variable
        extra = []
        for a in out:
            m_ = re.match(r"^(!?)\(var:(\w+)\)$", a)
            if not m_:
                continue
            names_ = getattr(self, "_names_by_var", None)
            if names_ is None:
                names_ = self._names_by_var = {nm: lo for lo, nm in self.fn.debug_names().items()}
            lo_ = names_.get(m_.group(2))
            ds_ = self.prov.defs.get(lo_, []) if lo_ is not None else []
            if len(ds_) == 1 and self.fn.locals[lo_]["s"] == "bool":
                e_ = self.prov._def(ds_[0], 0, (lo_,))
                if re.search(r"::is_strict\(", e_) and "(" in e_ and not e_.startswith("phi("):
                    extra.extend(canon_bool(e_, m_.group(1) == ""))
        out.extend(extra)
        memo[node] = sorted(set(out))
        return memo[node]

    def _refine(self, bb, val, vals, depth):
        """The switch at bb tests the variant of a local that was assigned constant variants at several places
        (`let kind = if a { Kind::X } else if b { Kind::Y } else { Kind::Z }; match kind {..}`).  Taking the arm
        for one variant means control came through an assignment of that variant: whatever holds at every such
        assignment holds here too."""
        blk = self.fn.blocks[bb]
        t = blk["term"]
        if t["discr"]["k"] not in ("copy", "move") or t["discr"]["place"]["proj"]:
            return []
        dl = t["discr"]["place"]["local"]
        src = None
        for st in blk["stmts"]:
            if st["s"] == "assign" and st["place"]["local"] == dl and not st["place"]["proj"] and st["rv"]["r"] == "discriminant" and not st["rv"]["place"]["proj"]:
                src = st["rv"]["place"]["local"]
        if src is None:
            return self._refine_bool(bb, val, vals, depth)
        names = self._variant_names(bb)
        if not names:
            return []
        defs = self.prov.defs.get(src, [])
        if len(defs) < 2:
            return []
        want = None if val == "otherwise" else names.get(val)
        excluded = {names.get(v) for v in vals if v != "otherwise"} if val == "otherwise" else set()
        consistent = []
        for d in defs:
            st = d[2] if len(d) > 2 else None
            if d[1] == "t" or st is None or st.get("s") != "assign":
                return []
            rv = st["rv"]
            vn = None
            if rv["r"] == "aggregate" and rv.get("agg") == "adt" and rv.get("variant"):
                vn = "%s::%s" % (rv["adt"].split("::")[-1], rv["variant"])
                if vn not in names.values():
                    vn = rv["variant"]
            elif rv["r"] == "use" and rv["op"]["k"] == "const" and "variant" in rv["op"]:
                vn = "%s::%s" % (rv["op"]["enum"].split("::")[-1], rv["op"]["variant"])
            if vn is None:
                return []
            if (want is not None and vn == want) or (want is None and vn not in excluded):
                consistent.append(("s", d[0], d[1]))
        if not consistent:
            return []
        common = None
        for n in consistent:
            a = set(self.atoms_at(n, depth + 1))
            common = a if common is None else (common & a)
        return sorted(common or [])

    def _refine_bool(self, bb, val, vals, depth):
        """`let flag = a || b; if flag {..}`: the flag is assigned `true` under a, and `b` otherwise.  On the arm
        where the flag is false, every assignment that could have produced false holds its condition negated, and
        whatever held where it was made; likewise for true."""
        t = self.fn.blocks[bb]["term"]
        others = [v for v in vals if v != val]
        if val == "0":
            pol = False
        elif (val == "otherwise" and others == ["0"]) or (val == "1" and "0" in others):
            pol = True
        else:
            return []
        l = t["discr"]["place"]["local"]
        if self.fn.locals[l]["s"] != "bool":
            return []
        # follow a plain copy of the flag
        defs = self.prov.defs.get(l, [])
        hops = 0
        while len(defs) == 1 and defs[0][1] != "t" and len(defs[0]) > 2 and defs[0][2].get("s") == "assign" and defs[0][2]["rv"]["r"] == "use" \
                and defs[0][2]["rv"]["op"]["k"] in ("copy", "move") and not defs[0][2]["rv"]["op"]["place"]["proj"] and hops < 4:
            l = defs[0][2]["rv"]["op"]["place"]["local"]
            defs = self.prov.defs.get(l, [])
            hops += 1
        if len(defs) < 2:
            return []
        common = None
        for d in defs:
            if d[1] == "t":
                # the flag takes the result of a call (`a == b` on a non-primitive type, a predicate function)
                here = set(self.atoms_at(("t", d[0]), depth + 1))
                here |= set(canon_bool(self.prov._def(d, 1, (l,)), pol))
                common = here if common is None else (common & here)
                continue
            if len(d) < 3 or d[2].get("s") != "assign":
                return []
            rv = d[2]["rv"]
            node = ("s", d[0], d[1])
            here = set(self.atoms_at(node, depth + 1))
            if rv["r"] == "use" and rv["op"]["k"] == "const":
                cv = str(rv["op"].get("val", rv["op"].get("repr", "")))
                cval = cv in ("1", "true", "const true")
                if cval != pol:
                    continue            # this assignment cannot have produced the observed value
            else:
                e = self.prov._def(d, 1, (l,))
                here |= set(canon_bool(e, pol))
            common = here if common is None else (common & here)
        return sorted(common or [])

    def describe(self, bb, val, vals):
        """Canonical atom for taking the edge labelled `val` out of block bb (first of describe_all)."""
        xs = self.describe_all(bb, val, vals)
        return xs[0] if xs else None

    # -- canonical atoms --------------------------------------------------
    def _variant_names(self, bb):
        """value -> variant name for the discriminant switched on in block bb, or None."""
        blk = self.fn.blocks[bb]
        t = blk["term"]
        dl = t["discr"]["place"]["local"] if t["discr"]["k"] in ("copy", "move") else None
        pty = None
        for st in blk["stmts"]:
            if st["s"] == "assign" and st["place"]["local"] == dl and st["rv"]["r"] == "discriminant":
                pty = st["rv"]["place"].get("ty", "")
        if pty is None:
            return None
        pty = pty.lstrip("&").strip()
        if pty.startswith("std::option::Option<"):
            return {"0": "None", "1": "Some"}
        if pty.startswith("std::result::Result<"):
            return {"0": "Ok", "1": "Err"}
        if pty.startswith("std::ops::ControlFlow<"):
            if pty.startswith("std::ops::ControlFlow<std::option::Option<"):
                return {"0": "Some", "1": "None"}
            return {"0": "Ok", "1": "Err"}
        if pty.startswith("std::cmp::Ordering"):
            return {"255": "Less", "0": "Equal", "1": "Greater"}
        adts = getattr(self, "_adts", None)
        if adts:
            a = adts.get(pty.split("<")[0])
            if a and a["is_enum"]:
                short = a["path"].split("::")[-1]
                return {str(i): "%s::%s" % (short, v["name"]) for i, v in enumerate(a["variants"])}
        return None

    def describe_all(self, bb, val, vals):
        t = self.fn.blocks[bb]["term"]
        cond = self.prov.term_operand(t["discr"], bb)
        others = [v for v in vals if v != val]
        if cond.startswith("discr("):
            inner = cond[6:-1]
            names = self._variant_names(bb)
            if names is None:
                if val == "otherwise":
                    return ["%s !in {%s}" % (inner, ",".join(others))]
                return ["%s is #%s" % (inner, val)]
            if val != "otherwise":
                return ["%s is %s" % (inner, names.get(val, "#" + val))]
            out = ["%s is not %s" % (inner, names.get(o, "#" + o)) for o in others]
            rest = [n for k, n in names.items() if k not in others]
            if len(rest) == 1:
                out.insert(0, "%s is %s" % (inner, rest[0]))
            return out
        # boolean conditions
        if val == "0":
            pol = False
        elif val == "otherwise" and others == ["0"]:
            pol = True
        elif val == "1" and "0" in others:
            pol = True
        else:
            # `match x { CONST => .., other => .. }` on an integer: the same facts as `x == CONST` / `x != CONST`
            if val == "otherwise":
                out_ = ["%s !in {%s}" % (cond, ",".join(others))]
                for o_ in others:
                    if re.match(r"^\d+$", str(o_)):
                        out_ += ["(Ne(%s,const:%s))" % (cond, o_), "(Ne(const:%s,%s))" % (o_, cond)]
                return out_
            out_ = ["%s == %s" % (cond, val)]
            if re.match(r"^\d+$", str(val)):
                out_ += ["(Eq(%s,const:%s))" % (cond, val), "(Eq(const:%s,%s))" % (val, cond)]
            return out_
        return canon_bool(cond, pol)


NEGREL = {"Lt": "Ge", "Ge": "Lt", "Gt": "Le", "Le": "Gt", "Eq": "Ne", "Ne": "Eq"}
MIRROR = {"Lt": "Gt", "Gt": "Lt", "Le": "Ge", "Ge": "Le", "Eq": "Eq", "Ne": "Ne"}


def canon_bool(cond, pol):
    """Canonical atom(s) for boolean provenance `cond` being true (pol) or false."""
    import re as _re
    while cond.startswith("Not(") and cond.endswith(")"):
        cond = cond[4:-1]
        pol = not pol
    m = _re.match(r"^(Lt|Le|Gt|Ge|Eq|Ne)\((.*)\)$", cond)
    if m:
        parts = _split_top(m.group(2))
        if len(parts) == 2:
            op = m.group(1) if pol else NEGREL[m.group(1)]
            a, b = parts
            ec = _enum_const(b) or _enum_const(a)
            if op in ("Eq", "Ne") and ec:
                other = a if _enum_const(b) else b
                return ["%s is %s%s" % (other, "" if op == "Eq" else "not ", ec)]
            out = ["(%s(%s,%s))" % (op, a, b)]
            if MIRROR[op] != op:
                out.append("(%s(%s,%s))" % (MIRROR[op], b, a))
            elif a != b:
                out.append("(%s(%s,%s))" % (op, b, a))
            return out
    m = _re.match(r"^(?:[\w<>&' ,\[\]]*::)?(eq|ne)\((.*)\)$", cond)
    if m and ("PartialEq" in cond.split("(")[0] or cond.startswith("eq(") or cond.startswith("ne(") or "::eq(" in cond.split(",")[0] or "::ne(" in cond.split(",")[0]):
        parts = _split_top(m.group(2))
        if len(parts) == 2:
            is_eq = (m.group(1) == "eq") == pol
            a, b = parts
            ec = _enum_const(b) or _enum_const(a)
            if ec:
                other = a if _enum_const(b) else b
                return ["%s is %s%s" % (other, "" if is_eq else "not ", ec)]
            op = "Eq" if is_eq else "Ne"
            return ["(%s(%s,%s))" % (op, a, b), "(%s(%s,%s))" % (op, b, a)]
    m = _re.match(r"^Option::(is_none|is_some)\((.*)\)$", cond)
    if m:
        some = (m.group(1) == "is_some") == pol
        return ["%s is %s" % (m.group(2), "Some" if some else "None")]
    m = _re.match(r"^Result::(is_ok|is_err)\((.*)\)$", cond)
    if m:
        ok = (m.group(1) == "is_ok") == pol
        return ["%s is %s" % (m.group(2), "Ok" if ok else "Err")]
    m = _re.match(r"^(?:Vec|<impl \[T\]>|String|<impl str>|VecDeque)::is_empty\((.*)\)$", cond)
    if m:
        op = "Eq" if pol else "Ne"
        return ["(%s(len(%s),const:0))" % (op, m.group(1)), "(%s(const:0,len(%s)))" % (op, m.group(1))]
    return ["(%s)" % cond if pol else "!(%s)" % cond]


def _enum_const(x):
    import re as _re
    m = _re.match(r"^const:([A-Z]\w*::[A-Z]\w*)$", x)
    if m and not m.group(1).startswith("consts::"):
        return m.group(1)
    m = _re.match(r"^(?:const:)?(?:<&\w+>::)?(?:Option::)?Some\((.*)\)$", x)
    return None


def guards(ctx, fn):
    c = ctx.__dict__.setdefault("_guards", {})
    g = c.get(fn.path)
    if g is None:
        g = c[fn.path] = Guards(ctx, fn)
    return g


def expand_var(f, p, pr=None):
    """If p is `var:NAME` (a multiply-defined named local), the provenance of each of its definitions."""
    import re as _re
    m = _re.match(r"^var:(\w+)$", p)
    if not m:
        return [p]
    pr = pr or Prov(f)
    names = {nm: l for l, nm in f.debug_names().items()}
    l = names.get(m.group(1))
    if l is None:
        return [p]
    out = []
    for d in pr.defs.get(l, []):
        dp = pr._def(d, 0, ())
        if dp != p:
            out.append(dp)
    return out or [p]


def prov_eq(a, b):
    """Equality of two provenance strings up to depth truncation: a `_` (the cut of a too deep sub-expression) in one
    of them stands for whatever the other has there."""
    if a == b:
        return True
    import re as _re

    def rx(x):
        parts = _re.split(r"(?<=[(,])_(?=[),])", x)
        return "^" + ".*".join(_re.escape(p_) for p_ in parts) + "$"
    for x, y in ((a, b), (b, a)):
        if "_" in x and _re.search(r"(?<=[(,])_(?=[),])", x):
            try:
                if _re.match(rx(x), y):
                    return True
            except _re.error:
                pass
    return False
