"""Signed interval evaluation on MIR operands.

A value of integer type T is always inside T's range, so every "don't know" falls back to the type's range and the
evaluation is sound by construction; what it adds over bounds.MirBounds is lower bounds, signed and 128-bit types,
negation, `min` / `max` / `clamp` / `abs_diff` / `unsigned_abs`, saturating forms and the std time accessors.  Used to
discharge overflow checks and narrowing casts in code the audited tables have never seen (a rewritten conversion, a
new helper), where "no entry" must not mean "alarm" when plain arithmetic shows the operation cannot overflow."""
import re

from dataflow import assigned_locals
from facts import callee_name

BITS = {"u8": 8, "u16": 16, "u32": 32, "u64": 64, "u128": 128, "usize": 64, "i8": 8, "i16": 16, "i32": 32, "i64": 64, "i128": 128, "isize": 64}
MEM = (1 << 48)


def ty_range(ty):
    if ty in BITS:
        b = BITS[ty]
        if ty.startswith("u"):
            return (0, (1 << b) - 1)
        return (-(1 << (b - 1)), (1 << (b - 1)) - 1)
    if ty == "bool":
        return (0, 1)
    if ty == "char":
        return (0, 0x10FFFF)
    return None


def _hull(xs):
    return (min(x[0] for x in xs), max(x[1] for x in xs))


def _clip(iv, rng):
    """The part of iv inside rng; rng itself when iv is unknown or lies outside (a wrapped value can be anything)."""
    if rng is None:
        return iv
    if iv is None:
        return rng
    if iv[0] < rng[0] or iv[1] > rng[1]:
        return rng if (iv[1] < rng[0] or iv[0] > rng[1]) else (max(iv[0], rng[0]), min(iv[1], rng[1]))
    return iv


def arith(op, a, b):
    """Exact interval of `a op b` over the integers (None = unknown)."""
    if a is None or b is None:
        return None
    if op == "Add":
        return (a[0] + b[0], a[1] + b[1])
    if op == "Sub":
        return (a[0] - b[1], a[1] - b[0])
    if op == "Mul":
        ps = [a[0] * b[0], a[0] * b[1], a[1] * b[0], a[1] * b[1]]
        return (min(ps), max(ps))
    if op == "Div":
        if b[0] <= 0 <= b[1]:
            if b[0] >= 0 and a[0] >= 0:      # unsigned: the zero divisor panics separately; x / d <= x
                return (0, a[1])
            return None
        ps = [int(a[0] / b[0]), int(a[0] / b[1]), int(a[1] / b[0]), int(a[1] / b[1])]
        # int(x / y) goes through floats: redo with exact truncating division
        def tdiv(x, y):
            q = abs(x) // abs(y)
            return q if (x >= 0) == (y >= 0) else -q
        ps = [tdiv(a[0], b[0]), tdiv(a[0], b[1]), tdiv(a[1], b[0]), tdiv(a[1], b[1])]
        return (min(ps), max(ps))
    if op == "Rem":
        if a[0] >= 0 and b[0] >= 0 and b[1] > 0:      # unsigned: a zero divisor panics separately; x % d <= d - 1
            return (0, min(a[1], b[1] - 1))
        if b[0] > 0:
            return (-(b[1] - 1), b[1] - 1)
        return None
    if op == "BitAnd":
        if a[0] >= 0 and b[0] >= 0:
            return (0, min(a[1], b[1]))
        if a[0] >= 0:
            return (0, a[1])
        if b[0] >= 0:
            return (0, b[1])
        return None
    if op == "Shr":
        if a[0] >= 0 and b[0] >= 0:
            return (a[0] >> min(b[1], 200), a[1] >> min(b[0], 200))
        return None
    if op == "Shl":
        if a[0] >= 0 and 0 <= b[0] and b[1] < 128:
            return (a[0] << b[0], a[1] << b[1])
        return None
    return None


class Intervals:
    def __init__(self, ctx, fn):
        self.ctx = ctx
        self.fn = fn
        self.defs = assigned_locals(fn)
        tbl = ctx.table("sinks")
        self.call_bounds = [(re.compile(k), int(v)) for k, v in tbl.get("call_bounds", {}).items()]
        self.field_bounds = tbl.get("field_bounds", {})
        self.param_bounds = tbl.get("param_bounds", {})
        self._memo = {}
        self._busy = set()

    # ---------------------------------------------------------------- operands
    def operand(self, o, depth=0):
        if o["k"] == "const":
            rng = ty_range(o.get("ty", ""))
            v = None
            if "val" in o:
                v = int(o["val"])
            elif "valstr" in o:
                try:
                    v = int(o["valstr"])
                except ValueError:
                    v = None
            if v is None:
                return rng
            if rng is not None and v > rng[1] and rng[0] < 0:
                v -= (rng[1] - rng[0] + 1)      # a negative constant given as its two's complement
            return (v, v)
        if o["k"] not in ("copy", "move"):
            return None
        return self.place(o["place"], depth)

    def place(self, p, depth=0):
        rng = ty_range(p.get("ty", "")) if p["proj"] else ty_range(self.fn.locals[p["local"]]["s"])
        if not p["proj"]:
            return _clip(self.local(p["local"], depth), rng)
        fields = [e for e in p["proj"] if e["p"] == "field"]
        iv = None
        if fields:
            e = fields[-1]
            owner = e.get("owner", "")
            if owner == "tuple" and len(fields) == 1 and not any(x["p"] == "deref" for x in p["proj"]):
                iv = self.local(p["local"], depth, tuple_field=int(e["name"]) if e["name"].isdigit() else None)
            else:
                key = "%s.%s" % (owner.split("::")[-1], e["name"])
                if key in self.field_bounds:
                    iv = (0, int(self.field_bounds[key]))
                elif any(x["p"] == "downcast" for x in p["proj"]) and len(fields) == 1:
                    iv = self.local(p["local"], depth)      # payload of Option / Result: what was wrapped
        return _clip(iv, rng)

    def local(self, l, depth=0, tuple_field=None):
        key = (l, tuple_field)
        if key in self._memo:
            return self._memo[key]
        fn = self.fn
        ty = fn.locals[l]["s"]
        rng = ty_range(ty)
        if tuple_field is not None:
            m = re.match(r"^\(([\w, ]+?),?\)$", ty)
            parts = [x.strip() for x in m.group(1).split(",")] if m else []
            rng = ty_range(parts[tuple_field]) if tuple_field < len(parts) else None
        if depth > 14 or key in self._busy:
            return rng                      # a loop-carried value: anything of its type
        defs = self.defs.get(l, [])
        if not defs:
            if 1 <= l <= fn.arg_count:
                nm = fn.debug_names().get(l, "")
                k = "%s|%s" % (fn.path, nm)
                if k in self.param_bounds:
                    return _clip((0, int(self.param_bounds[k])), rng)
            return rng
        self._busy.add(key)
        try:
            ivs = []
            for d in defs:
                iv = self._def(d, depth + 1, tuple_field)
                if iv is None:
                    ivs = None
                    break
                ivs.append(iv)
            out = _clip(_hull(ivs), rng) if ivs else rng
        finally:
            self._busy.discard(key)
        self._memo[key] = out
        return out

    # ------------------------------------------------------------- definitions
    def _def(self, d, depth, tuple_field=None):
        bb, idx, x = d
        if idx == "t":
            return self._call(x, depth)
        if x["place"]["proj"]:
            return None                     # a partial store into the local
        rv = x["rv"]
        k = rv["r"]
        if k == "use":
            return self.operand(rv["op"], depth)
        if k == "cast":
            src = self.operand(rv["op"], depth)
            rng = ty_range(rv.get("ty", ""))
            if rng is None:
                return None
            if src is not None and rng[0] <= src[0] and src[1] <= rng[1]:
                return src
            return rng
        if k == "binop":
            op = rv["op"]
            a, b = self.operand(rv["a"], depth), self.operand(rv["b"], depth)
            if op.endswith("WithOverflow"):
                if tuple_field == 1:
                    return (0, 1)
                if tuple_field != 0:
                    return None
                return arith(op[:-len("WithOverflow")], a, b)     # clipped to the type by the caller
            if op in ("Eq", "Ne", "Lt", "Le", "Gt", "Ge"):
                return (0, 1)
            return arith(op, a, b)
        if k == "aggregate" and tuple_field is not None and isinstance(rv.get("ops"), list) and tuple_field < len(rv["ops"]) and not rv.get("variant"):
            return self.operand(rv["ops"][tuple_field], depth)      # the field of a tuple built here
        if k == "unop":
            a = self.operand(rv["a"], depth) if isinstance(rv.get("a"), dict) else None
            if rv.get("op") == "Neg" and a is not None:
                return (-a[1], -a[0])
            if rv.get("op") == "Not" and a is not None and a[0] >= 0 and a[1] <= 1:
                return (0, 1)
            return None
        return None

    def _call(self, t, depth):
        nm = callee_name(t) or ""
        short = nm.split("::")[-1]
        args = t["args"]
        A = lambda i: self.operand(args[i], depth) if i < len(args) else None
        if short == "min" and len(args) >= 2:
            a, b = A(0), A(1)
            if a is not None and b is not None:
                return (min(a[0], b[0]), min(a[1], b[1]))
            return None
        if short == "max" and len(args) >= 2:
            a, b = A(0), A(1)
            if a is not None and b is not None:
                return (max(a[0], b[0]), max(a[1], b[1]))
            return None
        if short == "clamp" and len(args) >= 3:
            a, lo, hi = A(0), A(1), A(2)
            if lo is not None and hi is not None:
                return (lo[0], hi[1])
            return None
        if short == "abs_diff" and len(args) >= 2:
            a, b = A(0), A(1)
            if a is not None and b is not None:
                return (0, max(abs(a[1] - b[0]), abs(b[1] - a[0])))
            return None
        if short in ("unsigned_abs", "abs") and args:
            a = A(0)
            if a is not None:
                return (0, max(abs(a[0]), abs(a[1])))
            return None
        if re.search(r"Duration::as_nanos$", nm):
            return (0, ((1 << 64) - 1) * 10**9 + 999_999_999)
        if re.search(r"Duration::(as_micros)$", nm):
            return (0, ((1 << 64) - 1) * 10**6 + 999_999)
        if re.search(r"Duration::(as_millis)$", nm):
            return (0, ((1 << 64) - 1) * 10**3 + 999)
        if re.search(r"Duration::subsec_nanos$", nm):
            return (0, 999_999_999)
        if re.search(r"Duration::subsec_micros$", nm):
            return (0, 999_999)
        if re.search(r"Duration::subsec_millis$", nm):
            return (0, 999)
        if re.search(r"char::len_utf16$", nm):
            return (1, 2)
        if re.search(r"char::len_utf8$", nm):
            return (1, 4)
        if re.search(r"::(count_ones|count_zeros|leading_zeros|trailing_zeros)$", nm):
            return (0, 128)
        if short in ("saturating_sub", "wrapping_sub", "checked_sub") and len(args) >= 2:
            a = A(0)
            if a is not None and a[0] >= 0:
                return (0, a[1])            # unsigned: never above the minuend (payload of checked_sub likewise)
            return None
        if short in ("saturating_add", "saturating_mul") and len(args) >= 2:
            return arith("Add" if short.endswith("add") else "Mul", A(0), A(1))     # clipped to the type by the caller
        if short == "div_ceil" and len(args) >= 2:
            a = A(0)
            if a is not None and a[0] >= 0:
                return (0, a[1])
            return None
        if short == "unwrap_or" and len(args) >= 2:
            a, b = A(0), A(1)
            return _hull([a, b]) if a is not None and b is not None else None
        if short in ("branch", "deref", "deref_mut", "unwrap", "expect", "clone", "copied", "cloned", "into", "from", "as_ref", "borrow") and args:
            return A(0)
        for rx, v in self.call_bounds:
            if rx.search(nm):
                return (0, v)
        return None


def fits(iv, ty):
    rng = ty_range(ty)
    return iv is not None and rng is not None and rng[0] <= iv[0] and iv[1] <= rng[1]
