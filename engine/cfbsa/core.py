"""Rule plumbing: contexts, findings, results."""
import json
import os

from cfg import PG
from cg import CallGraph
from facts import Facts

VERIF = os.path.dirname(os.path.dirname(os.path.dirname(os.path.abspath(__file__))))


class Ctx:
    def __init__(self, facts_path, tables=None, name="repo"):
        self.name = name
        kf = (tables or {}).get("known_functions", {})
        self.fx = Facts(facts_path, kf.get("functions"), kf.get("signatures"), kf.get("fields"), kf.get("params"), kf.get("fingerprints"), kf.get("locals"), kf.get("consts"))
        import prov as _prov
        _prov.REFERENCE_ADTS = set((kf.get("fields") or {}).keys())
        self.cg = CallGraph(self.fx)
        self.tables = tables or {}
        self._pg = {}
        # named integer constants by short name (only names that are unique), for value-wise matching of atoms
        global CONST_VALUES
        vals = {}
        for cp, cv in self.fx.consts.items():
            vals.setdefault(cp.split("::")[-1], set()).add(cv)
        CONST_VALUES = {k: next(iter(v)) for k, v in vals.items() if len(v) == 1}

    def pg(self, fn):
        g = self._pg.get(fn.path)
        if g is None:
            g = self._pg[fn.path] = PG(fn)
        return g

    def table(self, name):
        return self.tables.get(name, {})

    def is_reference_tree(self):
        """Is /repo's src/ exactly one of the trees the tables were frozen on (pinned commit + this work's fix: commits)?"""
        r = getattr(self, "_is_ref", None)
        if r is None:
            import extract
            try:
                h = extract.src_hash(getattr(self, "repo_dir", "/repo"))
            except Exception:
                h = None
            r = self._is_ref = h in self.tables.get("reference", {}).get("src_hashes", [])
        return r


class Finding:
    def __init__(self, rule, key, msg, fn=None, span=None, path=None, extra=None):
        self.rule = rule
        self.key = key          # stable: no line numbers
        self.msg = msg
        self.fn = fn.path if fn is not None and hasattr(fn, "path") else fn
        self.file = span["file"] if span else (fn.span["file"] if fn is not None and hasattr(fn, "span") else None)
        self.line = span["line"] if span else (fn.span["line"] if fn is not None and hasattr(fn, "span") else None)
        self.path = path
        self.extra = extra or {}

    def to_json(self):
        return {"rule": self.rule, "key": self.key, "message": self.msg, "function": self.fn,
                "file": self.file, "line": self.line, "path": self.path, **self.extra}

    def __str__(self):
        loc = "%s:%s" % (self.file, self.line) if self.file else "?"
        s = "[%s] %s: %s (in %s)" % (self.rule, loc, self.msg, self.fn)
        if self.path:
            s += "\n      path: %s" % self.path
        return s


class RuleResult:
    def __init__(self, rule, clause=""):
        self.rule = rule
        self.clause = clause
        self.obligations = 0
        self.discharged = 0
        self.nontrivial = 0     # obligations whose verdict needed a path / dataflow argument
        self.findings = []
        self.samples = []
        self.floors = {}        # name -> (count, floor)
        self.notes = []
        self.unclassified = []
        self.gone = []

    def ok(self, sample=None, nontrivial=False):
        self.obligations += 1
        self.discharged += 1
        if nontrivial:
            self.nontrivial += 1
        if sample is not None and len(self.samples) < int(__import__("os").environ.get("CFBSA_SAMPLES","12")):
            self.samples.append(sample)

    def fail(self, finding, nontrivial=True):
        self.obligations += 1
        if nontrivial:
            self.nontrivial += 1
        self.findings.append(finding)

    def floor(self, name, count, floor):
        self.floors[name] = (count, floor)

    def floor_failures(self, reference=True):
        """Instance counts below the floor confirmed by reading.  On a reference tree any shortfall fails closed
        (the matcher went blind).  On a changed tree a small drift is what refactoring does to counts (two mode
        tests merged into one, a loop folded away) and is only recorded; losing more than half of a rule's
        instances still fails closed."""
        if reference:
            return [(n, c, f) for n, (c, f) in self.floors.items() if c < f]
        return [(n, c, f) for n, (c, f) in self.floors.items() if c * 2 < f]

    def floor_drift(self):
        return [(n, c, f) for n, (c, f) in self.floors.items() if c < f]

    def to_json(self):
        return {
            "rule": self.rule, "clause": self.clause, "obligations": self.obligations, "discharged": self.discharged,
            "nontrivial": self.nontrivial, "violations": [f.to_json() for f in self.findings],
            "floors": {n: {"count": c, "floor": f} for n, (c, f) in self.floors.items()},
            "samples": self.samples, "notes": self.notes, "unclassified": self.unclassified, "gone": self.gone,
        }


def load_tables():
    tdir = os.path.join(VERIF, "rules")
    out = {}
    if os.path.isdir(tdir):
        for f in sorted(os.listdir(tdir)):
            if f.endswith(".json"):
                with open(os.path.join(tdir, f)) as fh:
                    out[f[:-5]] = json.load(fh)
    return out


# ---- helpers shared by path rules ------------------------------------------
from cg import result_disposition  # noqa: E402


def is_result_ty(ty):
    return ty["s"].startswith("std::result::Result<")


def is_io_result_ty(ty):
    s = ty["s"]
    return s.startswith("std::result::Result<") and s.rstrip(">").endswith("std::io::Error")


class FnView:
    """Per-function derived info: dispositions of Result-returning calls and
    the point-graph nodes of their ok / err successors."""

    def __init__(self, ctx, fn):
        self.ctx = ctx
        self.fn = fn
        self.pg = ctx.pg(fn)
        self.calls = {c.bb: c for c in ctx.cg.calls[fn.path] if c.kind == "call"}
        self._disp = {}

    def disp(self, bb):
        d = self._disp.get(bb)
        if d is None:
            t = self.fn.blocks[bb]["term"]
            if t["t"] == "call" and not t["dest"]["proj"] and is_result_ty(self.fn.locals[t["dest"]["local"]]):
                d = result_disposition(self.fn, bb)
            else:
                d = {"kind": "n/a"}
            self._disp[bb] = d
        return d

    def ok_nodes(self, bb):
        d = self.disp(bb)
        if d["kind"] in ("try", "matched"):
            return self.pg.edge_node(d["switch_bb"], d["ok"])
        return []

    def err_nodes(self, bb):
        d = self.disp(bb)
        if d["kind"] in ("try", "matched"):
            out = self.pg.edge_node(d["switch_bb"], d["err"])
            if d["kind"] == "try":
                # the Break arm of a `?` only converts and returns the residual: the whole block is an error exit
                # (it may also be entered directly by a threaded error return of an inlined helper)
                out = out + [self.pg.entry_of(d["err"])]
            return out
        return []

    def all_err_nodes(self):
        """Nodes that only error exits pass: err successors of `?`/match, and
        statements that build `Err(..)` directly into the return place."""
        cached = self.__dict__.get("_all_err_nodes")
        if cached is not None:
            return list(cached)
        out = self._all_err_nodes_uncached()
        self.__dict__["_all_err_nodes"] = tuple(out)
        return out

    def _all_err_nodes_uncached(self):
        out = []
        for bb in self.calls:
            out += self.err_nodes(bb)
        # every `?` in the function, whatever produced the value it is applied to
        from cg import _switch_on_discr
        for bb, c in self.calls.items():
            if c.name.endswith("as std::ops::Try>::branch") and c.term.get("target") is not None and not c.term["dest"]["proj"]:
                m = _switch_on_discr(self.fn, c.term["target"], c.term["dest"]["local"])
                if m is not None and 1 in m:
                    out += self.pg.edge_node(c.term["target"], m[1]) + [self.pg.entry_of(m[1])]
        # the residual of a `?` converted straight into the return place: `return FromResidual::from_residual(r)`
        # (the switch that led here may have been resolved away when an inlined helper's returns were threaded)
        for bb, c in self.calls.items():
            if "FromResidual" in c.name and c.name.endswith("from_residual") and not c.term["dest"]["proj"] and c.term["dest"]["local"] == 0:
                out.append(("t", bb))
        for bb, blk in enumerate(self.fn.blocks):
            if blk["cleanup"]:
                continue
            for i, st in enumerate(blk["stmts"]):
                if st["s"] == "assign" and st["place"]["local"] == 0 and not st["place"]["proj"] and st["rv"]["r"] == "aggregate" \
                        and st["rv"].get("variant") == "Err" and "Result" in st["rv"].get("adt", ""):
                    out.append(("s", bb, i))
        # `Err(e)` built into a temporary whose only destination is the return place (the Err arm of a lowered
        # `.map(..)` / `.map_err(..)` on the function's last expression, an inlined helper's result)
        # one pass: for every local, where it is used and whether each use is a plain move into another local
        moved_to = {}       # local -> set of destination locals of `dest = move local`
        other_use = set()   # locals with any other use
        for blk in self.fn.blocks:
            if blk["cleanup"]:
                continue
            for st in blk["stmts"]:
                if st["s"] != "assign":
                    continue
                rv = st["rv"]
                plain = rv["r"] == "use" and not st["place"]["proj"] and isinstance(rv.get("op"), dict) and rv["op"].get("k") in ("copy", "move") and not rv["op"]["place"]["proj"]
                if plain:
                    moved_to.setdefault(rv["op"]["place"]["local"], set()).add(st["place"]["local"])
                    continue
                for k_ in ("op", "a", "b"):
                    o_ = rv.get(k_)
                    if isinstance(o_, dict) and o_.get("k") in ("copy", "move"):
                        other_use.add(o_["place"]["local"])
                for o_ in (rv.get("ops", []) if isinstance(rv.get("ops"), list) else []):
                    if o_.get("k") in ("copy", "move"):
                        other_use.add(o_["place"]["local"])
                if isinstance(rv.get("place"), dict):
                    other_use.add(rv["place"]["local"])
            t_ = blk["term"]
            for a_ in t_.get("args", []):
                if a_.get("k") in ("copy", "move"):
                    other_use.add(a_["place"]["local"])
            if t_["t"] == "switch" and t_["discr"].get("k") in ("copy", "move"):
                other_use.add(t_["discr"]["place"]["local"])
        ret_only = {0}
        for _ in range(4):
            for l_, dests in moved_to.items():
                if l_ not in ret_only and l_ not in other_use and dests <= ret_only:
                    ret_only.add(l_)
        for bb, blk in enumerate(self.fn.blocks):
            if blk["cleanup"]:
                continue
            for i, st in enumerate(blk["stmts"]):
                if st["s"] == "assign" and st["place"]["local"] in ret_only and st["place"]["local"] != 0 and not st["place"]["proj"] and st["rv"]["r"] == "aggregate" \
                        and st["rv"].get("variant") == "Err" and "Result" in st["rv"].get("adt", ""):
                    out.append(("s", bb, i))
        for tag in self.fn.d.get("inlined_err", []):
            out.append(tuple(tag))
        return out

    def call_nodes(self, pred):
        return [("t", bb) for bb, c in self.calls.items() if pred(c)]

    def stores_to_field(self, field, owner_sub=None):
        """Statement nodes assigning to a place whose last field projection is `field`."""
        out = []
        for bb, blk in enumerate(self.fn.blocks):
            if blk["cleanup"]:
                continue
            for i, st in enumerate(blk["stmts"]):
                if st["s"] != "assign":
                    continue
                fl = [e for e in st["place"]["proj"] if e["p"] == "field"]
                if fl and fl[-1]["name"] == field and (owner_sub is None or owner_sub in fl[-1]["owner"]):
                    out.append(("s", bb, i))
        return out


def view(ctx, fn):
    c = ctx.__dict__.setdefault("_views", {})
    v = c.get(fn.path)
    if v is None:
        v = c[fn.path] = FnView(ctx, fn)
    return v


import re as _re


def wild(a):
    """Atom / provenance with local and parameter names wildcarded (field paths kept)."""
    return _re.sub(r"(var|param):\w+", lambda m: m.group(0) if m.group(0) == "param:self" else m.group(1) + ":*", a)


CONST_VALUES = {}


def numeric(a):
    """The atom with named integer constants replaced by their values (`const:MAX_NAME_LEN_BYTES` -> `const:64`)."""
    return _re.sub(r"const:(?:\w+::)*([A-Za-z_]\w*)", lambda m: ("const:%d" % CONST_VALUES[m.group(1)]) if m.group(1) in CONST_VALUES else m.group(0), a)


def atoms_match(rx, atoms):
    """Does regex rx match one of the atoms, in its literal or its name-wildcarded spelling - or, for a regex that
    names a number, in the spelling where named constants are replaced by their values?"""
    num = bool(_re.search(r"const:\\?d|const:\d", rx))
    # a regex that names a constant of the reference tree also stands for its value (the code may spell the number)
    rxv = _re.sub(r"const:(?:\((?:\?:)?[\w:|\\]*\)\??)?([A-Z][A-Z0-9_]+)", lambda m: ("const:%d" % CONST_VALUES[m.group(1)]) if m.group(1) in CONST_VALUES else m.group(0), rx)
    for a in atoms:
        if _re.search(rx, a) or _re.search(rx, wild(a)):
            return True
        if (num or rxv != rx) and "const:" in a:
            n = numeric(a)
            if n != a and (_re.search(rx, n) or _re.search(rx, wild(n))):
                return True
            if rxv != rx and (_re.search(rxv, n) or _re.search(rxv, wild(n))):
                return True
    return False
