"""C05 / C11: R-SINK (guarded panic-capable sites), R-TERM (loop certificates), R-ALLOC (clamped allocations)."""
import re

from cfg import block_dominators, natural_loops
from cg import op_local, peel
from core import Finding, RuleResult, view
from dataflow import forward_taint, rv_places
from facts import callee_name
from prov import Prov, guards, _split_top

U64 = 1 << 64
U32 = 1 << 32
MEM = 1 << 48     # no in-memory length or position exceeds this


def surface(ctx, which):
    tbl = ctx.table("surface")
    roots = []
    for pat in tbl.get(which, []):
        if pat in ctx.fx.fns:
            roots.append(ctx.fx.fns[pat])
        else:
            rx = re.compile(pat)
            roots += [f for p, f in ctx.fx.fns.items() if rx.search(p)]
    return ctx.cg.reachable(roots)


# ------------------------------------------------------------------ sinks --

def enumerate_sinks(f):
    """Panic-capable sites of one function: dicts(kind, bb, ops, span, macro)."""
    out = []
    for bb, blk in enumerate(f.blocks):
        if blk["cleanup"]:
            continue
        t = blk["term"]
        if t["t"] == "assert":
            k = t["kind"]
            if k.startswith("UB:") or k == "Other":
                continue
            out.append({"kind": k, "bb": bb, "ops": t["ops"], "span": t["span"], "macro": None})
        elif t["t"] == "call":
            nm = callee_name(t) or ""
            short = nm.split("::")[-1]
            m = t["span"]["macros"]
            if short in ("index", "index_mut") and "Index" in nm:
                out.append({"kind": "Index", "bb": bb, "ops": t["args"], "span": t["span"], "macro": None, "callee": nm})
            elif short in ("unwrap", "expect", "unwrap_err") and ("Option" in nm or "Result" in nm):
                out.append({"kind": "Unwrap", "bb": bb, "ops": t["args"][:1], "span": t["span"], "macro": None, "callee": nm})
            elif "panicking::" in nm or "begin_panic" in nm or "assert_failed" in nm or nm.endswith("unreachable_display"):
                mac = None
                for x in m:
                    if x in ("debug_assert", "debug_assert_eq", "debug_assert_ne", "assert", "assert_eq", "assert_ne", "panic", "unreachable", "unimplemented", "todo"):
                        mac = x
                out.append({"kind": "Panic:" + (mac or "direct"), "bb": bb, "ops": [], "span": t["span"], "macro": mac, "callee": nm})
            elif short in ("copy_from_slice", "split_at", "split_at_mut", "swap_remove", "remove", "insert") and ("slice" in nm or "Vec" in nm) and short in ("copy_from_slice", "split_at", "split_at_mut"):
                out.append({"kind": "SliceOp:" + short, "bb": bb, "ops": t["args"], "span": t["span"], "macro": None, "callee": nm})
            elif nm.endswith("Duration::new"):
                out.append({"kind": "DurationNew", "bb": bb, "ops": t["args"], "span": t["span"], "macro": None, "callee": nm})
    return out


# --------------------------------------------------------- A8 intervals --

class Bounds:
    """Upper bounds of non-negative quantities, evaluated on provenance strings."""

    def __init__(self, ctx):
        self.tbl = ctx.table("sinks").get("bounds", {})
        self.consts = ctx.fx.consts

    def ub(self, p, width=None):
        """Exclusive-ish upper bound (value <= ub) or None when unknown."""
        p = p.strip()
        m = re.match(r"^const:(-?\d+)$", p)
        if m:
            return abs(int(m.group(1)))
        m = re.match(r"^const:(\w+)$", p)
        if m:
            for path, v in self.consts.items():
                if path.endswith("::" + m.group(1)):
                    return v
            return None
        for rx, b in self.tbl.items():
            if re.search(rx, p):
                return int(b)
        for op in ("Add", "Sub", "Mul", "Div", "Rem", "Shl", "Shr", "BitAnd"):
            if p.startswith(op + "(") and p.endswith(")"):
                parts = _split_top(p[len(op) + 1:-1])
                if len(parts) != 2:
                    return None
                a, b = self.ub(parts[0]), self.ub(parts[1])
                if op == "Rem":
                    return (b - 1) if b else a
                if op == "BitAnd":
                    xs = [x for x in (a, b) if x is not None]
                    return min(xs) if xs else None
                if op == "Div":
                    return a
                if op == "Sub":
                    return a
                if a is None or b is None:
                    return None
                if op == "Add":
                    return a + b
                if op == "Mul":
                    return a * b
                if op == "Shl":
                    return a << min(b, 64)
                return None
        m = re.match(r"^cmp::min\((.*)\)$", p) or re.match(r"^Ord::min\((.*)\)$", p)
        if m:
            parts = _split_top(m.group(1))
            xs = [self.ub(x) for x in parts]
            xs = [x for x in xs if x is not None]
            return min(xs) if xs else None
        m = re.match(r"^(cmp::max|Ord::max)\((.*)\)$", p)
        if m:
            parts = _split_top(m.group(2))
            xs = [self.ub(x) for x in parts]
            return None if any(x is None for x in xs) else max(xs)
        return None


def ty_limit(tystr):
    return {"u8": 1 << 8, "u16": 1 << 16, "u32": U32, "u64": U64, "usize": U64, "i64": 1 << 63, "i32": 1 << 31, "isize": 1 << 63}.get(tystr)


# ------------------------------------------------------- classification --

NEG = {"Lt": "Ge", "Ge": "Lt", "Gt": "Le", "Le": "Gt", "Eq": "Ne", "Ne": "Eq"}


def norm_atoms(atoms):
    """Rewrite `!(Lt(a,b))` as `(Ge(a,b))` etc. so guards can be matched uniformly."""
    out = []
    for a in atoms:
        m = re.match(r"^!\((Lt|Ge|Gt|Le|Eq|Ne)\((.*)\)\)$", a)
        if m:
            out.append("(%s(%s))" % (NEG[m.group(1)], m.group(2)))
        else:
            out.append(a)
    return out


def rel_atoms(atoms):
    """[(op, lhs, rhs)] for relational atoms."""
    out = []
    for a in norm_atoms(atoms):
        m = re.match(r"^\((Lt|Ge|Gt|Le|Eq|Ne)\((.*)\)\)$", a)
        if m:
            parts = _split_top(m.group(2))
            if len(parts) == 2:
                out.append((m.group(1), parts[0], parts[1]))
    return out


def key_of(p):
    """Provenance with local names wildcarded, for table matching."""
    return re.sub(r"(var|param):\w+", r"\1:*", p)


class Classifier:
    def __init__(self, ctx):
        self.ctx = ctx
        self.bounds = Bounds(ctx)
        self.tbl = ctx.table("sinks")
        self.nonzero = self.tbl.get("nonzero", [])
        self.entries = self.tbl.get("audited", [])

    def classify(self, f, s):
        g = guards(self.ctx, f)
        pr = g.prov
        node = ("t", s["bb"])
        atoms = g.atoms_at(node)
        ops = [pr.operand(o) for o in s["ops"]]
        kind = s["kind"]
        desc = "%s(%s)" % (kind, ", ".join(ops))
        rels = rel_atoms(atoms)
        auto = None
        if kind in ("DivisionByZero", "RemainderByZero"):
            # the divisor is the second operand of the Div/Rem that follows; the assert carries the dividend,
            # so look at the comparison operand: `_x = Eq(divisor, 0)`
            cond = pr.operand(f.blocks[s["bb"]]["term"]["cond"])
            m = re.match(r"^Eq\((.*),const:0\)$", cond)
            div = m.group(1) if m else cond
            desc = "%s(divisor=%s)" % (kind, div)
            b = self.bounds.ub(div)
            if re.match(r"^const:[1-9]\d*$", div) or any(re.search(rx, div) for rx in self.nonzero):
                auto = ("interval", "divisor is a non-zero constant or a listed non-zero quantity")
        elif kind.startswith("Overflow:"):
            op = kind.split(":")[1]
            t = f.blocks[s["bb"]]["term"]
            # result type from the tuple local that holds (value, overflowed)
            cl = op_local(t["cond"])
            tystr = None
            if t["cond"]["k"] in ("copy", "move"):
                base = f.locals[t["cond"]["place"]["local"]]["s"]
                m = re.match(r"^\((\w+), bool\)$", base)
                tystr = m.group(1) if m else None
            lim = ty_limit(tystr) if tystr else None
            desc = "%s<%s>(%s)" % (kind, tystr, ", ".join(ops))
            if op in ("Add", "Mul", "Shl") and lim:
                from bounds import MirBounds
                mb = MirBounds(self.ctx, f)
                a, b = mb.operand(s["ops"][0]), mb.operand(s["ops"][1])
                if a is not None and b is not None:
                    v = a + b if op == "Add" else (a * b if op == "Mul" else (a << min(b, 70)))
                    if v < lim:
                        auto = ("interval", "operand bounds %d %s %d stay below 2^%d" % (a, op, b, lim.bit_length() - 1))
            if op == "Sub":
                a, b = ops
                for (rop, x, y) in rels:
                    if (rop in ("Ge", "Gt") and x == a and y == b) or (rop in ("Le", "Lt") and x == b and y == a):
                        auto = ("guarded", "dominating comparison %s(%s,%s)" % (rop, x[:40], y[:40]))
                if auto is None and (a.startswith("Add(%s," % b) or a.endswith(",%s)" % b) and a.startswith("Add(")):
                    auto = ("interval", "minuend is a sum containing the subtrahend")
                if auto is None and b.startswith("Rem(%s," % a):
                    auto = ("interval", "x - x % n")
                if auto is None and re.match(r"^const:\d+$", b):
                    for (rop, x, y) in rels:
                        if x == a and re.match(r"^const:\d+$", y):
                            c, d = int(y[6:]), int(b[6:])
                            if (rop == "Ge" and c >= d) or (rop == "Gt" and c + 1 >= d) or (rop == "Ne" and c == 0 and d == 1):
                                auto = ("guarded", "dominating comparison %s(%s,%s)" % (rop, x[:40], y))
        elif kind == "OverflowNeg":
            a = ops[0]
            for (rop, x, y) in rels:
                if x == a and rop in ("Gt", "Ge") and re.match(r"^const:-?\d+$", y):
                    auto = ("guarded", "operand bounded below")
        elif kind == "Index":
            idx = ops[1] if len(ops) > 1 else ""
            cont = ops[0] if ops else ""
            desc = "Index(%s)[%s]" % (cont, idx)
            lens = ("Vec::len(%s)" % cont, "<impl [T]>::len(%s)" % cont)
            for (rop, x, y) in rels:
                if x == idx and y in lens and rop == "Lt":
                    auto = ("guarded", "index < len of the same container dominates")
                if y == idx and x in lens and rop == "Gt":
                    auto = ("guarded", "len > index of the same container dominates")
            if auto is None and re.match(r"^(RangeFull|Range::RangeFull)", idx):
                auto = ("const/iter", "full range")
        elif kind == "BoundsCheck":
            idx = ops[1]
            desc = "BoundsCheck(len=%s, index=%s)" % (ops[0], idx)
            if re.match(r"^const:\d+$", idx) and re.match(r"^const:\d+$", ops[0]) and int(idx[6:]) < int(ops[0][6:]):
                auto = ("const/iter", "constant index into a fixed-size array")
        elif kind == "Unwrap":
            callee = s.get("callee", "")
            a = ops[0] if ops else ""
            desc = "Unwrap(%s)" % a
            if re.search(r"RwLock::(read|write)\(", a) or "RwLock" in a and ("::read(" in a or "::write(" in a):
                auto = ("lock-poison", "unwrap of RwLock::read/write: panics only after an earlier panic under the write lock")
        elif kind.startswith("Panic:"):
            desc = "%s[%s]" % (kind, "; ".join(a for a in norm_atoms(atoms) if not re.search(r"Try::branch\(.*\) is #0$", a))[-400:])
        return desc, atoms, auto

    def audited(self, f, kind, desc, atoms):
        """Matching audited-table entry or None."""
        kd = key_of(desc)
        for e in self.entries:
            if not re.search(e["function"], f.path):
                continue
            if e.get("kind") and not re.search(e["kind"], kind):
                continue
            if e.get("desc") and not re.search(e["desc"], kd):
                continue
            return e
        return None
