"""C05 / C11: R-SINK (guarded panic-capable sites), R-TERM (loop certificates), R-ALLOC (clamped allocations)."""
import re

from cfg import block_dominators, natural_loops
from cg import op_local, peel
from core import Finding, RuleResult, atoms_match, view, wild
from dataflow import forward_taint, rv_places
from facts import callee_name
from prov import Prov, guards, _split_top

U64 = 1 << 64
U32 = 1 << 32
MEM = 1 << 48     # no in-memory length or position exceeds this


def surface(ctx, which):
    tbl = ctx.table("surface")
    roots = []
    for pat in tbl.get(which, []):
        if pat in ctx.fx.fns:
            roots.append(ctx.fx.fns[pat])
        else:
            rx = re.compile(pat)
            roots += [f for p, f in ctx.fx.fns.items() if rx.search(p)]
    cut = set(tbl.get(which + "_cut", []))
    if not cut:
        return ctx.cg.reachable(roots)
    seen = {}
    st = list(roots)
    for r in roots:
        seen[r.path] = r
    while st:
        f = st.pop()
        for c in ctx.cg.calls[f.path]:
            if c.kind == "call" and c.term.get("callee") in cut:
                continue
            for g in c.all_targets():
                if g.path not in seen:
                    seen[g.path] = g
                    st.append(g)
    return seen


# ------------------------------------------------------------------ sinks --

def enumerate_sinks(f):
    """Panic-capable sites of one function: dicts(kind, bb, ops, span, macro)."""
    out = []
    for bb, blk in enumerate(f.blocks):
        if blk["cleanup"]:
            continue
        t = blk["term"]
        if t["t"] == "assert":
            k = t["kind"]
            if k.startswith("UB:") or k == "Other":
                continue
            out.append({"kind": k, "bb": bb, "ops": t["ops"], "span": t["span"], "macro": None})
        elif t["t"] == "call":
            nm = callee_name(t) or ""
            short = nm.split("::")[-1]
            m = t["span"]["macros"]
            if short in ("index", "index_mut") and "Index" in nm:
                out.append({"kind": "Index", "bb": bb, "ops": t["args"], "span": t["span"], "macro": None, "callee": nm})
            elif short in ("unwrap", "expect", "unwrap_err") and ("Option" in nm or "Result" in nm):
                out.append({"kind": "Unwrap", "bb": bb, "ops": t["args"][:1], "span": t["span"], "macro": None, "callee": nm})
            elif "panicking::" in nm or "begin_panic" in nm or "assert_failed" in nm or nm.endswith("unreachable_display"):
                mac = None
                for x in m:
                    if x in ("debug_assert", "debug_assert_eq", "debug_assert_ne", "assert", "assert_eq", "assert_ne", "panic", "unreachable", "unimplemented", "todo"):
                        mac = x
                out.append({"kind": "Panic:" + (mac or "direct"), "bb": bb, "ops": [], "span": t["span"], "macro": mac, "callee": nm})
            elif short in ("copy_from_slice", "split_at", "split_at_mut", "swap_remove", "remove", "insert") and ("slice" in nm or "Vec" in nm) and short in ("copy_from_slice", "split_at", "split_at_mut"):
                out.append({"kind": "SliceOp:" + short, "bb": bb, "ops": t["args"], "span": t["span"], "macro": None, "callee": nm})
            elif nm.endswith("Duration::new"):
                out.append({"kind": "DurationNew", "bb": bb, "ops": t["args"], "span": t["span"], "macro": None, "callee": nm})
    return out


# --------------------------------------------------------- A8 intervals --

class Bounds:
    """Upper bounds of non-negative quantities, evaluated on provenance strings."""

    def __init__(self, ctx):
        self.tbl = ctx.table("sinks").get("bounds", {})
        self.consts = ctx.fx.consts

    def ub(self, p, width=None):
        """Exclusive-ish upper bound (value <= ub) or None when unknown."""
        p = p.strip()
        m = re.match(r"^const:(-?\d+)$", p)
        if m:
            return abs(int(m.group(1)))
        m = re.match(r"^const:(\w+)$", p)
        if m:
            for path, v in self.consts.items():
                if path.endswith("::" + m.group(1)):
                    return v
            return None
        for rx, b in self.tbl.items():
            if re.search(rx, p):
                return int(b)
        for op in ("Add", "Sub", "Mul", "Div", "Rem", "Shl", "Shr", "BitAnd"):
            if p.startswith(op + "(") and p.endswith(")"):
                parts = _split_top(p[len(op) + 1:-1])
                if len(parts) != 2:
                    return None
                a, b = self.ub(parts[0]), self.ub(parts[1])
                if op == "Rem":
                    return (b - 1) if b else a
                if op == "BitAnd":
                    xs = [x for x in (a, b) if x is not None]
                    return min(xs) if xs else None
                if op == "Div":
                    return a
                if op == "Sub":
                    return a
                if a is None or b is None:
                    return None
                if op == "Add":
                    return a + b
                if op == "Mul":
                    return a * b
                if op == "Shl":
                    return a << min(b, 64)
                return None
        m = re.match(r"^cmp::min\((.*)\)$", p) or re.match(r"^Ord::min\((.*)\)$", p)
        if m:
            parts = _split_top(m.group(1))
            xs = [self.ub(x) for x in parts]
            xs = [x for x in xs if x is not None]
            return min(xs) if xs else None
        m = re.match(r"^(cmp::max|Ord::max)\((.*)\)$", p)
        if m:
            parts = _split_top(m.group(2))
            xs = [self.ub(x) for x in parts]
            return None if any(x is None for x in xs) else max(xs)
        return None


def ty_limit(tystr):
    return {"u8": 1 << 8, "u16": 1 << 16, "u32": U32, "u64": U64, "usize": U64, "i64": 1 << 63, "i32": 1 << 31, "isize": 1 << 63}.get(tystr)


# ------------------------------------------------------- classification --

NEG = {"Lt": "Ge", "Ge": "Lt", "Gt": "Le", "Le": "Gt", "Eq": "Ne", "Ne": "Eq"}


def norm_atoms(atoms):
    """Rewrite `!(Lt(a,b))` as `(Ge(a,b))` etc. so guards can be matched uniformly."""
    out = []
    for a in atoms:
        m = re.match(r"^!\((Lt|Ge|Gt|Le|Eq|Ne)\((.*)\)\)$", a)
        if m:
            out.append("(%s(%s))" % (NEG[m.group(1)], m.group(2)))
        else:
            out.append(a)
    return out


def rel_atoms(atoms):
    """[(op, lhs, rhs)] for relational atoms."""
    out = []
    for a in norm_atoms(atoms):
        m = re.match(r"^\((Lt|Ge|Gt|Le|Eq|Ne)\((.*)\)\)$", a)
        if m:
            parts = _split_top(m.group(2))
            if len(parts) == 2:
                out.append((m.group(1), parts[0], parts[1]))
            continue
        # `match a.cmp(&b) { Less => .., Equal => .., Greater => .. }` on integers is the same three relations
        m = re.match(r"^.*Ord for [ui](?:8|16|32|64|128|size)>::(?:partial_)?cmp\((.*)\) is (not )?(Less|Equal|Greater)$", a)
        if m:
            parts = _split_top(m.group(1))
            if len(parts) == 2:
                op = {("Less", None): "Lt", ("Equal", None): "Eq", ("Greater", None): "Gt", ("Less", "not "): "Ge", ("Equal", "not "): "Ne", ("Greater", "not "): "Le"}[(m.group(3), m.group(2))]
                out.append((op, parts[0], parts[1]))
    return out


def key_of(p):
    """Provenance with local names wildcarded, for table matching."""
    return re.sub(r"(var|param):\w+", r"\1:*", p)


def shape_of(desc):
    """Operator skeleton of a sink description: operands that are plain values are wildcarded, so that renaming,
    re-binding or re-deriving an operand does not make the site look new, while a new operation does."""
    d = key_of(desc)
    d = re.sub(r"\[\(.*$", "", d) if d.startswith("Panic:") else d      # assertion text: kind only
    d = re.sub(r"const:[\w:]+", "const", d)
    d = re.sub(r"(var|param):\*(\.\w+)*", "v", d)
    return d[:160]


class Classifier:
    def __init__(self, ctx):
        self.ctx = ctx
        self.bounds = Bounds(ctx)
        self.tbl = ctx.table("sinks")
        self.nonzero = self.tbl.get("nonzero", [])
        self.entries = self.tbl.get("audited", [])

    def classify(self, f, s):
        g = guards(self.ctx, f)
        pr = g.prov
        node = ("t", s["bb"])
        atoms = g.atoms_at(node)
        ops = [pr.operand(o) for o in s["ops"]]
        kind = s["kind"]
        desc = "%s(%s)" % (kind, ", ".join(ops))
        rels = rel_atoms(atoms)
        auto = None
        if kind in ("DivisionByZero", "RemainderByZero"):
            # the divisor is the second operand of the Div/Rem that follows; the assert carries the dividend,
            # so look at the comparison operand: `_x = Eq(divisor, 0)`
            cond = pr.operand(f.blocks[s["bb"]]["term"]["cond"])
            m = re.match(r"^Eq\((.*),const:0\)$", cond)
            div = m.group(1) if m else cond
            desc = "%s(divisor=%s)" % (kind, div)
            b = self.bounds.ub(div)
            if re.match(r"^const:[1-9]\d*$", div) or any(re.search(rx, div) for rx in self.nonzero):
                auto = ("interval", "divisor is a non-zero constant or a listed non-zero quantity")
            else:
                # a named constant of the crate whose value the compiler evaluated to something other than zero
                from core import numeric
                if re.match(r"^(cast\()?const:[1-9]\d*\)?$", numeric(div)):
                    auto = ("interval", "divisor is a named constant with a non-zero value")
        elif kind.startswith("Overflow:"):
            op = kind.split(":")[1]
            t = f.blocks[s["bb"]]["term"]
            # result type from the tuple local that holds (value, overflowed)
            cl = op_local(t["cond"])
            tystr = None
            if t["cond"]["k"] in ("copy", "move"):
                base = f.locals[t["cond"]["place"]["local"]]["s"]
                m = re.match(r"^\((\w+), bool\)$", base)
                tystr = m.group(1) if m else None
            lim = ty_limit(tystr) if tystr else None
            desc = "%s<%s>(%s)" % (kind, tystr, ", ".join(ops))
            from core import numeric as _num
            cv = [re.match(r"^const:(\d+)(?:_[ui]\w+)?$", _num(o_)) for o_ in ops]
            if op in ("Shr", "Shl") and len(ops) == 2 and cv[1] and int(cv[1].group(1)) < 16:
                auto = ("interval", "shift by a constant smaller than the width of every integer type used here")
            if op == "Sub" and len(ops) == 2 and cv[0] and cv[1] and int(cv[0].group(1)) >= int(cv[1].group(1)):
                auto = ("interval", "difference of two constants, the first not smaller than the second")
            if op in ("Add", "Mul", "Shl") and lim:
                from bounds import MirBounds
                mb = MirBounds(self.ctx, f)
                a, b = mb.operand(s["ops"][0]), mb.operand(s["ops"][1])
                if a is not None and b is not None:
                    v = a + b if op == "Add" else (a * b if op == "Mul" else (a << min(b, 70)))
                    if v < lim:
                        auto = ("interval", "operand bounds %d %s %d stay below 2^%d" % (a, op, b, lim.bit_length() - 1))
            if auto is None and op == "Add" and lim:
                # x + c where a dominating comparison bounds x by something bounded (a length, a small constant)
                from bounds import MirBounds
                mb2 = MirBounds(self.ctx, f)
                for i_, j_ in ((0, 1), (1, 0)):
                    cb = mb2.operand(s["ops"][j_])
                    if cb is None:
                        continue
                    for (rop, x, y) in rels:
                        if x == ops[i_] and rop in ("Lt", "Le"):
                            yb = self.bounds.ub(y)
                            if yb is None and y.startswith("len("):
                                yb = MEM
                            if yb is not None and yb + cb < lim:
                                auto = ("interval", "operand is below %s on every path (dominating comparison), so the sum stays below 2^%d" % (y[:40], lim.bit_length() - 1))
            if auto is None and op == "Add" and ops[1] == "const:1":
                # x + 1 where x is strictly below some value of its own type: the successor exists
                for (rop, x, y) in rels:
                    if rop == "Lt" and x == ops[0]:
                        auto = ("guarded", "x < %s dominates, so x + 1 does not exceed the type's maximum" % y[:40])
            if op == "Sub":
                a, b = ops
                for (rop, x, y) in rels:
                    if (rop in ("Ge", "Gt") and x == a and y == b) or (rop in ("Le", "Lt") and x == b and y == a):
                        auto = ("guarded", "dominating comparison %s(%s,%s)" % (rop, x[:40], y[:40]))
                if auto is None:
                    # the checked form of the same (or of the opposite) subtraction already decided the order:
                    # a.checked_sub(b) is Some => a >= b;  b.checked_sub(a) is None => b < a
                    for at_ in atoms:
                        if at_.endswith("::checked_sub(%s,%s) is Some" % (a, b)) or at_.endswith("::checked_sub(%s,%s) is None" % (b, a)):
                            auto = ("guarded", "the checked form of this subtraction decided the order of the operands: %s" % at_[-120:])
                if auto is None:
                    # a declared relation between two fields of the same object (rules/sinks.json, field_relations)
                    for fr_ in self.tbl.get("field_relations", []):
                        ma_ = re.match(r"^(param:\w+|var:\w+)\.%s$" % re.escape(fr_["ge"]), a)
                        mb_ = re.match(r"^(param:\w+|var:\w+)\.%s$" % re.escape(fr_["le"]), b)
                        if ma_ and mb_ and ma_.group(1) == mb_.group(1):
                            auto = ("internal-invariant", "%s.%s <= %s.%s: %s" % (fr_["owner"], fr_["le"], fr_["owner"], fr_["ge"], fr_["why"][:120]))
                if auto is None and (a.startswith("Add(%s," % b) or a.endswith(",%s)" % b) and a.startswith("Add(")):
                    auto = ("interval", "minuend is a sum containing the subtrahend")
                if auto is None and b.startswith("Rem(%s," % a):
                    auto = ("interval", "x - x % n")
                if auto is None and re.match(r"^const:\d+$", b):
                    for (rop, x, y) in rels:
                        if x == a and re.match(r"^const:\d+$", y):
                            c, d = int(y[6:]), int(b[6:])
                            if (rop == "Ge" and c >= d) or (rop == "Gt" and c + 1 >= d) or (rop == "Ne" and c == 0 and d == 1):
                                auto = ("guarded", "dominating comparison %s(%s,%s)" % (rop, x[:40], y))
            if auto is None and op == "Add" and len(ops) == 2:
                # x + min(.., L - x, ..): the sum is at most L
                for x_, y_ in ((ops[0], ops[1]), (ops[1], ops[0])):
                    mm_ = re.match(r"^(?:Ord|cmp)::min\((.*)\)$", y_)
                    if mm_ and any(re.match(r"^(?:<impl \w+>::|\w+::)?saturating_sub\((.*),%s\)$" % re.escape(x_), part) or re.match(r"^Sub\((.*),%s\)$" % re.escape(x_), part) for part in _split_top(mm_.group(1))):
                        auto = ("interval", "x + min(.., L - x): the sum is bounded by L, a value of the same type")
            if auto is None and tystr and op in ("Add", "Sub", "Mul", "Shl") and len(s["ops"]) == 2:
                import intervals as _iv
                ivs_ = _iv.Intervals(self.ctx, f)
                r_ = _iv.arith(op, ivs_.operand(s["ops"][0]), ivs_.operand(s["ops"][1]))
                if _iv.fits(r_, tystr):
                    auto = ("interval", "operand intervals give a result in [%d, %d], inside %s" % (r_[0], r_[1], tystr))
        elif kind == "OverflowNeg":
            a = ops[0]
            for (rop, x, y) in rels:
                if x == a and rop in ("Gt", "Ge") and re.match(r"^const:-?\d+$", y):
                    auto = ("guarded", "operand bounded below")
            if auto is None and s["ops"]:
                import intervals as _iv
                o_ = s["ops"][0]
                ty_ = (o_["place"].get("ty") if o_["place"]["proj"] else f.locals[o_["place"]["local"]]["s"]) if o_["k"] in ("copy", "move") else o_.get("ty")
                rng_ = _iv.ty_range(ty_ or "")
                iv_ = _iv.Intervals(self.ctx, f).operand(o_)
                if rng_ is not None and iv_ is not None and iv_[0] > rng_[0]:
                    auto = ("interval", "operand lies in [%d, %d]: its negation exists in %s" % (iv_[0], iv_[1], ty_))
        elif kind == "Index":
            idx = ops[1] if len(ops) > 1 else ""
            cont = ops[0] if ops else ""
            desc = "Index(%s)[%s]" % (cont, idx)
            lens = ("len(%s)" % cont,)
            for (rop, x, y) in rels:
                if x == idx and y in lens and rop == "Lt":
                    auto = ("guarded", "index < len of the same container dominates")
                if y == idx and x in lens and rop == "Gt":
                    auto = ("guarded", "len > index of the same container dominates")
            if auto is None and re.match(r"^(RangeFull|Range::RangeFull)", idx):
                auto = ("const/iter", "full range")
            # v[0] behind !v.is_empty() / v.len() != 0 / v.len() > 0
            if auto is None and idx == "const:0":
                for a_ in atoms:
                    if re.match(r"^!\((Vec|<impl \[T\]>|VecDeque)::is_empty\(%s\)\)$" % re.escape(cont), a_) or a_ in ("(Ne(len(%s),const:0))" % cont, "(Gt(len(%s),const:0))" % cont, "(Ge(len(%s),const:1))" % cont):
                        auto = ("guarded", "first element read behind a non-emptiness test of the same container")
            # v[0] behind `n < v.len()` for an unsigned n: the length exceeds something that is at least zero
            if auto is None and idx == "const:0":
                for (rop, x, y) in rels:
                    if (rop == "Gt" and x in lens) or (rop == "Lt" and y in lens):
                        auto = ("guarded", "first element read behind `n < len` of the same container (n is unsigned)")
            # v[n.checked_sub(1)?] / v[n - 1] behind `n < v.len()` or `n <= v.len()`: n - 1 < n <= len
            if auto is None:
                mcs = re.match(r"^(?:ok|some)\((?:<impl \w+>::|\w+::)checked_sub\((.*),const:1\)\)$", idx)
                if mcs:
                    n_ = mcs.group(1)
                    for (rop, x, y) in rels:
                        if (x == n_ and y in lens and rop in ("Lt", "Le")) or (y == n_ and x in lens and rop in ("Gt", "Ge")):
                            auto = ("guarded", "index is the payload of n.checked_sub(1) and n <= len of the same container dominates")
            # division / remainder by a named constant whose value is known and not zero
            # buf[0..min(buf.len(), x)]
            m = re.match(r"^Range(To)?::Range(To)?\((?:const:0,)?(?:cmp|Ord)::min\((.*)\)\)$", idx)
            if auto is None and m:
                parts = _split_top(m.group(3))
                if any(x in lens for x in parts):
                    auto = ("interval", "slice end is min(len of the same slice, ..)")
            # buf[..x] behind x <= buf.len() (or x < buf.len())
            m = re.match(r"^RangeTo::RangeTo\((.*)\)$", idx)
            if auto is None and m:
                x_ = m.group(1)
                for (rop, x, y) in rels:
                    if (x == x_ and y in lens and rop in ("Lt", "Le")) or (y == x_ and x in lens and rop in ("Gt", "Ge")):
                        auto = ("guarded", "slice end compared with the length of the same slice")
            # buf[x..] behind x <= buf.len() (or x < buf.len())
            m = re.match(r"^RangeFrom::RangeFrom\((.*)\)$", idx)
            if auto is None and m:
                x_ = m.group(1)
                if any(rop in ("Le", "Lt") and x == x_ and y in lens for (rop, x, y) in rels) or any(rop in ("Ge", "Gt") and y == x_ and x in lens for (rop, x, y) in rels):
                    auto = ("guarded", "slice start is at most the length of the same slice (dominating comparison)")
            # buf[a..b] with b = min(.., buf.len(), ..) and a <= b (dominating comparison)
            m = re.match(r"^Range::Range\((.*)\)$", idx)
            if auto is None and m:
                ab_ = _split_top(m.group(1))
                if len(ab_) == 2:
                    a_, b_ = ab_
                    mm_ = re.match(r"^(?:cmp|Ord)::min\((.*)\)$", b_)
                    end_ok = (b_ in lens) or bool(mm_ and any(x in lens for x in _split_top(mm_.group(1)))) or any(rop in ("Le", "Lt") and x == b_ and y in lens for (rop, x, y) in rels)
                    start_ok = a_ == "const:0" or any(rop in ("Le", "Lt") and x == a_ and y == b_ for (rop, x, y) in rels) or any(rop in ("Ge", "Gt") and y == a_ and x == b_ for (rop, x, y) in rels)
                    if end_ok and start_ok:
                        auto = ("guarded", "slice end is at most the length of the same slice and the start is at most the end (dominating comparison)")
            # a fixed-size array sliced up to min(.., K) with K not above its length
            m = re.match(r"^RangeTo::RangeTo\((?:cmp|Ord)::min\((.*)\)\)$", idx)
            if auto is None and m and s["ops"] and s["ops"][0]["k"] in ("copy", "move", "const"):
                o0_ = s["ops"][0]
                ty0_ = (o0_["place"].get("ty") if o0_["place"]["proj"] else f.locals[o0_["place"]["local"]]["s"]) if o0_["k"] != "const" else o0_.get("ty", "")
                ma_ = re.search(r"\[\w+; (\d+)\]", ty0_ or "")
                from core import numeric as _numeric2
                ks_ = [re.match(r"^const:(\d+)", _numeric2(x)) for x in _split_top(m.group(1))]
                if ma_ and any(k_ and int(k_.group(1)) <= int(ma_.group(1)) for k_ in ks_):
                    auto = ("interval", "a fixed-size array of %s elements sliced up to min(.., a constant not above its length)" % ma_.group(1))
            # v[n-1] with n != 0 and n <= len
            m = re.match(r"^Sub\((.*),const:1\)$", idx)
            if auto is None and m:
                n_ = m.group(1)
                nz = any((rop == "Ne" and x == n_ and y == "const:0") or (rop == "Gt" and x == n_ and y == "const:0") for (rop, x, y) in rels)
                le = any((rop in ("Le", "Lt") and x == n_ and y in lens) for (rop, x, y) in rels) or n_ in lens
                if n_ in lens and not nz:
                    nz = any(re.match(r"^!\((Vec|<impl \[T\]>|VecDeque)::is_empty\(%s\)\)$" % re.escape(cont), a_) for a_ in atoms)
                if nz and le:
                    auto = ("guarded", "n != 0 and n <= len dominate v[n-1]")
            # for i in LO..v.len() { v[i] } on a vector this function does not shorten
            m = re.match(r"^ok\(Range<A>>::next\(IntoIterator::into_iter\(Range::Range\((.*)\)\)\)\)$", idx)
            if auto is None and m:
                parts = _split_top(m.group(1))
                if len(parts) == 2 and parts[1] in lens:
                    v_ = view(self.ctx, f)
                    pr_ = Prov(f)
                    shr = [c_ for c_ in v_.calls.values() if c_.name.split("::")[-1] in ("pop", "truncate", "clear", "remove", "swap_remove", "drain", "split_off", "retain", "dedup") and c_.term["args"] and pr_.operand(c_.term["args"][0]) == cont]
                    # (a shortening that is over before the range is built does not matter: the length in the range is the new one)
                    mk = [c_ for c_ in v_.calls.values() if c_.name.split("::")[-1] == "into_iter" and c_.term["args"] and pr_.operand(c_.term["args"][0]) == "Range::Range(%s)" % m.group(1)]
                    shrunk_ = bool(shr)
                    if shr and mk:
                        after_mk = v_.pg.reach([("t", c_.bb) for c_ in mk], set())
                        shrunk_ = any(("t", c_.bb) in after_mk and ("t", s["bb"]) in v_.pg.reach([("t", c_.bb)], set()) for c_ in shr)
                    if not shrunk_:
                        auto = ("const/iter", "index drawn from a range whose end is the length of the indexed vector, which is not shortened in this function")
        elif kind == "BoundsCheck":
            idx = ops[1]
            desc = "BoundsCheck(len=%s, index=%s)" % (ops[0], idx)
            if re.match(r"^const:\d+$", idx) and re.match(r"^const:\d+$", ops[0]) and int(idx[6:]) < int(ops[0][6:]):
                auto = ("const/iter", "constant index into a fixed-size array")
            def _num(x_):
                m_ = re.match(r"^const:(\d+)$", x_)
                if m_:
                    return int(m_.group(1))
                m_ = re.match(r"^const:(?:\w+::)*(\w+)$", x_)
                if m_:
                    for cp_, cv_ in self.ctx.fx.consts.items():
                        if cp_.split("::")[-1] == m_.group(1):
                            return cv_
                return None
            for (rop, x, y) in rels:
                if rop == "Lt" and x == idx and (y == ops[0] or (_num(y) is not None and _num(ops[0]) is not None and _num(y) <= _num(ops[0]))):
                    auto = ("guarded", "index < len of the same slice dominates")
            if auto is None:
                # index < len(A) dominates and len(A) == len(B) was established by a comparison (cmp(..) is Equal / ==)
                def _nl(x_):
                    return re.sub(r"<impl str>::as_bytes\(([^()]*)\)", r"\1", x_)
                eqs = set()
                for a_ in atoms:
                    m_ = re.match(r"^.*cmp\((.*)\) is Equal$", a_) or re.match(r"^\(Eq\((.*)\)\)$", a_)
                    if m_:
                        parts_ = _split_top(m_.group(1))
                        if len(parts_) == 2:
                            eqs.add((_nl(parts_[0]), _nl(parts_[1])))
                            eqs.add((_nl(parts_[1]), _nl(parts_[0])))
                for (rop, x, y) in rels:
                    if rop == "Lt" and x == idx and (_nl(y), _nl(ops[0])) in eqs:
                        auto = ("guarded", "index < len of a slice whose length was compared equal to this one")
            if auto is None:
                m_ = re.match(r"^ok\(Range<A>>::next\(IntoIterator::into_iter\(Range::Range\((.*)\)\)\)\)$", idx)
                parts_ = _split_top(m_.group(1)) if m_ else []
                if len(parts_) == 2 and _num(parts_[1]) is not None and _num(ops[0]) is not None and _num(parts_[1]) <= _num(ops[0]):
                    auto = ("const/iter", "index drawn from a range whose constant end does not exceed the array's length")
            if auto is None:
                # for index in LO..v.len() { v[index] }: the range's upper end is the length of the indexed container;
                # holds when the container cannot get shorter while the loop runs (a slice, or a vector that this
                # function never shortens)
                m_ = re.match(r"^ok\(Range<A>>::next\(IntoIterator::into_iter\(Range::Range\((.*)\)\)\)\)$", idx)
                if m_:
                    parts_ = _split_top(m_.group(1))
                    if len(parts_) == 2 and parts_[1] == ops[0] and parts_[1].startswith("len("):
                        base_ = parts_[1][4:-1]
                        shrunk_ = False
                        for c_ in view(self.ctx, f).calls.values():
                            if c_.name.split("::")[-1] in ("pop", "truncate", "clear", "remove", "swap_remove", "drain", "split_off", "retain", "dedup") and c_.term["args"]:
                                if Prov(f).operand(c_.term["args"][0]) == base_:
                                    shrunk_ = True
                        if not shrunk_:
                            auto = ("const/iter", "index drawn from a range whose end is the length of the indexed container, which is not shortened in this function")
        elif kind == "Unwrap":
            callee = s.get("callee", "")
            a = ops[0] if ops else ""
            desc = "Unwrap(%s)" % a
            if re.search(r"RwLock::(read|write)\(", a) or "RwLock" in a and ("::read(" in a or "::write(" in a):
                auto = ("lock-poison", "unwrap of RwLock::read/write: panics only after an earlier panic under the write lock")
        elif kind.startswith("Panic:"):
            desc = "%s[%s]" % (kind, "; ".join(a for a in norm_atoms(atoms))[-1500:])
            # an assertion that repeats a test made just before it (`if x >= n { return Err(..) } debug_assert!(x < n)`):
            # its failing condition contradicts a condition that holds where the assertion starts
            own = self.own_condition(f, s)
            if own:
                mk = self._marker_atoms(f, s)
                if mk is not None:
                    neg = set()
                    for a in norm_atoms(mk):
                        m_ = re.match(r"^\((Lt|Ge|Gt|Le|Eq|Ne)\((.*)\)\)$", a)
                        if m_:
                            neg.add("(%s(%s))" % (NEG[m_.group(1)], m_.group(2)))
                            # for an unsigned quantity `x != 0` / `x > 0` also contradicts `x <= 0` and `0 >= x`
                            mz_ = re.match(r"^(len\(.*\)),const:0$", m_.group(2))
                            if mz_ and m_.group(1) in ("Ne", "Gt"):
                                neg.update(["(Le(%s,const:0))" % mz_.group(1), "(Ge(const:0,%s))" % mz_.group(1), "(Eq(%s,const:0))" % mz_.group(1), "(Eq(const:0,%s))" % mz_.group(1)])
                        m_ = re.match(r"^(.*) is (not )?(\S+)$", a)
                        if m_:
                            neg.add("%s is %s%s" % (m_.group(1), "" if m_.group(2) else "not ", m_.group(3)))
                        if a.startswith("!(") and a.endswith(")"):
                            neg.add("(" + a[2:-1] + ")")
                        elif a.startswith("(") and a.endswith(")") and not re.match(r"^\((Lt|Ge|Gt|Le|Eq|Ne)\(", a):
                            neg.add("!" + a)
                    if any(a in neg for a in norm_atoms(own)):
                        auto = ("guarded", "the assertion repeats a test that holds where it starts; it cannot fire")
            if auto is None and own:
                # `let n = v.len(); .. debug_assert_eq!(v.len(), n)` in a function that never changes the length of v:
                # the failing condition is `len(v) != len(v)`
                for a in norm_atoms(own):
                    m_ = re.match(r"^\((Ne|Lt|Gt)\((.+)\)\)$", a)
                    ps_ = _split_top(m_.group(2)) if m_ else []
                    if len(ps_) == 2 and ps_[0] == ps_[1]:
                        mc_ = re.match(r"^len\((.*)\)$", ps_[0])
                        if mc_:
                            v_ = view(self.ctx, f)
                            changes = [c_ for c_ in v_.calls.values() if c_.name.split("::")[-1] in ("push", "pop", "insert", "remove", "truncate", "resize", "clear", "extend", "extend_from_slice", "retain", "append", "drain", "split_off", "swap_remove", "dedup", "resize_with", "push_str") and c_.term["args"] and pr.operand(c_.term["args"][0]) == mc_.group(1)]
                            if not changes:
                                auto = ("guarded", "the assertion compares the length of %s with itself in a function that never changes it" % mc_.group(1)[:40])
            if auto is None:
                # `debug_assert!(a && b)`: the panic is reached from the failing test of a or of b; each of them repeated
                mk = self._marker_atoms(f, s)
                ins = self._incoming_conditions(f, s)
                if mk is not None and ins:
                    neg = set()
                    for a in norm_atoms(mk):
                        m_ = re.match(r"^\((Lt|Ge|Gt|Le|Eq|Ne)\((.*)\)\)$", a)
                        if m_:
                            neg.add("(%s(%s))" % (NEG[m_.group(1)], m_.group(2)))
                    if all(any(a in neg for a in norm_atoms(c_)) for c_ in ins):
                        auto = ("guarded", "each failing test of the assertion repeats a test that holds where it starts; it cannot fire")
                    elif len(ins) == 1 and self._flag_cannot_fail(f, s, neg):
                        auto = ("guarded", "the assertion is a conjunction of tests that each hold where it starts; it cannot fire")
        return desc, atoms, auto

    def own_condition(self, f, s):
        """The condition of the assertion / panic itself.  A debug assertion starts with a test of the constant
        `cfg!(debug_assertions)`: its own condition is what the tests between that one and the panicking block
        established (every edge that dominates the panic and lies behind the marker).  Without a marker (assert!,
        panic! in a match arm): the switch edge that leads into the panicking block."""
        g = guards(self.ctx, f)
        if g._dom is None:
            g._compute()
        node = ("t", s["bb"])
        doms = [(e, info) for e, info in g._dom.items() if node in info[0] and node != e]
        markers = [(e, info) for e, info in doms if list(g.describe_all(info[1], info[2], info[3])) == ["(const:1)"]]
        if markers:
            m = min(markers, key=lambda x: len(x[1][0]))
            out = []
            for e, (dom, bb, val, vals) in doms:
                if e != m[0] and e in m[1][0]:
                    out += list(g.describe_all(bb, val, vals)) + list(g._refine(bb, val, vals, 0))
            # (what held before the assertion started is context, not the assertion)
            before = set(g.atoms_at(("t", m[1][1])))
            return sorted(set(a for a in out if a != "(const:1)" and a not in before))
        preds = g.prov._preds()
        live = lambda p: not f.blocks[p]["cleanup"] and f.blocks[p]["term"]["t"] != "unreachable"
        cur = s["bb"]
        for _ in range(12):
            ps = [p for p in preds.get(cur, []) if live(p)]
            if len(ps) != 1:
                return []
            p = ps[0]
            t = f.blocks[p]["term"]
            if t["t"] == "switch":
                vals = [str(x) for x, _ in t["arms"]] + ["otherwise"]
                tg = [b_ for _, b_ in t["arms"]] + [t["otherwise"]]
                out = []
                for k_, b_ in enumerate(tg):
                    if b_ == cur:
                        out += list(g.describe_all(p, vals[k_], vals)) + list(g._refine(p, vals[k_], vals, 0))
                return sorted(set(out))
            cur = p
        return []

    def _marker_atoms(self, f, s):
        """The conditions that hold where the debug assertion behind panic site s starts (at its
        `cfg!(debug_assertions)` test), or None when the site is not a debug assertion."""
        g = guards(self.ctx, f)
        if g._dom is None:
            g._compute()
        node = ("t", s["bb"])
        markers = [(e, info) for e, info in g._dom.items() if node in info[0] and node != e and list(g.describe_all(info[1], info[2], info[3])) == ["(const:1)"]]
        if not markers:
            return None
        m = min(markers, key=lambda x: len(x[1][0]))
        return list(g.atoms_at(("t", m[1][1])))

    def _incoming_conditions(self, f, s):
        """One atom list per switch edge that leads into the panicking block (through the straight line that builds
        the message); [] when the shape is not that simple."""
        g = guards(self.ctx, f)
        preds = g.prov._preds()
        live = lambda p: not f.blocks[p]["cleanup"] and f.blocks[p]["term"]["t"] != "unreachable"
        cur = s["bb"]
        for _ in range(12):
            ps = [p for p in preds.get(cur, []) if live(p)]
            if len(ps) != 1 or f.blocks[ps[0]]["term"]["t"] == "switch":
                break
            cur = ps[0]
        out = []
        for p in [p for p in preds.get(cur, []) if live(p)]:
            to = cur
            hops = 0
            while f.blocks[p]["term"]["t"] == "goto" and not f.blocks[p]["stmts"] and hops < 4:
                pp = [q for q in preds.get(p, []) if live(q)]
                if len(pp) != 1:
                    break
                to, p, hops = p, pp[0], hops + 1
            t = f.blocks[p]["term"]
            if t["t"] != "switch":
                return []
            vals = [str(x) for x, _ in t["arms"]] + ["otherwise"]
            tg = [b_ for _, b_ in t["arms"]] + [t["otherwise"]]
            for k_, b_ in enumerate(tg):
                if b_ == to:
                    out.append(list(g.describe_all(p, vals[k_], vals)))
        return out

    def _flag_cannot_fail(self, f, s, neg):
        """`debug_assert!(a && b)` is compiled as a flag: false where a fails, b where a holds.  True when every way the
        flag can be false is excluded by `neg` (the negations of what holds where the assertion starts)."""
        from prov import canon_bool
        g = guards(self.ctx, f)
        preds = g.prov._preds()
        live = lambda p: not f.blocks[p]["cleanup"] and f.blocks[p]["term"]["t"] != "unreachable"
        cur = s["bb"]
        sw = None
        for _ in range(12):
            ps = [p for p in preds.get(cur, []) if live(p)]
            if len(ps) != 1:
                return False
            if f.blocks[ps[0]]["term"]["t"] == "switch":
                sw = ps[0]
                break
            cur = ps[0]
        if sw is None:
            return False
        t = f.blocks[sw]["term"]
        if t["discr"]["k"] not in ("copy", "move") or t["discr"]["place"]["proj"]:
            return False
        l = t["discr"]["place"]["local"]
        pol_fail = None          # the value of the flag on the edge into the panic
        vals = [str(x) for x, _ in t["arms"]] + ["otherwise"]
        tg = [b_ for _, b_ in t["arms"]] + [t["otherwise"]]
        for v_, b_ in zip(vals, tg):
            if b_ == cur:
                pol_fail = (v_ != "0")
        if pol_fail is None:
            return False
        hops = 0
        defs = g.prov.defs.get(l, [])
        neg_flag = False
        while len(defs) == 1 and defs[0][1] != "t" and hops < 4:
            rv = defs[0][2]["rv"]
            if rv["r"] == "unop" and rv.get("op") == "Not" and rv["a"]["k"] in ("copy", "move") and not rv["a"]["place"]["proj"]:
                neg_flag = not neg_flag
                defs = g.prov.defs.get(rv["a"]["place"]["local"], [])
            elif rv["r"] == "use" and rv["op"]["k"] in ("copy", "move") and not rv["op"]["place"]["proj"]:
                defs = g.prov.defs.get(rv["op"]["place"]["local"], [])
            else:
                break
            hops += 1
        want = pol_fail != neg_flag          # the value the underlying flag must take for the assertion to fail
        if len(defs) < 2:
            return False
        for d in defs:
            if d[1] == "t":
                return False
            rv = d[2]["rv"]
            if rv["r"] == "use" and rv["op"]["k"] == "const":
                cval = str(rv["op"].get("val", rv["op"].get("repr", ""))).replace("const ", "") in ("true", "1")
                if cval != want:
                    continue
                here = norm_atoms(g.atoms_at(("s", d[0], d[1])))
                if not any(a in neg for a in here):
                    return False
            else:
                e = g.prov._def(d, 1, (l,))
                if not any(a in neg for a in norm_atoms(canon_bool(e, want))):
                    return False
        return True

    def panic_signature(self, f, s):
        """What an assertion is about, independent of how it is spelled: the fields, constants and functions its own
        condition mentions."""
        from core import numeric
        toks = set()
        for a in self.own_condition(f, s):
            a = numeric(a)
            if re.match(r"^!?\(?phi\((const:[01]\|?)+\)\)?$", a):
                continue        # a boolean flag by itself says nothing; what it was computed from is in the refined atoms
            toks |= set(re.findall(r"\.([a-z_]\w*)", a))
            toks |= {"const:" + re.sub(r"^(-?\d+)_[ui](8|16|32|64|128|size)$", r"\1", c.split("::")[-1]) for c in re.findall(r"const:([\w:-]+)", a)}
            # (of the functions in the operands' provenance only the ones that say what is measured: how an id or an
            # entry was obtained changes with ordinary refactoring)
            toks |= {t_.split("::")[-1] for t_ in re.findall(r"([A-Za-z_][\w:]*)\(", a)} & {"len", "is_empty", "count", "max", "min", "Add", "Sub", "Mul", "Div", "Rem", "is_ascii", "is_some", "is_none", "contains"}
            toks |= {"is:" + v for v in re.findall(r" is (?:not )?([\w:]+)$", a)}
        return ",".join(sorted(toks))

    def audited(self, f, kind, desc, atoms):
        """Matching audited-table entry or None (for a sum or product also with the operands the other way round)."""
        e = self._audited1(f, kind, desc, atoms)
        if e is None and kind in ("Overflow:Add", "Overflow:Mul"):
            m_ = re.match(r"^(Overflow:\w+<[^>]*>\()(.*)\)$", desc)
            parts_ = _split_top(m_.group(2).replace(", ", ",")) if m_ else []
            if len(parts_) == 2:
                e = self._audited1(f, kind, "%s%s, %s)" % (m_.group(1), parts_[1], parts_[0]), atoms)
        return e

    def _audited1(self, f, kind, desc, atoms):
        kd = key_of(desc)
        cands = []
        for e in self.entries:
            if not re.search(e["function"], f.path):
                continue
            if e.get("kind") and not re.search(e["kind"], kind):
                # debug_assert!(a == b) and debug_assert_eq!(a, b) are one assertion spelled two ways; what is asserted
                # is compared through the assertion's signature, not through the macro's name
                if not (kind.startswith("Panic:debug_assert") and re.search(r"Panic:debug_assert", e["kind"])):
                    continue
            cands.append(e)
            if e.get("desc") and not re.search(e["desc"], kd):
                continue
            return e
        # an assertion whose condition was respelled (matches!, helper predicate): if the function has exactly
        # one audited entry of this assertion kind, it is that assertion
        if kind.startswith("Panic:") and len(cands) == 1 and not cands[0]["class"].startswith("known-finding"):
            return cands[0]
        return None


# ------------------------------------------------------------------ R-TERM --

FINITE_ITERS = (r"std::slice::Iter(Mut)?<", r"std::ops::Range(Inclusive)?<", r"std::iter::Enumerate<std::slice::Iter", r"std::iter::Zip<", r"std::str::(Bytes|Chars|CharIndices|EncodeUtf16)",
                r"std::path::Components", r"std::array::IntoIter", r"std::iter::Take<", r"std::iter::Map<std::str::Chars", r"std::vec::IntoIter", r"std::iter::Copied<std::slice::Iter", r"std::iter::Rev<")


def _loop_cycle_passes(pg, fn, header, body, nodeset):
    """True iff every cycle through the loop header passes a node of nodeset."""
    start = pg.entry_of(header)
    body_nodes_ok = lambda n: (n[1] in body)
    seen = set()
    st = [m for m in pg.succ.get(start, [])]
    # walk forward inside the body, not through nodeset; do we come back to the header's entry?
    work = list(st)
    if start in nodeset:
        return True
    # first, advance from the header's own nodes
    while work:
        n = work.pop()
        if n in seen or n in nodeset:
            continue
        if not body_nodes_ok(n):
            continue
        if n == start:
            return False
        seen.add(n)
        work.extend(pg.succ.get(n, []))
    return True


def loop_certificates(ctx, f, header, body):
    v = view(ctx, f)
    pg = v.pg
    g = guards(ctx, f)
    pr = g.prov
    tbl = ctx.table("term")
    certs = []
    calls = [c for bb, c in v.calls.items() if bb in body]
    # exit edges
    exits = []
    for b in body:
        for k, tgt in enumerate(f.succ(b)):
            if tgt not in body and not f.blocks[tgt]["cleanup"]:
                exits.append((b, k, tgt))
    # ITER
    for c in calls:
        t = c.term
        if t.get("callee_trait") == "std::iter::Iterator" and t.get("callee_name") == "next" and t["args"]:
            l = op_local(t["args"][0])
            ity = peel(f.locals[l])["s"] if l is not None else ""
            if any(re.search(rx, ity) for rx in FINITE_ITERS):
                d = t["dest"]["local"]
                from cg import _switch_on_discr
                m = _switch_on_discr(f, t["target"], d) if t["target"] is not None else None
                if m is not None:
                    none_t = m.get(0, m["otherwise"])
                    if none_t not in body or any(e[2] == none_t for e in exits):
                        if _loop_cycle_passes(pg, f, header, body, {("t", c.bb)}):
                            certs.append("ITER(%s)" % ity.split("<")[0].split("::")[-1])
    # per-cycle call sets
    def every_cycle(pred, ok_edge=False):
        nodes = set()
        for c in calls:
            if pred(c):
                if ok_edge:
                    oks = v.ok_nodes(c.bb)
                    nodes.update(oks if oks else [("t", c.bb)])
                else:
                    nodes.add(("t", c.bb))
        return bool(nodes) and _loop_cycle_passes(pg, f, header, body, nodes)
    # SHRINK
    for c in calls:
        short = c.name.split("::")[-1]
        if short in ("pop", "truncate", "strip_suffix", "split_last", "remove") and c.term["args"]:
            cont = pr.operand(c.term["args"][0])
            grows = any(x.name.split("::")[-1] in ("push", "insert", "extend", "extend_from_slice", "resize", "append") and x.term["args"] and pr.operand(x.term["args"][0]) == cont for x in calls)
            if not grows and every_cycle(lambda x: x.name.split("::")[-1] == short and x.term["args"] and pr.operand(x.term["args"][0]) == cont):
                certs.append("SHRINK(%s)" % cont[-30:])
    # GROW-TO-BOUND
    for c in calls:
        if c.name.split("::")[-1] == "push" and c.term["args"]:
            cont = pr.operand(c.term["args"][0])
            atoms = g.atoms_at(("t", c.bb))
            if any(re.match(r"^\(Lt\(len\(%s\)," % re.escape(cont), a) for a in atoms) and every_cycle(lambda x: x.name.split("::")[-1] == "push" and pr.operand(x.term["args"][0]) == cont):
                certs.append("GROW-TO-BOUND(%s)" % cont[-20:])
    # SEEN-SET
    for c in calls:
        if c.name.split("::")[-1] == "contains" and ("HashSet" in c.name or "hash::set" in c.name or "<T, S, A>" in c.name) and c.term["args"]:
            sset = pr.operand(c.term["args"][0])
            ins = [x for x in calls if x.name.split("::")[-1] == "insert" and x.term["args"] and pr.operand(x.term["args"][0]) == sset]
            if not ins:
                continue
            # the `contains == true` edge must leave the loop
            d = c.term["dest"]["local"]
            leaves = False
            for b in body:
                t = f.blocks[b]["term"]
                if t["t"] == "switch" and op_local(t["discr"]) == d:
                    for val, tgt in t["arms"]:
                        pass
                    tgt_true = t["otherwise"]
                    reach = pg.reach([pg.entry_of(tgt_true)])
                    leaves = pg.entry_of(header) not in reach or tgt_true not in body
            if leaves and every_cycle(lambda x: x in ins) and every_cycle(lambda x: x is c):
                certs.append("SEEN-SET(%s)" % sset[-20:])
    # SEEN-SET, the other idiom: `if !seen.insert(id) { refuse }` - insert answers false for an element already there
    for c in calls:
        if c.name.split("::")[-1] == "insert" and ("HashSet" in c.name or "hash::set" in c.name or "<T, S, A>" in c.name or "BTreeSet" in c.name) and c.term["args"] and not c.term["dest"]["proj"]:
            sset = pr.operand(c.term["args"][0])
            d = c.term["dest"]["local"]
            leaves = False
            for b in body:
                t = f.blocks[b]["term"]
                if t["t"] == "switch" and t["discr"]["k"] in ("copy", "move") and not t["discr"]["place"]["proj"]:
                    dl = t["discr"]["place"]["local"]
                    neg = False
                    src = dl
                    for st in f.blocks[b]["stmts"]:
                        if st["s"] == "assign" and not st["place"]["proj"] and st["place"]["local"] == dl and st["rv"]["r"] == "unop" and st["rv"].get("op") == "Not" and op_local(st["rv"]["a"]) == d:
                            neg, src = True, d
                        elif st["s"] == "assign" and not st["place"]["proj"] and st["place"]["local"] == dl and st["rv"]["r"] == "use" and op_local(st["rv"]["op"]) == d:
                            src = d
                    if src != d:
                        continue
                    arms = dict((int(v_), tg_) for v_, tg_ in t["arms"])
                    # the edge on which insert returned FALSE (the element was there already)
                    tgt_dup = t["otherwise"] if neg else arms.get(0)
                    if tgt_dup is None:
                        continue
                    reach = pg.reach([pg.entry_of(tgt_dup)])
                    leaves = pg.entry_of(header) not in reach or tgt_dup not in body
            if leaves and every_cycle(lambda x: x is c):
                certs.append("SEEN-SET(%s)" % sset[-20:])
    # CHAIN-WALK / MARK-REFUSE / TRUSTED
    checked_next = tbl.get("checked_next", "Allocator::<F>::next$|MiniAllocator::<F>::next_mini_sector$")
    if every_cycle(lambda x: re.search(checked_next, x.name), ok_edge=True):
        first_exit = False
        for (b, k, tgt) in exits:
            if f.blocks[b]["term"]["t"] != "switch":
                continue
            for a in g.describe_all(b, *_edge_label(f, b, k)):
                # the id just obtained (a variable, or the checked lookup's result itself) equals the chain's first id
                if re.match(r"^\(Eq\((var:\w+|ok\(.*\)),(param:\w+|var:first\w*)\)\)$", a) and (a.startswith("(Eq(var:") or re.search(checked_next.replace("<F>::", "::").replace("$", "") .split("|")[0].split("::")[-1] + r"\(|next_mini_sector\(|::next\(", a)):
                    first_exit = True
        if first_exit:
            certs.append("CHAIN-WALK")
        mr = tbl.get("mark_refuse", "")
        if mr and every_cycle(lambda x: re.search(mr, x.name), ok_edge=True):
            certs.append("MARK-REFUSE")
        for fn_rx, inv in tbl.get("trusted_checked_walks", {}).items():
            if re.search(fn_rx, f.path):
                certs.append("TRUSTED(%s)" % inv)
    # COUNTER: a variable strictly incremented on every cycle and compared with a loop-invariant bound at an exit
    for (b, k, tgt) in exits:
        if f.blocks[b]["term"]["t"] != "switch":
            continue
        val, vals = _edge_label(f, b, k)
        for a in g.describe_all(b, val, vals):
            m = re.match(r"^\((Ge|Gt)\((var:\w+),(.*)\)\)$", a)
            if not m:
                continue
            var, bound = m.group(2), m.group(3)
            names = {nm: l for l, nm in f.debug_names().items()}
            l = names.get(var[4:])
            if l is None:
                continue
            incs = set()
            other_defs = False
            for d in pr.defs.get(l, []):
                if d[0] not in body:
                    continue
                dp = pr._def(d, 0, ())
                if re.match(r"^Add\(%s,const:[1-9]\d*\)$" % re.escape(var), dp):
                    incs.add(("t", d[0]) if d[1] == "t" else ("s", d[0], d[1]))
                else:
                    other_defs = True
            # the bound must not be changed in the loop: no store to / growth of what it mentions
            grows = False
            mcont = re.match(r"^len\((.*)\)$", bound)
            if mcont:
                for x in calls:
                    if x.name.split("::")[-1] in ("push", "insert", "extend", "extend_from_slice", "resize", "append", "push_str") and x.term["args"] and pr.operand(x.term["args"][0]) == mcont.group(1):
                        grows = True
            # a count the FILE states (a header word, a freshly read number) is not a bound on the input: it can be
            # 2^32 whatever the file's size, and every cycle of a parsing loop keeps what it read
            from prov import expand_var as _expand
            stated = any(re.search(r"\.num_(dir|fat|difat|minifat)_sectors|read_le_u(16|32|64)\(", e_) and not re.search(r"(^|[(,])(cmp::|Ord::)?min\(", e_) for e_ in _expand(f, bound, pr))
            if incs and not other_defs and not grows and not stated and _loop_cycle_passes(pg, f, header, body, incs):
                certs.append("COUNTER(%s < %s)" % (var, bound[:30]))
    # COUNTDOWN: a variable strictly decremented on every cycle, with an exit when it reaches zero
    for (b, k, tgt) in exits:
        if f.blocks[b]["term"]["t"] != "switch":
            continue
        val, vals = _edge_label(f, b, k)
        for a in g.describe_all(b, val, vals):
            m = re.match(r"^\((?:Eq|Le)\((var:\w+),const:0\)\)$", a) or re.match(r"^\(Lt\((var:\w+),const:1\)\)$", a)
            if not m:
                continue
            var = m.group(1)
            names = {nm: l for l, nm in f.debug_names().items()}
            l = names.get(var[4:])
            if l is None:
                continue
            decs, other_defs = set(), False
            for d in pr.defs.get(l, []):
                if d[0] not in body:
                    continue
                dp = pr._def(d, 0, ())
                if re.match(r"^Sub\(%s,const:[1-9]\d*\)$" % re.escape(var), dp):
                    decs.add(("t", d[0]) if d[1] == "t" else ("s", d[0], d[1]))
                else:
                    other_defs = True
            if decs and not other_defs and _loop_cycle_passes(pg, f, header, body, decs):
                certs.append("COUNTDOWN(%s)" % var)
    # link-field walks
    links = tbl.get("link_fields", ["left_sibling", "right_sibling", "child"])
    carried_from_link = False
    for b in body:
        for i, st in enumerate(f.blocks[b]["stmts"]):
            if st["s"] == "assign" and not st["place"]["proj"] and st["place"]["local"] in f.debug_names():
                dp = pr._def((b, i, st), 0, ())
                alts = dp[4:-1].split("|") if dp.startswith("phi(") else [dp]
                if any(a.endswith("." + lf) for a in alts for lf in links):
                    carried_from_link = True
    if carried_from_link and not re.search(tbl.get("establishers", {}).get("I-TREE-ACYCLIC", "$^"), f.path):
        certs.append("TRUSTED(I-TREE-ACYCLIC)")
    for fn_rx, inv in tbl.get("trusted_raw_walks", {}).items():
        if re.search(fn_rx, f.path):
            certs.append("TRUSTED(%s)" % inv)
    return certs


def _edge_label(f, b, k):
    t = f.blocks[b]["term"]
    vals = [str(x) for x, _ in t["arms"]] + ["otherwise"]
    return vals[k], vals


def term(which):
    def run(ctx):
        res = RuleResult("R-TERM(%s)" % which, "every loop reachable from the %s surface has a termination certificate that does not depend on the file being sane" % which)
        surf = surface(ctx, which)
        n = 0
        for p, f in sorted(surf.items()):
            for (h, body, back) in natural_loops(f):
                n += 1
                certs = loop_certificates(ctx, f, h, body)
                line = f.blocks[h]["term"]["span"]["line"]
                if certs:
                    res.ok({"function": p, "loop_line": line, "certificates": certs}, nontrivial=True)
                else:
                    callees = sorted(set(c.name.split("::")[-1] for bb, c in view(ctx, f).calls.items() if bb in body))[:8]
                    res.fail(Finding(res.rule, "%s/%s/loop-without-certificate/%s" % (res.rule, p, "+".join(callees)[:80]),
                                     "loop (line %d) has no termination certificate (no finite std iterator, no shrinking collection, no seen-set, no checked chain walk with first-sector test, no listed acyclicity invariant): a crafted file could keep it running for ever; calls in the loop: %s" % (line, ", ".join(callees)), f, f.blocks[h]["term"]["span"]))
        res.floor("loops", n, ctx.table("floors").get("term_loops_" + which, 0))
        return res
    return run


# ----------------------------------------------------------------- R-ALLOC --

ALLOC_FNS = {"with_capacity": 0, "from_elem": 1, "resize": 1, "reserve": 1, "reserve_exact": 1, "with_capacity_in": 0, "try_reserve": 1, "repeat": 1}
ALLOC_LIMIT = 1 << 20


def alloc(which):
    def run(ctx):
        from bounds import MirBounds
        res = RuleResult("R-ALLOC(%s)" % which, "no single allocation takes its size from file contents (or an unclamped caller value) without a bound: constant / interval-bounded, guarded by a comparison with a constant, clamped through min(), or the length of an already materialised chain")
        surf = surface(ctx, which)
        tbl = ctx.table("alloc")
        n = 0
        for p, f in sorted(surf.items()):
            g = None
            for c in ctx.cg.calls[f.path]:
                if c.kind != "call":
                    continue
                short = c.name.split("::")[-1]
                if short not in ALLOC_FNS or not re.search(r"vec::|Vec|String|slice|from_elem", c.name):
                    continue
                ai = ALLOC_FNS[short]
                if ai >= len(c.term["args"]):
                    continue
                n += 1
                g = g or guards(ctx, f)
                size = c.term["args"][ai]
                sp = g.prov.operand(size)
                ub = MirBounds(ctx, f).operand(size)
                atoms = norm_atoms(g.atoms_at(("t", c.bb)))
                key = "%s/%s/%s" % (res.rule, p, short)
                why = None
                if ub is not None and ub <= ALLOC_LIMIT:
                    why = "interval: size <= %d" % ub
                if why is None:
                    for (rop, x, y) in rel_atoms(atoms):
                        if x == sp and rop in ("Lt", "Le") and re.match(r"^const:", y):
                            why = "guarded: size %s %s on every path" % (rop, y)
                if why is None and re.search(r"(Ord|cmp)::min\(", sp) and re.search(tbl.get("clamp_sources", r"max_size"), sp):
                    why = "clamped through min(.., configured maximum)"
                if why is None and re.search(r"(Ord|cmp)::min\(", sp) and re.search(r"Sectors::num_sectors\(|SeekFrom::End\(", sp):
                    why = "clamped through min(.., the number of sectors the file really has): proportional to the input's own size"
                if why is None and re.search(r"Chain::len\(", sp):
                    why = "length of a chain that has already been materialised sector by sector"
                if why is None:
                    for e in tbl.get("audited", []):
                        if re.search(e["function"], p) and re.search(e["size"], key_of(sp)):
                            miss = [rx for rx in e.get("require", []) if not atoms_match(rx, atoms)]
                            if miss:
                                res.fail(Finding(res.rule, key + "/guard-gone", "allocation of %s bytes: the audited bound (%s) needs a guard that no longer dominates it: %s" % (sp[:60], e["reason"], miss[0]), f, c.term["span"]))
                                why = "x"
                            else:
                                why = "audited: " + e["reason"]
                            break
                if why == "x":
                    continue
                if why:
                    res.ok({"function": p, "alloc": short, "size": sp[:80], "bounded": why}, nontrivial=True)
                else:
                    res.fail(Finding(res.rule, key + "/unbounded-size", "allocation (%s) sized by %s, which is read from the file or supplied by the caller without a bound: a few corrupted bytes can demand gigabytes" % (short, sp[:120]), f, c.term["span"]))
        res.floor("allocation sites", n, ctx.table("floors").get("alloc_sites_" + which, 0))
        return res
    return run


# ------------------------------------------------------------------ R-SINK --

def sink(which):
    def run(ctx):
        res = RuleResult("R-SINK(%s)" % which, "every panic-capable site (bounds / overflow / division checks, index calls, unwrap, assertion and panic expansions) reachable from the %s surface is discharged: by interval evaluation, by a dominating guard, by an id qualifier, or by an audited table entry whose required guards still dominate it" % which)
        surf = surface(ctx, which)
        cl = Classifier(ctx)
        n = 0
        classes = {}
        for p, f in sorted(surf.items()):
            for s in enumerate_sinks(f):
                n += 1
                desc, atoms, auto = cl.classify(f, s)
                key = "%s/%s/%s/%s" % (res.rule, p, s["kind"], key_of(desc)[:140])
                if not auto and "(const:0)" in atoms:
                    # behind a test of a constant that is false in this profile: `cfg!(debug_assertions)` in a release
                    # build - the assertion is not compiled in
                    auto = ("dead", "behind a constant-false test (a debug assertion in a profile without debug assertions)")
                if auto:
                    classes[auto[0]] = classes.get(auto[0], 0) + 1
                    res.ok({"function": p, "sink": desc[:100], "class": auto[0], "why": auto[1]}, nontrivial=(auto[0] != "const/iter"))
                    continue
                e = cl.audited(f, s["kind"], desc, atoms)
                if e is None:
                    res.fail(Finding(res.rule, key + "/unclassified", "panic-capable site %s is not discharged by any interval, guard, qualifier or audited entry (conditions on the path: %s)" % (desc[:160], "; ".join(a[:70] for a in atoms[:4]) or "none"), f, s["span"]))
                    continue
                na = norm_atoms(atoms) + atoms
                # an audited entry covers the sinks that were read when it was written, not whatever appears later
                frozen = ctx.table("sink_keys").get("functions", {}).get(p)
                skey = "%s|%s" % (s["kind"], shape_of(desc))
                # (applied to function-wide entries only, and by sink kind: a finer key makes ordinary refactoring -
                # a loop counter, a re-bound operand - look like a new site)
                if frozen is not None and not e.get("kind") and not e.get("desc") and not any(k_.split("|")[0] == s["kind"] for k_ in frozen) and not e["class"].startswith("known-finding") \
                        and not (s["kind"].startswith("Panic:") and ctx.table("sink_keys").get("panics") is not None):
                    res.fail(Finding(res.rule, key + "/new-sink-under-old-audit", "panic-capable site %s is new in %s: the audited discharge for this function (%s) was written for other sites and does not cover it (conditions on the path: %s)" % (desc[:140], p.split("::")[-1], e["reason"][:100], "; ".join(a[:60] for a in atoms[:3]) or "none"), f, s["span"]))
                    continue
                # an assertion is covered by the audit only if it was there when the audit was made: the same thing
                # asserted (fields / constants / functions of its own condition), however it is spelled
                psigs = ctx.table("sink_keys").get("panics")
                if psigs is not None and s["kind"].startswith("Panic:") and not e["class"].startswith("known-finding"):
                    sig = cl.panic_signature(f, s)
                    if sig not in psigs.get(p, []):
                        res.fail(Finding(res.rule, "%s/%s/%s/assertion-not-in-audit/%s" % (res.rule, p, s["kind"], sig[:80]), "the assertion / panic about {%s} in %s was not there when this function's panic sites were audited (%s): nothing establishes that it cannot fire (its condition: %s)" % (sig[:100], p.split("::")[-1], e["reason"][:80], "; ".join(a[:80] for a in cl.own_condition(f, s)[:2]) or "unconditional"), f, s["span"]))
                        continue
                miss = [rx for rx in e.get("require", []) if not atoms_match(rx, na)]
                cls = e["class"]
                reason = e["reason"]
                if which == "read" and e.get("class_read"):
                    cls = e["class_read"]
                    reason = e.get("reason_read", reason)
                if miss:
                    res.fail(Finding(res.rule, key + "/guard-no-longer-dominates", "%s: the audited discharge (%s) needs a guard matching %s, which no longer dominates the site" % (desc[:120], e["reason"][:120], miss[0]), f, s["span"]))
                    continue
                # guarded-at-caller: every call site of this function carries the guard (or the guard now sits here)
                rc = e.get("require_callers")
                if rc and not all(atoms_match(rx, na) for rx in rc):
                    callers = []
                    for f2 in ctx.fx.fns.values():
                        for c2 in ctx.cg.calls[f2.path]:
                            if c2.kind == "call" and any(g2.path == f.path for g2 in c2.targets):
                                callers.append((f2, c2))
                    badc = None
                    for (f2, c2) in callers:
                        at2 = guards(ctx, f2).atoms_at(("t", c2.bb))
                        if not all(atoms_match(rx, at2 + norm_atoms(at2)) for rx in rc):
                            badc = (f2, c2)
                            break
                    if badc or not callers:
                        res.fail(Finding(res.rule, key + "/caller-guard-missing", "%s: the audited discharge (%s) relies on every caller establishing %s; %s does not" % (desc[:120], e["reason"][:120], rc[0][:80], ("%s (line %d)" % (badc[0].path.split("::")[-1], badc[1].line)) if badc else "no caller found"), f, s["span"]))
                        continue
                if cls.startswith("known-finding"):
                    fd = Finding(res.rule, "R-SINK/%s/%s/%s%s" % (cls.split(":")[1], p, s["kind"], "" if s["kind"].startswith("Panic") else "/" + key_of(desc)[:110]), "%s: %s" % (desc[:120], e["reason"]), f, s["span"])
                    res.fail(fd)
                    continue
                classes[cls.split("(")[0]] = classes.get(cls.split("(")[0], 0) + 1
                res.ok({"function": p, "sink": desc[:100], "class": cls, "why": reason[:160]}, nontrivial=True)
        res.notes.append({"classes": classes})
        res.floor("sinks", n, ctx.table("floors").get("sinks_" + which, 0))
        return res
    return run


def qual_rule(which):
    def run(ctx):
        from qual import Qual
        res = RuleResult("R-QUAL(%s)" % which, "every id that reaches a trusted index / raw walk carries its qualifier: TreeId (ROOT, a successful lookup, a fresh slot, or a link compared with NO_STREAM), ChainStart / MiniSectorId (member of a chain validated by the checked next lookup)")
        surf = surface(ctx, which)
        n = 0
        for kind, spec in ctx.table("qual").items():
            if kind.startswith("_"):
                continue
            q = Qual(ctx, spec)
            for (sinkfn, ai) in spec["sinks"]:
                for (cf, cc) in q.callers_of(sinkfn):
                    if cf.path not in surf:
                        continue
                    n += 1
                    ok, why = q.check(cf, cc, ai)
                    if ok:
                        res.ok({"kind": kind, "caller": cf.path, "sink": sinkfn.split("::")[-1], "why": why[:120]}, nontrivial=True)
                    else:
                        res.fail(Finding(res.rule, "%s/%s/%s/%s" % (res.rule, kind, cf.path, sinkfn.split("::")[-1]),
                                         "%s receives an id that is not a %s: %s" % (sinkfn.split("::")[-1], kind, why[:260]), cf, cc.term["span"]))
            # audited contracts: every caller satisfies the requirement
            for ac in spec.get("audited_contract", []):
                for (cf, cc) in q.callers_of(ac["function"]):
                    # walk up through thin forwarders until the requirement is visible
                    n += 1
                    if _caller_satisfies(ctx, q, cf, cc, ac["caller_requirement"], 0):
                        res.ok({"kind": kind, "contract": ac["function"].split("::")[-1], "caller": cf.path, "requirement": "dominated by a successful lookup"}, nontrivial=True)
                    else:
                        res.fail(Finding(res.rule, "%s/%s/contract/%s" % (res.rule, kind, cf.path), "%s is called without a dominating successful lookup of the name (%s)" % (ac["function"].split("::")[-1], ac["reason"][:120]), cf, cc.term["span"]))
        res.floor("qualified call sites", n, ctx.table("floors").get("qual_sites_" + which, 0))
        return res
    return run


def _caller_satisfies(ctx, q, cf, cc, rx, depth):
    g = guards(ctx, cf)
    atoms = g.atoms_at(("t", cc.bb))
    if any(re.search(rx, a) for a in atoms):
        return True
    # an Option::unwrap of the lookup right before also counts
    pr = g.prov
    for c2 in ctx.cg.calls[cf.path]:
        if c2.kind == "call" and c2.name.split("::")[-1] in ("unwrap", "expect") and c2.term["args"]:
            if re.search(r"stream_id_for_name_chain\(", pr.operand(c2.term["args"][0])):
                v = view(ctx, cf)
                if ("t", cc.bb) in v.pg.reach_after(("t", c2.bb)):
                    return True
    if depth < 3:
        callers = q.callers_of(cf.path)
        if callers and all(_caller_satisfies(ctx, q, f2, c2, rx, depth + 1) for (f2, c2) in callers):
            return True
    return False


def treeid_in(pid, prefix, why):
    """R-TREEID: the TreeId part of R-QUAL, for the functions under `prefix` only and with its own clause."""
    def run(ctx):
        from qual import Qual
        res = RuleResult("R-TREEID(%s)" % pid, why)
        spec = ctx.table("qual").get("TreeId")
        n = 0
        if spec:
            q = Qual(ctx, spec)
            for (sinkfn, ai) in spec["sinks"]:
                for (cf, cc) in q.callers_of(sinkfn):
                    if not cf.path.startswith(prefix):
                        continue
                    n += 1
                    ok, reason = q.check(cf, cc, ai)
                    if ok:
                        res.ok({"caller": cf.path, "sink": sinkfn.split("::")[-1], "why": reason[:120]}, nontrivial=True)
                    else:
                        res.fail(Finding(res.rule, "R-TREEID/%s/%s" % (cf.path, sinkfn.split("::")[-1]), "%s: %s reaches an entry through an id that does not come from the walk (ROOT, a link compared with NO_STREAM, a lookup, a fresh slot): %s" % (cf.path.split("::")[-1], sinkfn.split("::")[-1], reason[:220]), cf, cc.term["span"]))
        res.floor("tree positions", n, ctx.table("floors").get("treeid_sites_" + pid, 0))
        return res
    return run
