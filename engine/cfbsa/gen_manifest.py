"""Regenerates /verif/MANIFEST.json from props.PROPS (claimed checks) and
NOT_APPLICABLE; validates it against the schema when jsonschema is present."""
import json
import os
import sys

sys.path.insert(0, os.path.dirname(os.path.abspath(__file__)))
import props  # noqa: E402

VERIF = os.path.dirname(os.path.dirname(os.path.dirname(os.path.abspath(__file__))))

NOT_APPLICABLE = {
    "C01": "equivalence with an abstract tree model over all operation histories is a statement about values (BST insert/removal results, listing order, stream bytes), not about code shape; no sound static argument in reach bounds it. Its structural clauses are decided under C09 (validation, comparator), C10 (refusal kinds, check-before-effect) and C07 (slot stability).",
    "C04": "quantifies over all spec-valid foreign byte layouts and demands the exposed logical content equals the encoded one: value-level (which sector is read for which offset, how names compare). No structural necessary condition specific to foreign layouts exists beyond those decided under C03/C17 (layout agreement) and C05 (termination, guarded access).",
}

all_ids = [json.loads(l)["id"] for l in open(os.path.join(VERIF, "properties.jsonl"))]
checks = []
for pid in sorted(props.PROPS):
    sp = props.PROPS[pid]
    checks.append({
        "property_id": pid,
        "quick_cmd": "./check %s --tier quick" % pid,
        "thorough_cmd": "./check %s --tier thorough" % pid,
        "evidence_file": "/verif/evidence/%s.json" % pid,
        "replay_cmd_template": "./check explain {path}",
        "engine": "cfbsa",
        "level_claimed": {
            "category": "other",
            "text": sp.get("level_text", "Static analysis of rustc MIR: decides a named structural clause that is a necessary condition of the property on every path of the current source (not the behavioural whole). " + sp["explanation"]),
            "design_ref": "DESIGN.md section 4, " + pid,
        },
        "level_note": sp.get("level_note", "Trusted: rustc's MIR for the dev profile, std/uuid/fnv/web-time bodies, the frozen rule tables in /verif/rules (instances confirmed by reading). Not decided: " + sp.get("not_decided", "")),
        "technique": sp.get("technique", "static analysis: custom MIR dataflow / path rules over a rustc_private fact dump"),
    })
na = []
for pid in all_ids:
    if pid in props.PROPS:
        continue
    na.append({"property_id": pid, "reason": NOT_APPLICABLE.get(pid, "check not built yet (build in progress; see DESIGN.md section 8)")})
m = {
    "version": 1,
    "setup_cmd": "cd /verif/engine/driver && CARGO_NET_OFFLINE=true cargo +nightly build --release --offline",
    "hooks": {
        "guard": "cfb_verif",
        "enable": "none needed: nothing in /repo is instrumented or executed; the checks read rustc's MIR of the unmodified source",
        "baseline_off_cmd": "cd /repo && cargo test --workspace --no-fail-fast --offline",
        "source_commits": [],
        "add_only": True,
    },
    "engines": [{
        "name": "cfbsa", "path": "/verif/engine",
        "serves_properties": sorted(props.PROPS),
        "kind_free_text": "nightly rustc_private driver (RUSTC_WORKSPACE_WRAPPER under cargo +nightly check, fresh target dir) dumping type-checked MIR facts as JSON; Python stdlib rule library (call graph + effect closure, point-graph path queries, ?-edge classification, provenance, guard context, taint); frozen rule tables; canary crate; known-findings filter",
    }],
    "checks": checks,
    "not_applicable": na,
    "notes": "All claimed checks are static (no code of /repo is run). Each decides a structural clause named in DESIGN.md, not the whole behavioural property. fix: commits in /repo repair genuine defects the rules reported; see known_findings.json.",
}
with open(os.path.join(VERIF, "MANIFEST.json"), "w") as f:
    json.dump(m, f, indent=1)
try:
    import jsonschema
    jsonschema.validate(m, json.load(open("/root/.vp/MANIFEST.schema.json")))
    print("MANIFEST.json valid; %d checks, %d not_applicable" % (len(checks), len(na)))
except ImportError:
    print("MANIFEST.json written (jsonschema not available for validation)")
