"""R-UNITS: dimension check.  The allocation layers mix five kinds of quantity - bytes, sectors, mini sectors,
directory entries and 4-byte table cells - and convert between them with sector_len, MINI_SECTOR_LEN, DIR_ENTRY_LEN
and size_of::<u32>().  Every comparison, sum and difference whose two operands have a derivable dimension must have
the same one.  (A table cell stands for the sector / mini sector it describes, so cells compare with those; a
per-unit constant added to a byte quantity means 'one more unit'.)  Operands whose dimension cannot be derived give
no verdict."""
import re

from core import Finding, RuleResult, view
from prov import Prov, guards, _split_top

B, S, M, D, C = "B", "S", "M", "D", "C"


def _mk(**kw):
    return {k: v for k, v in kw.items() if v}


BYTES = _mk(B=1)
ONE = {}

LEAVES = [
    (r"(sector_len\()", _mk(B=1, S=-1)),
    (r"^const:(\w+::)*MINI_SECTOR_LEN$", _mk(B=1, M=-1)),
    (r"^const:(\w+::)*DIR_ENTRY_LEN$", _mk(B=1, D=-1)),
    (r"^mem::size_of\(\)$|^size_of\(\)$", _mk(B=1, C=-1)),
    (r"^const:(\w+::)*(MINI_STREAM_CUTOFF|HEADER_LEN)$", BYTES),
    (r"\.(stream_len|total_len|buf_offset_from_start|offset_from_start|offset_within_sector)$", BYTES),
    (r"^param:(new_stream_len|new_len|stream_len|size|from|buf_offset_from_start|offset|offset_within_sector|offset_within_subsector|inner_len|remaining|position)$", BYTES),
    (r"^(Chain|MiniChain|Sector)::len\(|^Stream::current_position\(|^StreamBuffer::(cursor|filled_len)\(", BYTES),
    (r"^len\(param:buf\)$|^len\(var:(tmp|buf)\)$", BYTES),
    (r"(^|::)num_sectors\(|\.num_(fat|difat|dir|minifat)_sectors$", _mk(S=1)),
    (r"^const:(\w+::)*MAX_REGULAR_SECTOR$", _mk(S=1)),
    (r"^len\((param:self\.|var:)(difat|difat_sector_ids)\)$", _mk(S=1)),
    (r"^len\((param:self\.|var:)(fat|minifat)\)$", _mk(C=1)),
    (r"^len\((param:self\.|var:)dir_entries\)$", _mk(D=1)),
]


def _mul(a, b, sign=1):
    out = dict(a)
    for k, v in b.items():
        out[k] = out.get(k, 0) + sign * v
    return {k: v for k, v in out.items() if v}


def dim(x, fpath="", depth=0):
    """Dimension (dict base -> exponent), ONE for a pure number, or None when it cannot be derived."""
    x = x.strip()
    if depth > 12 or not x or x == "_":
        return None
    m = re.match(r"^const:(\d+)(_\w+)?$", x)
    if m:
        return ONE
    for rx, d in LEAVES:
        if re.search(rx, x) and not re.match(r"^(Mul|Div|Add|Sub|Rem|phi|cast|ok|deref|Ord::|cmp::|<impl)", x):
            return d
    if re.match(r"^len\(param:self\.sector_ids\)$", x):
        return _mk(M=1) if "minichain" in fpath else _mk(S=1)
    m = re.match(r"^(cast|ok|deref)\((.*)\)$", x)
    if m:
        return dim(m.group(2), fpath, depth + 1)
    m = re.match(r"^(Mul|Div|Add|Sub|Rem|Ord::min|Ord::max|cmp::min|cmp::max|<impl \w+>::(div_ceil|saturating_mul|saturating_add|saturating_sub|checked_add|checked_sub|checked_mul|min|max|next_multiple_of))\((.*)\)$", x)
    if m:
        op = m.group(1)
        parts = _split_top(m.group(3))
        if len(parts) != 2:
            return None
        a, b = dim(parts[0], fpath, depth + 1), dim(parts[1], fpath, depth + 1)
        # a bare literal (other than 0 or 1) multiplying or dividing a dimensioned quantity is usually a conversion
        # factor written as a number (4 bytes per cell): the result's dimension is not derivable
        def lit(p_):
            m_ = re.match(r"^(?:cast\()?const:(\d+)(_\w+)?\)?$", p_.strip())
            return m_ is not None and int(m_.group(1)) > 1
        if op in ("Mul", "Div") or op.endswith(("saturating_mul", "checked_mul", "div_ceil")):
            if (lit(parts[0]) and b not in (None, ONE)) or (lit(parts[1]) and a not in (None, ONE)):
                return None
        if op == "Mul" or op.endswith("saturating_mul") or op.endswith("checked_mul"):
            return None if a is None or b is None else _mul(a, b)
        if op == "Div" or op.endswith("div_ceil"):
            return None if a is None or b is None else _mul(a, b, -1)
        if op == "Rem" or op.endswith("next_multiple_of"):
            return a
        # additive / min / max: the dimension of whichever side is known (a mismatch is reported where it occurs)
        a2, b2 = _coerce(a), _coerce(b)
        if a2 is not None and a2 != ONE:
            return a2
        if b2 is not None and b2 != ONE:
            return b2
        return a2 if a2 is not None else b2
    m = re.match(r"^phi\((.*)\)$", x)
    if m:
        ds = [dim(p, fpath, depth + 1) for p in m.group(1).split("|")]
        ds = [d for d in ds if d is not None and d != ONE]
        if ds and all(d == ds[0] for d in ds):
            return ds[0]
        return None
    return None


def _coerce(d):
    """A per-unit constant standing alone in a sum or comparison means 'one unit of it', in bytes."""
    if d is not None and d.get(B) == 1 and len(d) == 2 and -1 in d.values():
        return BYTES
    return d


def compatible(a, b):
    a, b = _coerce(a), _coerce(b)
    if a is None or b is None or a == ONE or b == ONE or a == b:
        return True
    cells = ({C: 1}, {S: 1}), ({C: 1}, {M: 1})
    if (a, b) in cells or (b, a) in cells:
        return True
    return False


def fmt(d):
    if d == ONE:
        return "number"
    names = {B: "bytes", S: "sectors", M: "mini sectors", D: "directory entries", C: "table cells"}
    num = [names[k] + ("^%d" % v if v != 1 else "") for k, v in d.items() if v > 0]
    den = [names[k] + ("^%d" % -v if v != -1 else "") for k, v in d.items() if v < 0]
    return (" * ".join(num) or "1") + ((" per " + " per ".join(den)) if den else "")


def units(pid):
    def run(ctx):
        from rules_sink import _edge_label
        res = RuleResult("R-UNITS(%s)" % pid, "every comparison, sum and difference in the allocation, chain, stream and open code whose two operands have a derivable dimension (bytes, sectors, mini sectors, directory entries, table cells) has the same dimension on both sides")
        n = 0
        seen = set()
        for f in ctx.fx.fns.values():
            if not (re.search(r"^internal::(alloc|minialloc|chain|minichain|stream|directory|sector)::|^<internal::(chain|minichain|stream|sector)::", f.path) or f.path.endswith("::open_internal") or "create_with_version" in f.path):
                continue
            g = None
            pr = None
            # comparisons
            for b, blk in enumerate(f.blocks):
                if blk["cleanup"] or blk["term"]["t"] != "switch":
                    continue
                g = g or guards(ctx, f)
                for k, tgt in enumerate(f.succ(b)):
                    val, vals = _edge_label(f, b, k)
                    for a in g.describe_all(b, val, vals):
                        m = re.match(r"^\((Gt|Ge|Lt|Le|Eq|Ne)\((.*)\)\)$", a)
                        if not m:
                            continue
                        ops = _split_top(m.group(2))
                        if len(ops) != 2:
                            continue
                        key = (f.path, tuple(sorted(ops)))
                        if key in seen:
                            continue
                        seen.add(key)
                        da, db = dim(ops[0], f.path), dim(ops[1], f.path)
                        if da is None or db is None or da == ONE or db == ONE:
                            continue
                        n += 1
                        if compatible(da, db):
                            res.ok({"function": f.path, "comparison": a[:100], "dimension": fmt(_coerce(da))}, nontrivial=True)
                        else:
                            res.fail(Finding(res.rule, "R-UNITS/%s/comparison" % f.path, "%s compares %s with %s (%s): the two sides count different things, so the test is true (or false) for the wrong sizes" % (f.path.split("::")[-1], fmt(_coerce(da)), fmt(_coerce(db)), a[:140]), f, blk["term"]["span"]))
            # sums and differences
            for b, blk in enumerate(f.blocks):
                if blk["cleanup"]:
                    continue
                for i, st in enumerate(blk["stmts"]):
                    if st["s"] != "assign" or st["rv"]["r"] != "binop" or not re.match(r"^(Add|Sub)", st["rv"]["op"]):
                        continue
                    pr = pr or Prov(f)
                    p = pr._def((b, i, st), 0, ())
                    m = re.match(r"^(Add|Sub)\((.*)\)$", p)
                    if not m:
                        continue
                    ops = _split_top(m.group(2))
                    if len(ops) != 2:
                        continue
                    da, db = dim(ops[0], f.path), dim(ops[1], f.path)
                    if da is None or db is None or da == ONE or db == ONE:
                        continue
                    n += 1
                    if compatible(da, db):
                        res.ok({"function": f.path, "expression": p[:100], "dimension": fmt(_coerce(da))})
                    else:
                        res.fail(Finding(res.rule, "R-UNITS/%s/sum" % f.path, "%s adds or subtracts %s and %s (%s)" % (f.path.split("::")[-1], fmt(_coerce(da)), fmt(_coerce(db)), p[:140]), f, st["span"]))
            # min / max of two quantities
            v = view(ctx, f)
            for bb, c in sorted(v.calls.items()):
                if not re.search(r"(^|::)(min|max)$", c.name) or len(c.term["args"]) != 2:
                    continue
                pr = pr or Prov(f)
                ops = [pr.operand(a) for a in c.term["args"]]
                da, db = dim(ops[0], f.path), dim(ops[1], f.path)
                if da is None or db is None or da == ONE or db == ONE:
                    continue
                n += 1
                if compatible(da, db):
                    res.ok({"function": f.path, "expression": "%s(%s, %s)" % (c.name.split("::")[-1], ops[0][:40], ops[1][:40]), "dimension": fmt(_coerce(da))})
                else:
                    res.fail(Finding(res.rule, "R-UNITS/%s/minmax" % f.path, "%s takes the %s of %s and %s (%s ; %s): the smaller NUMBER of two different kinds of thing means nothing" % (f.path.split("::")[-1], c.name.split("::")[-1], fmt(_coerce(da)), fmt(_coerce(db)), ops[0][:70], ops[1][:70]), f, c.term["span"]))
        res.floor("dimensioned comparisons and sums", n, ctx.table("floors").get("units_sites", 0))
        return res
    return run
