"""Directory-entry rules: R-GSTORE (C03, C17), R-RELOC and R-HSTORE (C07)."""
import re

from cg import op_local, peel
from core import Finding, RuleResult, view
from dataflow import forward_taint
from prov import Prov, guards

DIRENTRY = "internal::direntry::DirEntry"
NOT_STREAM = [r"obj_type is not ObjType::Stream$", r"obj_type is ObjType::(Storage|Root)$"]


def _excludes_stream(atoms):
    return any(re.search(rx, a) for rx in NOT_STREAM for a in atoms)


def _entry_field_stores(f, fields):
    out = []
    for bb, blk in enumerate(f.blocks):
        if blk["cleanup"]:
            continue
        for i, st in enumerate(blk["stmts"]):
            if st["s"] != "assign":
                continue
            pj = st["place"]["proj"]
            fl = [e for e in pj if e["p"] == "field"]
            if fl and any(e["p"] == "deref" for e in pj) and fl[0]["owner"] == DIRENTRY and fl[0]["name"] in fields:
                out.append((("s", bb, i), fl[0]["name"], st))
    return out


def gstore(ctx):
    res = RuleResult("R-GSTORE", "streams never receive a CLSID or timestamps: every store to DirEntry.{clsid,creation_time,modified_time} is guarded by a test that excludes ObjType::Stream, and only storages are stamped at creation")
    fields = ("clsid", "creation_time", "modified_time")
    n = 0
    for f in ctx.fx.fns.values():
        stores = _entry_field_stores(f, fields)
        if not stores:
            continue
        g = guards(ctx, f)
        for (node, fld, st) in stores:
            n += 1
            atoms = g.atoms_at(node)
            key = "R-GSTORE/%s/%s" % (f.path, fld)
            if _excludes_stream(atoms) and fld in ("creation_time", "modified_time") and any(re.search(r"obj_type is ObjType::Storage$", a) for a in atoms) and not f.path.startswith("internal::"):
                res.fail(Finding("R-GSTORE", key + "/root-excluded", "DirEntry.%s is stored only where the entry is a Storage: the root storage, whose times can be set as well, is silently left unchanged (the guard the format needs is `not a stream`)" % fld, f, st["span"]))
                continue
            if _excludes_stream(atoms):
                res.ok({"function": f.path, "field": fld, "guard": [a[-90:] for a in atoms if "obj_type" in a][:2]}, nontrivial=True)
                continue
            ok = False
            why = []
            if f.kind == "closure":
                parent = ctx.fx.fns.get(f.parent)
                sites = []
                if parent is not None:
                    for c in ctx.cg.calls[parent.path]:
                        if c.kind == "call" and any(x.path == f.path for x in c.closures):
                            sites.append(c)
                if sites:
                    ok = True
                    pg_ = guards(ctx, parent)
                    for c in sites:
                        if not _excludes_stream(pg_.atoms_at(("t", c.bb))):
                            ok = False
                            why.append("call site in %s (line %d) has no test excluding streams" % (parent.path, c.line))
                    if ok:
                        res.ok({"function": f.path, "field": fld, "guard": "in the caller %s before the closure is applied" % parent.path}, nontrivial=True)
                        continue
            res.fail(Finding("R-GSTORE", key + "/unguarded", "DirEntry.%s is stored without a dominating test that excludes ObjType::Stream%s: a stream entry could receive %s" % (fld, ("; " + "; ".join(why)) if why else "", "a CLSID" if fld == "clsid" else "a timestamp"), f, st["span"]))
    # stamping at creation
    for f in ctx.fx.fns.values():
        for c in ctx.cg.calls[f.path]:
            if c.kind == "call" and c.name == DIRENTRY + "::new" and len(c.term["args"]) >= 3:
                tl = op_local(c.term["args"][2])
                if tl is None:
                    continue
                g = guards(ctx, f)
                for c2 in ctx.cg.calls[f.path]:
                    if c2.kind == "call" and re.search(r"Timestamp::(now|from_system_time)$", c2.name) and not c2.term["dest"]["proj"]:
                        if tl in forward_taint(f, {c2.term["dest"]["local"]}):
                            n += 1
                            atoms = g.atoms_at(("t", c2.bb))
                            # ... and it is the stamp of a new STORAGE (a storage's times lie between the clock readings
                            # around its creation): the branch must be one that storages take - a test for another
                            # type (Root, which is never inserted) leaves every new storage with zero times
                            if _excludes_stream(atoms) and any(re.search(r" is ObjType::(?!Storage)\w+$", a) for a in atoms) and not any(re.search(r" is ObjType::Storage$", a) for a in atoms):
                                res.fail(Finding("R-GSTORE", "R-GSTORE/%s/creation-stamp-not-for-storages" % f.path, "the creation timestamp is taken on a branch that a new storage does not take (%s): storages are created with zero times instead of the clock reading" % "; ".join(a[-60:] for a in atoms if "ObjType::" in a)[:160], f, c2.term["span"]))
                            elif _excludes_stream(atoms):
                                res.ok({"function": f.path, "stamp": c2.name.split("::")[-1], "guard": [a[-80:] for a in atoms if "obj_type" in a][:1]}, nontrivial=True)
                            else:
                                res.fail(Finding("R-GSTORE", "R-GSTORE/%s/creation-stamp-unguarded" % f.path, "a non-zero timestamp reaches DirEntry::new without a dominating obj_type test: new streams would carry timestamps", f, c2.term["span"]))
    res.floor("guarded metadata stores", n, ctx.table("floors").get("gstore_sites", 0))
    return res


def reloc(ctx):
    res = RuleResult("R-RELOC", "no live directory entry is ever copied or moved into another slot while handles are keyed by slot id: every whole-entry store into the table takes a freshly constructed entry")
    tbl = ctx.table("reloc")
    fresh = tbl.get("fresh_constructors", [])
    accessors = tbl.get("entry_accessors", [])
    movers = tuple(tbl.get("vec_movers", []))
    n = 0
    for f in ctx.fx.fns.values():
        v = view(ctx, f)
        pr = None
        for bb, c in v.calls.items():
            if c.name in accessors:
                d = c.term["dest"]["local"]
                refs = forward_taint(f, {d})
                for b2, blk in enumerate(f.blocks):
                    if blk["cleanup"]:
                        continue
                    for i, st in enumerate(blk["stmts"]):
                        if st["s"] == "assign" and st["place"]["local"] in refs and [e["p"] for e in st["place"]["proj"]] == ["deref"]:
                            n += 1
                            pr = pr or Prov(f)
                            val = pr._def((b2, i, st), 0, ())
                            slot = pr.operand(c.term["args"][1]) if len(c.term["args"]) > 1 else "?"
                            if any(val.startswith(fc) for fc in fresh):
                                res.ok({"function": f.path, "slot": slot, "value": val[:60]}, nontrivial=True)
                            else:
                                res.fail(Finding("R-RELOC", "R-RELOC/%s/slot-receives-copy-of-live-entry" % f.path,
                                                 "slot %s of the directory table receives %s, a copy of another live entry: a stream handle opened on that entry (bound only by its slot id) now points at a freed or reused slot" % (slot, val[:80]), f, st["span"]))
            # reordering operations on the entry table
            short = c.name.split("::")[-1]
            if short in movers and c.term["args"]:
                pr = pr or Prov(f)
                r0 = pr.operand(c.term["args"][0])
                if re.search(r"\.dir_entries$", r0):
                    n += 1
                    res.fail(Finding("R-RELOC", "R-RELOC/%s/table-reordered/%s" % (f.path, short), "Vec::%s on the directory entry table moves live entries to other slots" % short, f, c.term["span"]))
    res.floor("whole-entry stores", n, ctx.table("floors").get("reloc_sites", 0))
    return res


LINKS = ("left_sibling", "right_sibling", "color")


def moveall(ctx):
    """R-MOVEALL: wherever an entry's content is carried from one slot to another (the copy R-RELOC reports),
    the whole object travels: every field except the sibling links / colour comes from the same source entry."""
    res = RuleResult("R-MOVEALL", "an entry assembled from an existing entry takes every payload field (name, type, child, CLSID, state bits, times, start sector, length) from that same entry; only the sibling links and the colour may be replaced")
    tbl = ctx.table("reloc")
    accessors = tbl.get("entry_accessors", [])
    n = 0
    for f in ctx.fx.fns.values():
        if f.path.startswith("internal::direntry::"):
            continue
        pr = None
        # (a) struct literals / struct-update expressions
        for bb, blk in enumerate(f.blocks):
            if blk["cleanup"]:
                continue
            for i, st in enumerate(blk["stmts"]):
                if st["s"] == "assign" and st["rv"]["r"] == "aggregate" and st["rv"].get("agg") == "adt" and st["rv"]["adt"].endswith("direntry::DirEntry"):
                    pr = pr or Prov(f)
                    srcs = {}
                    for o, fname in zip(st["rv"]["ops"], st["rv"]["fields"]):
                        if fname in LINKS:
                            continue
                        p_ = pr.operand(o)
                        m = re.match(r"^(?:Clone::clone\()?(.*(?:dir_entry(?:_mut)?\(.*\)|dir_entries.*))\.(\w+)\)?$", p_)
                        srcs[fname] = (m.group(1), m.group(2)) if m else (None, p_)
                    from_entry = {b for b, _ in srcs.values() if b}
                    if not from_entry:
                        continue
                    n += 1
                    main = max(from_entry, key=lambda b: sum(1 for x in srcs.values() if x[0] == b))
                    wrong = sorted(fn_ for fn_, (b, fld) in srcs.items() if b != main or fld != fn_)
                    if wrong:
                        res.fail(Finding("R-MOVEALL", "R-MOVEALL/%s/partial-move" % f.path,
                                         "an entry built from %s takes %s from elsewhere (%s): the moved object loses its own %s" % (main[-60:], ", ".join(wrong), (srcs[wrong[0]][0] or srcs[wrong[0]][1])[-60:], "/".join(wrong)), f, st["span"]))
                    else:
                        res.ok({"function": f.path, "source": main[-60:], "fields": len(srcs)}, nontrivial=True)
        # (b) clone-and-patch: field stores on the local that is then stored whole into a slot
        v = view(ctx, f)
        for bb, c in v.calls.items():
            if c.name not in accessors:
                continue
            refs = forward_taint(f, {c.term["dest"]["local"]})
            for b2, blk in enumerate(f.blocks):
                if blk["cleanup"]:
                    continue
                for i, st in enumerate(blk["stmts"]):
                    if st["s"] == "assign" and st["place"]["local"] in refs and [e["p"] for e in st["place"]["proj"]] == ["deref"] and st["rv"]["r"] == "use" and st["rv"]["op"]["k"] in ("copy", "move") and not st["rv"]["op"]["place"]["proj"]:
                        src = st["rv"]["op"]["place"]["local"]
                        pr = pr or Prov(f)
                        val = pr._def((b2, i, st), 0, ())
                        if any(val.startswith(fc) for fc in tbl.get("fresh_constructors", [])):
                            continue
                        n += 1
                        patched = set()
                        for blk3 in f.blocks:
                            for st3 in blk3["stmts"]:
                                if st3["s"] == "assign" and st3["place"]["local"] == src and st3["place"]["proj"] and st3["place"]["proj"][0]["p"] == "field":
                                    patched.add(st3["place"]["proj"][0]["name"])
                        bad = sorted(patched - set(LINKS))
                        if bad:
                            res.fail(Finding("R-MOVEALL", "R-MOVEALL/%s/payload-patched-in-move" % f.path, "the entry being moved into another slot has its %s overwritten on the way: the moved object loses its own %s" % (", ".join(bad), "/".join(bad)), f, st["span"]))
                        else:
                            res.ok({"function": f.path, "moved": val[:60], "patched": sorted(patched)}, nontrivial=True)
    res.floor("entry moves", n, ctx.table("floors").get("moveall_sites", 0))
    return res


def hstore(ctx):
    res = RuleResult("R-HSTORE", "operations through a stream handle write only their own entry's start sector and length (plus the root entry's, for mini-stream bookkeeping)")
    tbl = ctx.table("hstore")
    allowed = set(tbl.get("allowed_fields", ["start_sector", "stream_len"]))
    roots = [f for f in ctx.fx.fns.values() if peel(f.d.get("impl_self", {})).get("adt") == "internal::stream::Stream" and f.kind != "closure"]
    surface = ctx.cg.reachable(roots)
    n = 0
    all_fields = None
    for f in surface.values():
        for (node, fld, st) in _entry_field_stores(f, _ALL):
            n += 1
            if fld in allowed:
                res.ok({"function": f.path, "field": fld})
            else:
                res.fail(Finding("R-HSTORE", "R-HSTORE/%s/%s" % (f.path, fld), "DirEntry.%s is written on a path reachable from stream-handle operations: a handle must only change its stream's start sector and length" % fld, f, st["span"]))
        # whole-entry stores and table surgery are not reachable from handles
        for c in ctx.cg.calls[f.path]:
            if c.kind == "call" and re.search(tbl.get("forbidden_callees", "insert_dir_entry$|remove_dir_entry$|free_dir_entry$|allocate_dir_entry$"), c.name):
                res.fail(Finding("R-HSTORE", "R-HSTORE/%s/structural/%s" % (f.path, c.name.split("::")[-1]), "%s is reachable from a stream-handle operation" % c.name, f, c.term["span"]))
    # the id passed to with_dir_entry_mut comes from the handle's own stream_id
    for f in surface.values():
        pr = None
        for c in ctx.cg.calls[f.path]:
            if c.kind == "call" and re.search(r"MiniAllocator::<F>::with_dir_entry_mut$", c.name):
                n += 1
                pr = pr or Prov(f)
                idp = pr.operand(c.term["args"][1])
                ok = False
                chain = [f.path]
                if re.search(r"\.stream_id$", idp):
                    ok = True
                elif idp.startswith("param:"):
                    # every caller inside the surface passes the handle's stream_id
                    pname = idp[6:]
                    names = f.debug_names()
                    pidx = [l for l, nme in names.items() if nme == pname and 1 <= l <= f.arg_count]
                    ok = True
                    for g in surface.values():
                        for c2 in ctx.cg.calls[g.path]:
                            if c2.kind == "call" and any(x.path == f.path for x in c2.targets) and pidx:
                                a = Prov(g).operand(c2.term["args"][pidx[0] - 1])
                                chain.append("%s passes %s" % (g.path, a[-40:]))
                                if not (re.search(r"\.stream_id$", a) or re.search(r"stream_id$", a)):
                                    ok = False
                if ok:
                    res.ok({"function": f.path, "entry_id": idp, "callers": chain[1:4]}, nontrivial=True)
                else:
                    res.fail(Finding("R-HSTORE", "R-HSTORE/%s/foreign-entry-id" % f.path, "with_dir_entry_mut is applied to entry id %s, which is not the handle's own stream_id (%s)" % (idp, "; ".join(chain[1:])), f, c.term["span"]))
    res.floor("handle-reachable entry writes", n, ctx.table("floors").get("hstore_sites", 0))
    return res


_ALL = ("name", "obj_type", "color", "left_sibling", "right_sibling", "child", "clsid", "state_bits", "creation_time", "modified_time", "start_sector", "stream_len")


def slotreset(pid):
    """R-SLOTRESET: the slot handed out by allocate_dir_entry may be a recycled one whose bytes came from the file
    (unallocated entries are not validated, they are not reachable from the tree).  Whoever takes a slot overwrites
    the whole entry with a freshly constructed one before the slot is linked into the tree; filling it field by
    field leaves whatever links the file stored there."""
    def run(ctx):
        res = RuleResult("R-SLOTRESET(%s)" % pid, "after allocate_dir_entry every Ok path stores a freshly constructed entry (DirEntry::new / unallocated) over the whole slot it returned")
        tbl = ctx.table("reloc")
        fresh = tbl.get("fresh_constructors", [])
        accessors = tbl.get("entry_accessors", [])
        n = 0
        for f in ctx.fx.fns.values():
            v = view(ctx, f)
            allocs = [c for c in v.calls.values() if c.name.endswith("Directory::<F>::allocate_dir_entry") and f.path != c.name]
            if not allocs or f.path.endswith("::allocate_dir_entry"):
                continue
            pr = Prov(f)
            for a in allocs:
                n += 1
                slot = "ok(%s)" % pr.local(a.term["dest"]["local"]) if not a.term["dest"]["proj"] else None
                stores = set()
                for bb, c in v.calls.items():
                    if c.name in accessors and len(c.term["args"]) > 1 and slot and pr.operand(c.term["args"][1]) == slot:
                        refs = forward_taint(f, {c.term["dest"]["local"]})
                        for b2, blk in enumerate(f.blocks):
                            for i, st in enumerate(blk["stmts"]):
                                if st["s"] == "assign" and st["place"]["local"] in refs and [e["p"] for e in st["place"]["proj"]] == ["deref"]:
                                    val = pr._def((b2, i, st), 0, ())
                                    if any(val.startswith(fc) for fc in fresh):
                                        stores.add(("s", b2, i))
                starts = v.ok_nodes(a.bb) or list(v.pg.succ[("t", a.bb)])
                reach = v.pg.reach(starts, stores | set(v.all_err_nodes()))
                key = "R-SLOTRESET/%s" % f.path
                if any(r in reach for r in v.pg.returns()):
                    res.fail(Finding(res.rule, key + "/slot-not-overwritten", "the slot returned by allocate_dir_entry (line %d) can be used up to an Ok return without a whole-entry store of a freshly constructed entry into it: a recycled slot keeps the link fields the file stored there (out-of-range or cyclic links then crash or hang the next tree walk)" % a.line, f, a.term["span"]))
                else:
                    res.ok({"function": f.path, "allocated_at": a.line, "whole_entry_stores": len(stores)}, nontrivial=True)
        res.floor("slot allocations", n, ctx.table("floors").get("slotreset_sites", 0))
        return res
    return run


def getter(pid):
    """R-GETTER: the public metadata view reports what is stored: Entry::new copies every field from the DirEntry
    field of the same name, and each accessor reads exactly its own field (no other field of the entry takes part
    in the value or in a condition)."""
    def run(ctx):
        res = RuleResult("R-GETTER(%s)" % pid, "Entry::new copies field for field; every accessor of Entry depends on exactly the one field it reports")
        tbl = ctx.table("getters")
        n = 0
        f = ctx.fx.fns.get(tbl.get("constructor", ""))
        if f is None:
            res.gone.append("Entry::new")
        else:
            pr = Prov(f)
            for bb, blk in enumerate(f.blocks):
                for i, st in enumerate(blk["stmts"]):
                    if st["s"] == "assign" and st["rv"]["r"] == "aggregate" and st["rv"].get("agg") == "adt" and st["rv"]["adt"] == tbl["struct"]:
                        for o, fname in zip(st["rv"]["ops"], st["rv"]["fields"]):
                            if fname not in tbl["same_name_fields"]:
                                continue
                            n += 1
                            p = pr.operand(o)
                            want = "%s.%s" % (tbl["source_param"], fname)
                            if p == want or p == "Clone::clone(%s)" % want:
                                res.ok({"constructor": f.path, "field": fname, "from": p}, nontrivial=True)
                            else:
                                res.fail(Finding(res.rule, "R-GETTER/%s/%s" % (f.path, fname), "Entry::new fills `%s` from %s instead of the directory entry's field of the same name: lookups and listings would report another field's value" % (fname, p[:80]), f, st["span"]))
        for path, field in tbl.get("getters", {}).items():
            f = ctx.fx.fns.get(path)
            if f is None:
                res.gone.append(path)
                continue
            n += 1
            pr = Prov(f)
            g = guards(ctx, f)
            mentioned = set()
            texts = []
            for bb, blk in enumerate(f.blocks):
                if blk["cleanup"]:
                    continue
                for i, st in enumerate(blk["stmts"]):
                    if st["s"] == "assign" and st["place"]["local"] == 0:
                        texts.append(pr._def((bb, i, st), 0, ()))
                t = blk["term"]
                if t["t"] == "call" and not t["dest"]["proj"] and t["dest"]["local"] == 0:
                    texts += [pr.operand(a) for a in t["args"]]
                if t["t"] == "switch":
                    texts.append(pr.operand(t["discr"]))
            for tx in texts:
                mentioned.update(re.findall(r"param:self\.(\w+)", tx))
                # through another accessor of the same table (`is_empty` written as `self.len() == 0`): that
                # accessor's own field, which it is checked for in its own row
                for other in re.findall(r"Entry::(\w+)\(param:self\)", tx):
                    for p2, f2 in tbl.get("getters", {}).items():
                        if p2.endswith("::Entry::" + other) and p2 != path:
                            mentioned.add(f2)
            key = "R-GETTER/%s" % path
            extra = sorted(mentioned - {field})
            if extra:
                res.fail(Finding(res.rule, key + "/reads-other-field", "%s reports `%s` but its value or a condition in it also depends on %s: what the caller sees is no longer the stored %s" % (path.split("::")[-1], field, ", ".join("`%s`" % x for x in extra), field), f))
            elif field not in mentioned:
                res.fail(Finding(res.rule, key + "/does-not-read-own-field", "%s no longer reads `%s`" % (path.split("::")[-1], field), f))
            else:
                res.ok({"getter": path, "field": field}, nontrivial=True)
        res.floor("constructor fields + accessors", n, ctx.table("floors").get("getter_sites", 0))
        return res
    return run


def closurestore(pid):
    """R-CLOSURESTORE: the closures handed to with_dir_entry_mut / with_root_dir_entry_mut update single fields of an
    existing entry.  (a) None of them replaces the whole entry (`*entry = ..` resets every field it does not mention:
    CLSID, state bits, times, links).  (b) Outside the API-level setters, the values they store into start_sector /
    stream_len are the operation's computed results, never constants: an entry parked at 'no chain, length 0' in
    the middle of an operation is what a retry after a failure then takes for the truth."""
    def run(ctx):
        res = RuleResult("R-CLOSURESTORE(%s)" % pid, "closures passed to with_(root_)dir_entry_mut store single fields only, and below the API layer never store a constant as start sector or length")
        n = 0
        for f in ctx.fx.fns.values():
            for c in ctx.cg.calls[f.path]:
                if c.kind != "call" or not re.search(r"::with_(root_)?dir_entry_mut$", c.name):
                    continue
                for g in c.all_targets():
                    if g.kind != "closure":
                        continue
                    n += 1
                    pr = Prov(g)
                    problems = []
                    for bb, blk in enumerate(g.blocks):
                        if blk["cleanup"]:
                            continue
                        for i, st in enumerate(blk["stmts"]):
                            if st["s"] != "assign":
                                continue
                            proj = st["place"]["proj"]
                            # the closure's entry parameter is local 2 (local 1 is the closure environment)
                            if st["place"]["local"] == 2 and [e["p"] for e in proj] == ["deref"]:
                                problems.append(("whole-entry-store", "replaces the whole entry with %s: every field the closure does not set again (CLSID, state bits, times, links) is reset" % pr._def((bb, i, st), 0, ())[:60], st))
                            elif st["place"]["local"] == 2 and proj and proj[-1].get("p") == "field" and proj[-1].get("name") in ("start_sector", "stream_len") and f.path.startswith("internal::stream::"):
                                val = pr._def((bb, i, st), 0, ())
                                if re.match(r"^const:", val):
                                    problems.append(("constant-" + proj[-1]["name"], "stores the constant %s as %s in the middle of a stream operation: until the operation's real result is stored the entry claims something that is not so, and a failure in between leaves that claim behind for the retry" % (val, proj[-1]["name"]), st))
                    key = "R-CLOSURESTORE/%s" % f.path
                    if problems:
                        for (k, msg, st) in problems[:2]:
                            res.fail(Finding(res.rule, key + "/" + k, "a closure passed to %s from %s %s" % (c.name.split("::")[-1], f.path.split("::")[-1], msg), f, st["span"]))
                    else:
                        res.ok({"function": f.path, "closure": g.path.split("::")[-1], "call": c.name.split("::")[-1]}, nontrivial=True)
        res.floor("entry-updating closures", n, ctx.table("floors").get("closurestore_sites", 0))
        return res
    return run


def fieldown(pid):
    """R-FIELDOWN: which code may write an existing entry's start sector and length.  The two fields say which chain
    holds the stream and how much of it counts (and, by the length, which KIND of chain it is); they change together
    with the chain itself, and the chain changes only in the stream layer (write_data_to_stream, resize_stream) and,
    for the root entry's mini stream, in the mini allocator.  A store anywhere else - the API layer 'truncating in
    place', the directory layer resetting an entry - changes what the entry claims without the chain following."""
    def run(ctx):
        res = RuleResult("R-FIELDOWN(%s)" % pid, "DirEntry.start_sector / DirEntry.stream_len of a table entry are stored only by the chain-owning functions listed in rules/fieldown.json")
        tbl = ctx.table("fieldown")
        owners = tbl.get("owners", [])
        n = 0
        for f in ctx.fx.fns.values():
            stores = _entry_field_stores(f, ("start_sector", "stream_len"))
            if not stores:
                continue
            home = f.parent if f.kind == "closure" and getattr(f, "parent", None) else f.path
            while home in ctx.fx.fns and ctx.fx.fns[home].kind == "closure" and ctx.fx.fns[home].parent:
                home = ctx.fx.fns[home].parent
            for (node, fld, st) in stores:
                n += 1
                if any(re.search(o, home) for o in owners):
                    res.ok({"function": home, "field": fld, "line": st["span"]["line"]})
                else:
                    res.fail(Finding(res.rule, "R-FIELDOWN/%s/%s" % (home, fld), "DirEntry.%s of a table entry is stored in %s, outside the functions that own the stream's chain (%s): the entry's claim about its chain changes without the chain being released, moved or re-typed with it - by the length the next user picks the mini or the regular table for the unchanged start sector" % (fld, home.split("::")[-1], "the stream layer internal::stream and the mini allocator"), f, st["span"]))
        res.floor("stores to start_sector / stream_len", n, ctx.table("floors").get("fieldown_sites", 0))
        return res
    return run


def ctorvalues(pid):
    """R-CTORVAL: the two constructors every stored entry starts from.  MS-CFB 2.6.3: an unallocated entry is all zeros
    except for the three links, which are NOSTREAM - DirEntry::unallocated() is what R-BLANK has written over a
    released slot, so its field values are the blank pattern.  DirEntry::new() builds what a creation stores: both
    times from the one timestamp it is given, no links, no CLSID, no state bits, length 0."""
    def run(ctx):
        res = RuleResult("R-CTORVAL(%s)" % pid, "DirEntry::unallocated() is the blank pattern of MS-CFB 2.6.3 field for field; DirEntry::new() sets both times from its timestamp argument and everything else to the empty values")
        want = {
            "unallocated": {"name": r"^String::new\(\)$", "obj_type": r"^ObjType::Unallocated\(\)$", "color": r"^Color::Red\(\)$", "left_sibling": r"^const:(\w+::)*NO_STREAM$", "right_sibling": r"^const:(\w+::)*NO_STREAM$", "child": r"^const:(\w+::)*NO_STREAM$",
                            "clsid": r"nil\(\)$", "state_bits": r"^const:0$", "creation_time": r"^Timestamp::zero\(\)$", "modified_time": r"^Timestamp::zero\(\)$", "start_sector": r"^const:0$", "stream_len": r"^const:0$"},
            "new": {"obj_type": r"^param:obj_type$", "left_sibling": r"^const:(\w+::)*NO_STREAM$", "right_sibling": r"^const:(\w+::)*NO_STREAM$", "child": r"^const:(\w+::)*NO_STREAM$", "clsid": r"nil\(\)$", "state_bits": r"^const:0$",
                    "creation_time": r"^param:timestamp$", "modified_time": r"^param:timestamp$", "stream_len": r"^const:0$"},
        }
        n = 0
        blank = {}      # field values of DirEntry::unallocated(), for `..DirEntry::unallocated()` in the other constructor
        for nm, fields in want.items():
            f = ctx.fx.fns.get(DIRENTRY + "::" + nm)
            if f is None:
                res.gone.append(nm)
                continue
            pr = Prov(f)
            for bb, blk in enumerate(f.blocks):
                if blk["cleanup"]:
                    continue
                for i, st in enumerate(blk["stmts"]):
                    if st["s"] == "assign" and st["rv"]["r"] == "aggregate" and st["rv"].get("adt", "") == DIRENTRY:
                        got = dict(zip(st["rv"].get("fields", []), [pr.operand(o) for o in st["rv"].get("ops", [])]))
                        if nm == "unallocated":
                            blank = dict(got) if not blank else {k: v for k, v in blank.items() if got.get(k) == v}
                        for fld, rx in fields.items():
                            n += 1
                            val = got.get(fld)
                            if val is None:
                                continue
                            m = re.match(r"^(?:\w+::)*DirEntry::unallocated\(\)\.(\w+)$", val)
                            if m and nm != "unallocated" and m.group(1) in blank:
                                val = blank[m.group(1)]
                            if re.search(rx, val):
                                res.ok({"constructor": nm, "field": fld, "value": val[:50]})
                            else:
                                res.fail(Finding(res.rule, "R-CTORVAL/%s/%s" % (nm, fld), "DirEntry::%s() sets %s to %s: %s" % (nm, fld, val[:60], "an unallocated entry is not blank any more (every slot the library releases or pads a directory sector with carries this value)" if nm == "unallocated" else "a newly created object does not start from the empty values / the creation timestamp"), f, st["span"]))
        res.floor("constructor fields", n, ctx.table("floors").get("ctorval_fields", 0))
        return res
    return run


def setterpure(pid):
    """R-SETVAL: a setter stores what it was given.  The closures the API-level setters hand to the write-through helper
    assign the field from the caller's argument; a value that also depends on the field's previous content (|=, +=)
    makes the stored word a function of the history, and `returned unchanged` fails from the second call on."""
    def run(ctx):
        res = RuleResult("R-SETVAL(%s)" % pid, "no closure passed to with_dir_entry_mut / set_entry_with_path from the API layer stores into a metadata field a value computed from that same field")
        n = 0
        for f in ctx.fx.fns.values():
            if f.kind != "closure" or not f.path.startswith("CompoundFile"):
                continue
            pr = Prov(f)
            for (node, fld, st) in _entry_field_stores(f, ("state_bits", "clsid", "creation_time", "modified_time")):
                n += 1
                val = pr._def((node[1], node[2], st), 0, ())
                if re.search(r"param:(?!arg1\b)\w+\.%s\b|deref\(param:(?!arg1\b)\w+\)\.%s\b" % (fld, fld), val) or re.match(r"^(BitOr|BitAnd|BitXor|Add|Sub)\(", val):
                    res.fail(Finding(res.rule, "R-SETVAL/%s/%s" % (f.path, fld), "the setter closure stores %s into %s: the new value depends on the old one, so what a lookup returns is not what was set" % (val[:70], fld), f, st["span"]))
                else:
                    res.ok({"closure": f.path, "field": fld, "value": val[:60]}, nontrivial=True)
        res.floor("metadata stores in API closures", n, ctx.table("floors").get("setval_sites", 0))
        return res
    return run


def setterkind(pid):
    """R-SETTERKIND: the public metadata setters (set_state_bits, set_storage_clsid, set_created_time,
    set_modified_time, touch), the closures they build and the private helpers only they call treat storages and the
    root alike (`CLSIDs set on storages or the root`, `times set on storages or the root`): whatever they do for an
    entry of type Storage - the stores, the calls, the refusals - they do for the root, and the reverse.  Decided per
    function as: the statements reachable when the entry's type is assumed to be Storage are the statements
    reachable when it is assumed to be Root (a test `== Storage` written for `!= Stream` drops the root's times while
    the call answers Ok; `matches!(t, Storage | Root)` does not)."""
    def run(ctx):
        from cfg import reach_flag_aware
        res = RuleResult("R-SETTERKIND(%s)" % pid, "inside the public metadata setters, their closures and the helpers only they call, the statements reachable for an entry of type Storage and for the root are the same")
        fns = ctx.fx.fns
        roots = [f for f in fns.values() if re.match(r"^CompoundFile::<F>::(set_\w+|touch\w*)$", f.path)]
        inset = {f.path for f in roots}
        callers = {}
        for p, cs in ctx.cg.calls.items():
            for c in cs:
                for g in c.all_targets():
                    callers.setdefault(g.path, set()).add(p)
        changed = True
        while changed:
            changed = False
            for p, f in fns.items():
                if p in inset or not p.startswith("CompoundFile::<F>::"):
                    continue
                cl = callers.get(p, set())
                parent = p.rsplit("::{closure", 1)[0] if "::{closure" in p else None
                if (parent in inset) or (cl and cl <= inset):
                    inset.add(p)
                    changed = True
        n = 0
        for p in sorted(inset):
            f = fns[p]
            g = None
            v = None
            per = {"Storage": set(), "Root": set()}
            tests = []
            for b, blk in enumerate(f.blocks):
                if blk["term"]["t"] != "switch" or blk["cleanup"]:
                    continue
                g = g or guards(ctx, f)
                v = v or view(ctx, f)
                t = blk["term"]
                vals = [str(x) for x, _ in t["arms"]] + ["otherwise"]
                for k, tgt in enumerate(f.succ(b)):
                    for a in g.describe_all(b, vals[k], vals):
                        m = re.search(r"\.obj_type is (not )?ObjType::(\w+)$", a)
                        if not m:
                            continue
                        if a not in tests:
                            tests.append(a)
                        for kind in per:
                            contradicts = (m.group(1) and m.group(2) == kind) or (not m.group(1) and m.group(2) != kind)
                            if contradicts:
                                per[kind].update(v.pg.edge_node(b, tgt))
            if not tests:
                continue
            n += len(tests)
            rs = {}
            for kind, barrier in per.items():
                r_ = reach_flag_aware(f, v.pg, [v.pg.entry()], barrier)
                rs[kind] = {x for x in r_ if x[0] in ("s", "t") and not (x[0] == "t" and f.blocks[x[1]]["term"]["t"] in ("switch", "goto"))}
            diff = rs["Storage"] ^ rs["Root"]
            # statements without an effect of their own (storage markers, the reads that feed a test) do not count
            real = []
            for x in sorted(diff):
                if x[0] == "t":
                    real.append(x)
                else:
                    st = f.blocks[x[1]]["stmts"][x[2]]
                    if st["s"] == "assign" and (st["place"]["proj"] or st["place"]["local"] == 0):
                        real.append(x)
            if real:
                x = real[0]
                sp = f.blocks[x[1]]["term"]["span"] if x[0] == "t" else f.blocks[x[1]]["stmts"][x[2]]["span"]
                only = "Storage" if x in rs["Storage"] else "Root"
                res.fail(Finding(res.rule, "R-SETTERKIND/%s/storage-and-root-told-apart" % p, "the setter does at line %d something it does only for an entry of type %s (tests: %s): storages and the root are told apart, so a value set on one of them is silently dropped or refused" % (sp["line"], only, "; ".join(a[-40:] for a in tests[:3])), f, sp))
            else:
                res.ok({"function": p, "tests": [a[-50:] for a in tests[:4]], "same_for_storage_and_root": True}, nontrivial=True)
        res.floor("object-type tests in setters", n, ctx.table("floors").get("setterkind_tests", 0))
        res.notes.append("setter functions: " + ", ".join(sorted(inset)))
        return res
    return run


def keeptimes(pid):
    """R-KEEPTIMES: what was set on a storage or on the root comes back after reopening.  DirEntry::read_from may
    replace the CLSID and the two timestamps it has read by nil / zero for STREAMS (a tolerated deviation); on the
    paths an entry of type Storage or Root takes, the values that reach the entry's clsid / creation_time /
    modified_time are the ones read from the file - no constant is substituted."""
    def run(ctx):
        from rules_sink import _edge_label
        from cfg import reach_flag_aware
        res = RuleResult("R-KEEPTIMES(%s)" % pid, "on the paths of DirEntry::read_from that a Storage or Root entry takes, no constant (Timestamp::zero(), Uuid::nil()) is assigned to the variables that become the entry's clsid / creation_time / modified_time")
        f = ctx.fx.fns.get("internal::direntry::DirEntry::read_from")
        if f is None:
            res.gone.append("DirEntry::read_from")
            return res
        v = view(ctx, f)
        pg = v.pg
        g = guards(ctx, f)
        pr = Prov(f)
        targets = {}
        for bb, blk in enumerate(f.blocks):
            if blk["cleanup"]:
                continue
            for st in blk["stmts"]:
                if st["s"] == "assign" and st["rv"]["r"] == "aggregate" and str(st["rv"].get("adt", "")).endswith("DirEntry"):
                    names = st["rv"].get("fields") or []
                    for k, op in enumerate(st["rv"].get("ops", [])):
                        if k < len(names) and names[k] in ("clsid", "creation_time", "modified_time") and op_local(op) is not None:
                            targets[op_local(op)] = names[k]
        # follow copies back to the named variables - also out of the tuple (or Ok(tuple)) a helper returned them in
        aggs = {}
        for blk in f.blocks:
            for st in blk["stmts"]:
                if st["s"] == "assign" and not st["place"]["proj"] and st["rv"]["r"] == "aggregate" and isinstance(st["rv"].get("ops"), list):
                    aggs.setdefault(st["place"]["local"], []).append(st["rv"])

        def through(local, fields, depth=0):
            """locals that hold the value at `fields` (a list of field indices) inside `local`"""
            if depth > 6:
                return set()
            if not fields:
                return {local}
            out = set()
            for rv in aggs.get(local, []):
                i = fields[0]
                if i < len(rv["ops"]) and op_local(rv["ops"][i]) is not None:
                    out |= through(op_local(rv["ops"][i]), fields[1:], depth + 1)
            for blk in f.blocks:
                for st in blk["stmts"]:
                    if st["s"] == "assign" and not st["place"]["proj"] and st["place"]["local"] == local and st["rv"]["r"] == "use" and st["rv"]["op"].get("k") in ("copy", "move"):
                        pl = st["rv"]["op"]["place"]
                        more = [e["i"] for e in pl["proj"] if e.get("p") == "field" and isinstance(e.get("i"), int)]
                        out |= through(pl["local"], more + fields, depth + 1)
            return out

        work = dict(targets)
        for _ in range(5):
            for blk in f.blocks:
                for st in blk["stmts"]:
                    if st["s"] == "assign" and not st["place"]["proj"] and st["place"]["local"] in work and st["rv"]["r"] == "use" and st["rv"]["op"].get("k") in ("copy", "move"):
                        pl = st["rv"]["op"]["place"]
                        fields = [e["i"] for e in pl["proj"] if e.get("p") == "field" and isinstance(e.get("i"), int)]
                        for l2 in through(pl["local"], fields):
                            work.setdefault(l2, work[st["place"]["local"]])
        consts = []
        for l, fld in work.items():
            for d in pr.defs.get(l, []):
                dp = pr._def(d, 0, ())
                if re.match(r"^(Timestamp::zero\(\)|Uuid::nil\(\)|(\w+::)*Timestamp::Timestamp\(const:0\)|const:[^()]*)$", dp):
                    consts.append((("t", d[0]) if d[1] == "t" else ("s", d[0], d[1]), fld, dp, d))
        n = 0
        for kind in ("Storage", "Root"):
            barrier = set()
            for b, blk in enumerate(f.blocks):
                if blk["cleanup"] or blk["term"]["t"] != "switch":
                    continue
                for k, tgt in enumerate(f.succ(b)):
                    val, vals = _edge_label(f, b, k)
                    for a in g.describe_all(b, val, vals):
                        mm = re.search(r" is (not )?ObjType::(\w+)$", a)
                        if mm and ((mm.group(1) and mm.group(2) == kind) or (not mm.group(1) and mm.group(2) != kind)):
                            barrier.update(pg.edge_node(b, tgt))
            reach = reach_flag_aware(f, pg, [pg.entry()], barrier)
            for node, fld, dp, d in consts:
                n += 1
                if node in reach:
                    sp = f.blocks[d[0]]["term"]["span"] if d[1] == "t" else f.blocks[d[0]]["stmts"][d[1]]["span"]
                    res.fail(Finding(res.rule, "R-KEEPTIMES/%s/%s-replaced-for-%s" % (f.path, fld, kind.lower()), "read_from can replace the %s it has read by %s for an entry of type %s: what was set on it (and written to the file) reads back as nil / zero after reopening" % (fld, dp[:30], kind), f, sp))
                else:
                    res.ok({"field": fld, "constant": dp[:30], "object_type": kind, "reachable": False}, nontrivial=True)
        res.floor("constant substitutions of clsid / times, per object type", n, ctx.table("floors").get("keeptimes_sites", 0))
        return res
    return run


def entrykeep(pid):
    """R-ENTRYKEEP: the cached directory entry is the one the callers have already acted on.  write_data_to_stream and
    resize_stream free or move a stream's old chain BEFORE they update its entry through with_dir_entry_mut; when the
    write of the entry then fails, the cached entry (new start sector, new length) is the only record of where the
    data now lives.  So Directory::with_dir_entry_mut / with_root_dir_entry_mut change the cached entry through the
    caller's closure only: no whole-entry store puts an older copy back (a `roll-back on failure` makes the entry point
    at sectors that were freed and may since belong to another stream)."""
    def run(ctx):
        res = RuleResult("R-ENTRYKEEP(%s)" % pid, "Directory::with_dir_entry_mut / with_root_dir_entry_mut never assign a whole DirEntry into the table: the cached entry changes through the caller's closure only")
        n = 0
        for f in ctx.fx.fns.values():
            if not re.search(r"internal::directory::Directory::<F>::with_(root_)?dir_entry_mut$", f.path):
                continue
            n += 1
            bad = None
            for bb, blk in enumerate(f.blocks):
                if blk["cleanup"]:
                    continue
                for st in blk["stmts"]:
                    if st["s"] != "assign":
                        continue
                    pj = st["place"]["proj"]
                    ty = str(st["place"].get("ty", ""))
                    if pj and all(e["p"] == "deref" for e in pj) and ty.endswith("DirEntry"):
                        bad = st
                    if pj and pj[-1]["p"] == "index" and ty.endswith("DirEntry"):
                        bad = st
            if bad is not None:
                res.fail(Finding(res.rule, "R-ENTRYKEEP/%s/whole-entry-store" % f.path, "%s stores a whole DirEntry into the cached table (an older copy put back): the callers have already freed or moved the chain the older entry points at" % f.path.split("::")[-1], f, bad["span"]))
            else:
                res.ok({"function": f.path, "whole_entry_stores": 0}, nontrivial=True)
        res.floor("entry-updating helpers", n, ctx.table("floors").get("entrykeep_fns", 0))
        return res
    return run
