"""Table-driven event-order rules (A6): a trigger event obliges other events
on every Ok path after it (follow), or before it (precede).  Rows live in
rules/follow.json and are grouped by rule id (R-HDR, R-MARK, R-BLANK, R-REUSE...)."""
import re

from core import Finding, RuleResult, atoms_match, view, wild
from prov import Prov


def _match_call(pr, c, m):
    """Does call c match matcher m = {callee: regex, args: {idx: regex}}?"""
    if c.kind != "call":
        return False
    if not re.search(m["callee"], c.name):
        return False
    for idx, rx in m.get("args", {}).items():
        i = int(idx)
        if i >= len(c.term["args"]):
            return False
        ap = pr.operand(c.term["args"][i])
        if not atoms_match(rx, [ap]):      # (literal, name-wildcarded, or with named constants taken by value)
            return False
    return True


def _root_local(pr, o, hops=0):
    """The local an operand is a plain copy of (through moves / copies / integer casts), or None."""
    if o["k"] not in ("copy", "move") or o["place"]["proj"]:
        return None
    l = o["place"]["local"]
    ds = pr.defs.get(l, [])
    if hops < 8 and len(ds) == 1 and ds[0][1] != "t" and len(ds[0]) > 2 and ds[0][2].get("s") == "assign":
        rv = ds[0][2]["rv"]
        if rv["r"] == "use" and rv["op"]["k"] in ("copy", "move") and not rv["op"]["place"]["proj"]:
            r = _root_local(pr, rv["op"], hops + 1)
            return r if r is not None else l
        # `&x` passed where the other call takes `x` by value: the same variable
        if rv["r"] == "ref" and not rv["place"]["proj"]:
            r = _root_local(pr, {"k": "copy", "place": rv["place"]}, hops + 1)
            return r if r is not None else rv["place"]["local"]
        # `&*r`: a reborrow of a reference is that reference
        if rv["r"] == "ref" and [e.get("p") for e in rv["place"]["proj"]] == ["deref"]:
            r = _root_local(pr, {"k": "copy", "place": {"local": rv["place"]["local"], "proj": []}}, hops + 1)
            return r if r is not None else l
        # `*r` where r is a plain reference to a variable
        if rv["r"] == "use" and rv["op"]["k"] in ("copy", "move") and [e.get("p") for e in rv["op"]["place"]["proj"]] == ["deref"]:
            r = _root_local(pr, {"k": "copy", "place": {"local": rv["op"]["place"]["local"], "proj": []}}, hops + 1)
            return r if r is not None else l
    return l


def _same_ok(pr, t, c, same):
    for (ti, ri) in same:
        if ti >= len(t.term["args"]) or ri >= len(c.term["args"]):
            return False
        if pr.operand(t.term["args"][ti]) != pr.operand(c.term["args"][ri]):
            return False
        # the same expression evaluated at two different times (`self.fat.len()` before and after a push) reads
        # the same; when both operands are plain variables they must also be the same variable
        # (only for expressions whose value changes over time - a length; an element of the collection being walked
        # is the same value wherever it is mentioned within one iteration)
        if "len(" not in pr.operand(t.term["args"][ti]):
            continue
        a, b = _root_local(pr, t.term["args"][ti]), _root_local(pr, c.term["args"][ri])
        if a is not None and b is not None and a != b:
            return False
    return True


def make(rule_id, pid=None):
    def run(ctx):
        rows = [r for r in ctx.table("follow").get("rows", []) if r["rule"] == rule_id and (pid is None or pid in r.get("properties", [pid]))]
        res = RuleResult(rule_id if pid is None else "%s(%s)" % (rule_id, pid), ctx.table("follow").get("clauses", {}).get(rule_id, "event-order obligations"))
        located = 0
        for row in rows:
            f = ctx.fx.fns.get(row["function"])
            if f is None:
                res.gone.append(row["id"])
                continue
            v = view(ctx, f)
            pg = v.pg
            pr = Prov(f)
            trig = row["trigger"]
            if trig.get("entry"):
                triggers = [None]
            else:
                triggers = [c for c in v.calls.values() if _match_call(pr, c, trig)]
                if trig.get("when"):
                    from prov import guards as _guards
                    g_ = _guards(ctx, f)
                    triggers = [c for c in triggers if all(atoms_match(rx, g_.atoms_at(("t", c.bb))) for rx in trig["when"])]
            if not triggers and row.get("met_by_tested_insert"):
                # `if !set.insert(x) { refuse }`: test and record are one call on one value - the row holds by construction
                from rules_guard import _insert_is_tested
                ins_ = [c for c in v.calls.values() if re.search(row["met_by_tested_insert"], c.name) and _insert_is_tested(ctx, f, v, c)]
                if ins_:
                    located += 1
                    res.ok({"row": row["id"], "function": f.path, "trigger": "insert whose answer is tested", "followed_by": "the same call"}, nontrivial=True)
                    continue
            if not triggers:
                res.gone.append(row["id"])
                continue
            located += 1
            err_all = set(v.all_err_nodes())
            for t in triggers:
                for req in row["require"]:
                    cands = [c for c in v.calls.values() if (_match_call(pr, c, req) or any(_match_call(pr, c, a_) for a_ in req.get("alt", []))) and (t is None or _same_ok(pr, t, c, req.get("same", [])))]
                    key = "%s/%s/%s/%s" % (res.rule, f.path, row["id"], req.get("name", req["callee"]))
                    tdesc = "entry" if t is None else "%s (line %d)" % (t.name.split("::")[-1], t.line)
                    # the same obligation met by assigning the whole field (`self.free_sectors = rebuilt;` instead of
                    # clear() + push): the old content is gone just as well
                    store_nodes = []
                    if req.get("or_store_field"):
                        for b_s, blk_s in enumerate(f.blocks):
                            if blk_s["cleanup"]:
                                continue
                            for i_s, st_s in enumerate(blk_s["stmts"]):
                                pj_s = st_s["place"]["proj"] if st_s["s"] == "assign" else []
                                if pj_s and pj_s[-1].get("p") == "field" and pj_s[-1].get("name") == req["or_store_field"] and st_s["rv"]["r"] in ("use", "aggregate"):
                                    store_nodes.append(("s", b_s, i_s))
                    if not cands and store_nodes and row.get("mode", "follow") == "follow":
                        starts_s = v.ok_nodes(t.bb) or [s_ for s_ in pg.succ[("t", t.bb)]] if t is not None else [pg.entry()]
                        reach_s = pg.reach(starts_s, set(store_nodes) | err_all)
                        if any(r_ in reach_s for r_ in pg.returns()):
                            res.fail(Finding(res.rule, key, "%s: an Ok path after %s reaches return without %s" % (row["why"], tdesc, req.get("name", req["callee"])), f, t.term["span"] if t is not None else None))
                        else:
                            res.ok({"row": row["id"], "function": f.path, "trigger": tdesc, "followed_by": "a whole-field store to %s" % req["or_store_field"]}, nontrivial=True)
                        continue
                    if not cands and row.get("or_in_callers"):
                        # the obligation may be met by whoever called this function: every caller must then perform
                        # the required call on every Ok path after its call to this function
                        callers_ = [(g_, c_) for g_ in ctx.fx.fns.values() for c_ in ctx.cg.calls[g_.path] if c_.kind == "call" and any(x_.path == f.path for x_ in c_.all_targets())]
                        okc = bool(callers_)
                        for (g_, c_) in callers_:
                            vg = view(ctx, g_)
                            prg = Prov(g_)
                            cg_ = [c2 for c2 in vg.calls.values() if _match_call(prg, c2, req) or any(_match_call(prg, c2, a_) for a_ in req.get("alt", []))]
                            oks_ = set()
                            for c2 in cg_:
                                oks_.update(vg.ok_nodes(c2.bb) or [("t", c2.bb)])
                            st_ = vg.ok_nodes(c_.bb) or list(vg.pg.succ[("t", c_.bb)])
                            rc_ = vg.pg.reach(st_, oks_ | set(vg.all_err_nodes()))
                            if not cg_ or any(r_ in rc_ for r_ in vg.pg.returns()):
                                okc = False
                        if okc:
                            res.ok({"row": row["id"], "function": f.path, "trigger": tdesc, "followed_by": req.get("name", req["callee"]) + " in every caller (%s)" % ", ".join(sorted({g_.path.split("::")[-1] for g_, _ in callers_}))}, nontrivial=True)
                            continue
                    if not cands:
                        res.fail(Finding(res.rule, key, "%s: after %s nothing matches the required %s%s" % (row["why"], tdesc, req.get("name", req["callee"]), " with the same argument" if req.get("same") else ""), f,
                                         t.term["span"] if t is not None else None))
                        continue
                    if row.get("mode", "follow") == "precede":
                        # every path entry -> trigger passes the ok successor of a candidate
                        oks = set()
                        for c in cands:
                            oks.update(v.ok_nodes(c.bb) or [("t", c.bb)])
                        reach = pg.reach([pg.entry()], oks)
                        if ("t", t.bb) in reach:
                            res.fail(Finding(res.rule, key, "%s: %s can be reached without %s before it" % (row["why"], tdesc, req.get("name", req["callee"])), f, t.term["span"]))
                        else:
                            res.ok({"row": row["id"], "function": f.path, "trigger": tdesc, "preceded_by": req.get("name", req["callee"])}, nontrivial=True)
                        continue
                    if row.get("mode") == "undo_on_error":
                        # every way from the trigger to a return that passes an error exit also passes a candidate (the undo)
                        undo = {("t", c.bb) for c in cands}
                        starts_ = v.ok_nodes(t.bb) or list(pg.succ[("t", t.bb)])
                        reach_ = pg.reach(starts_, undo)
                        err_hit = [e for e in err_all if e in reach_]
                        escaped = False
                        if err_hit:
                            # after an error exit of an inlined helper the threaded result is an Err: the edge
                            # that tests it to be Ok cannot be taken
                            from prov import guards as _guards
                            g2 = _guards(ctx, f)
                            infeasible = set()
                            for b_, blk_ in enumerate(f.blocks):
                                if blk_["cleanup"] or blk_["term"]["t"] != "switch":
                                    continue
                                tt = blk_["term"]
                                vals_ = [str(x) for x, _ in tt["arms"]] + ["otherwise"]
                                tg_ = [b for _, b in tt["arms"]] + [tt["otherwise"]]
                                for val_, tgt_ in zip(vals_, tg_):
                                    if any(re.search(r"^phi\(.*err\(.*\) is (Ok|not Err)$", a_) for a_ in g2.describe_all(b_, val_, vals_)):
                                        infeasible.update(pg.edge_node(b_, tgt_))
                            r2 = pg.reach(err_hit, undo | infeasible)
                            escaped = any(r in r2 for r in pg.returns())
                        if escaped:
                            res.fail(Finding(res.rule, key, "%s: after %s an error can leave the function without %s" % (row["why"], tdesc, req.get("name", req["callee"])), f, t.term["span"]))
                        elif not err_hit:
                            res.ok({"row": row["id"], "function": f.path, "trigger": tdesc, "note": "no error exit after the trigger"})
                        else:
                            res.ok({"row": row["id"], "function": f.path, "trigger": tdesc, "undone_on_error_by": req.get("name", req["callee"])}, nontrivial=True)
                        continue
                    oks = set()
                    for c in cands:
                        oks.update(v.ok_nodes(c.bb) or [("t", c.bb)])
                    if t is None:
                        starts = [pg.entry()]
                    else:
                        starts = v.ok_nodes(t.bb) or [s_ for s_ in pg.succ[("t", t.bb)]]
                    exempt = set()
                    if req.get("exempt_when"):
                        # branches on which the obligation does not exist (a header word that only one version has)
                        from prov import guards as _guards
                        g3 = _guards(ctx, f)
                        for b_, blk_ in enumerate(f.blocks):
                            if blk_["cleanup"] or blk_["term"]["t"] != "switch":
                                continue
                            tt = blk_["term"]
                            vals_ = [str(x) for x, _ in tt["arms"]] + ["otherwise"]
                            tg_ = [b for _, b in tt["arms"]] + [tt["otherwise"]]
                            for val_, tgt_ in zip(vals_, tg_):
                                if atoms_match(req["exempt_when"], g3.describe_all(b_, val_, vals_)):
                                    exempt.update(pg.edge_node(b_, tgt_))
                    oks = oks | exempt
                    reach = pg.reach(starts, oks | err_all)
                    # a candidate that dominates the trigger also satisfies "same operation writes it"
                    pre_ok = False
                    if t is not None and row.get("allow_before"):
                        if ("t", t.bb) not in pg.reach([pg.entry()], oks):
                            pre_ok = True
                    bad = [r for r in pg.returns() if r in reach]
                    if bad and not pre_ok:
                        p = pg.path(starts[0], bad, oks | err_all)
                        res.fail(Finding(res.rule, key, "%s: an Ok path after %s reaches return without %s" % (row["why"], tdesc, req.get("name", req["callee"])), f,
                                         t.term["span"] if t is not None else None, path=pg.fmt_path(p) if p else None))
                    else:
                        res.ok({"row": row["id"], "function": f.path, "trigger": tdesc, "followed_by": req.get("name", req["callee"])}, nontrivial=True)
        res.floor("rows located", located, ctx.table("floors").get("follow_" + rule_id + ("_" + pid if pid else ""), 0))
        return res
    return run
