"""A1 call graph and effect closure; A3 `?`-edge classification."""
from facts import callee_name, fmt_place

IO_TRAITS = {"std::io::Read": "io_read", "std::io::BufRead": "io_read", "std::io::Write": "io_write", "std::io::Seek": "io_seek"}
STATE_ADTS = ("internal::sector::Sectors", "internal::alloc::Allocator", "internal::directory::Directory",
              "internal::minialloc::MiniAllocator", "internal::direntry::DirEntry")
VEC_MUTATORS = ("push", "pop", "truncate", "insert", "remove", "clear", "swap", "swap_remove", "retain", "extend_from_slice",
                "resize", "drain", "append", "dedup", "sort", "reverse", "extend", "split_off")


def place_local_ty(fn, place):
    return fn.locals[place["local"]]


def op_local(o):
    """Local of a bare-local operand, else None."""
    if o["k"] in ("copy", "move") and not o["place"]["proj"]:
        return o["place"]["local"]
    return None


def ty_mentions(ty, adt):
    return adt in ty.get("s", "")


def peel(ty):
    while ty.get("k") in ("ref", "ptr") and "inner" in ty:
        ty = ty["inner"]
    return ty


class Call:
    __slots__ = ("fn", "bb", "term", "targets", "closures", "name", "events", "kind", "pending")

    def __init__(self, fn, bb, term):
        self.fn = fn
        self.bb = bb
        self.term = term
        self.targets = []   # local Fn bodies that may run
        self.closures = []  # closure bodies passed as arguments
        self.name = callee_name(term) or "<indirect>"
        self.events = set()  # base events of the call itself
        self.kind = "call"
        self.pending = []   # (type parameter, trait) calls awaiting instantiation

    @property
    def line(self):
        return self.term["span"]["line"]

    def loc(self):
        return "%s:%d" % (self.term["span"]["file"], self.term["span"]["line"])

    def all_targets(self):
        return self.targets + self.closures


class CallGraph:
    def __init__(self, facts):
        self.fx = facts
        self.fns = facts.fns
        # local trait impl methods: (trait, method name) -> [Fn]
        self.impl_methods = {}
        # adt -> [Fn] std-trait impl methods
        self.adt_trait_methods = {}
        self.drop_impls = {}
        for f in self.fns.values():
            tr = f.d.get("impl_trait")
            if tr:
                nm = f.d["name"]
                self.impl_methods.setdefault((tr, nm), []).append(f)
                adt = peel(f.d.get("impl_self", {})).get("adt")
                if adt:
                    self.adt_trait_methods.setdefault(adt, []).append(f)
                    if tr in ("std::ops::Drop", "core::ops::Drop") and nm == "drop":
                        self.drop_impls[adt] = f
            it = f.d.get("in_trait")
            if it:
                self.impl_methods.setdefault((it, f.d["name"]), []).append(f)
        self.calls = {}
        for f in self.fns.values():
            self.calls[f.path] = self._calls_of(f)
        self._instantiate()
        self.effects = {}
        self._closure()

    # ------------------------------------------------------------ edges --
    def _calls_of(self, f):
        out = []
        for bb, blk in enumerate(f.blocks):
            if blk["cleanup"]:
                continue
            t = blk["term"]
            if t["t"] == "drop":
                ty = t["place"]["ty"]
                for adt, df in self.drop_impls.items():
                    if adt in ty or adt.split("::")[-1] + "<" in ty:
                        c = Call(f, bb, t)
                        c.kind = "drop"
                        c.name = "drop(%s)" % ty
                        c.targets.append(df)
                        out.append(c)
                continue
            if t["t"] not in ("call", "tailcall"):
                continue
            c = Call(f, bb, t)
            self._resolve(f, c, t)
            for a in t["args"]:
                l = None
                if a["k"] == "const" and a.get("fndef") in self.fns:
                    # a function item handed over as a value (`.map(cfb_uppercase_unit)`): it will be called
                    c.closures.append(self.fns[a["fndef"]])
                if a["k"] in ("copy", "move"):
                    l = a["place"]["local"] if not a["place"]["proj"] else None
                    ty = None
                    if l is not None:
                        ty = peel(f.locals[l])
                    if ty and ty.get("k") == "closure" and ty["def"] in self.fns:
                        c.closures.append(self.fns[ty["def"]])
            out.append(c)
        return out

    def _resolve(self, f, c, t):
        if t.get("callee_kind") != "direct":
            c.events.add("indirect_call")
            return
        res = t.get("resolved")
        callee = t["callee"]
        tr = t.get("callee_trait")
        nm = t["callee_name"]
        if "resolved_closure" in t and t["resolved_closure"] in self.fns and (tr or "").split("::")[-1] in ("FnOnce", "FnMut", "Fn"):
            c.targets.append(self.fns[t["resolved_closure"]])
            return
        if res is not None and res in self.fns:
            c.targets.append(self.fns[res])
            return
        selfty = peel(t.get("callee_self", {}))
        if res is None:
            # trait call on a type parameter or a trait object
            if tr in IO_TRAITS and selfty.get("k") == "param":
                ev = IO_TRAITS[tr]
                if tr == "std::io::Write" and nm == "flush":
                    ev = "io_flush"
                c.events.add(ev)
                c.events.add("param_io:" + selfty.get("name", "?"))
                c.pending.append((selfty.get("name"), tr))
                return
            if selfty.get("k") == "param":
                c.pending.append((selfty.get("name"), tr))
                return
            if tr is not None:
                cands = self.impl_methods.get((tr, nm), [])
                # the receiver's type is known (a generic helper inlined at a call site that fixed its parameter): only
                # that type's impl is a target
                adt = selfty.get("adt")
                if adt:
                    own = [g for g in cands if peel(g.d.get("impl_self", {})).get("adt") == adt]
                    cands = own or cands
                for g in cands:
                    if g not in c.targets:
                        c.targets.append(g)
            return
        # resolved to something outside the crate
        if res.endswith("RwLock::<T>::read"):
            c.events.add("lock_read")
        elif res.endswith("RwLock::<T>::write"):
            c.events.add("lock_write")
        if res.endswith("SystemTime::now") or res.endswith("Instant::now"):
            c.events.add("clock")
        # an external generic may call back into std-trait impls of local types
        for ta in t.get("callee_targs", []):
            pt = peel(ta)
            adt = pt.get("adt")
            if adt and adt in self.adt_trait_methods:
                # a default method of a std trait only calls back into that trait's impl
                self._add_adt_impls(c, adt, tr if (tr and (tr.startswith("std::") or tr.startswith("core::"))) else None)
                if tr == "std::io::BufRead":
                    self._add_adt_impls(c, adt, "std::io::Read")
            elif pt.get("k") == "param":
                c.pending.append((pt.get("name"), tr if (tr and (tr.startswith("std::") or tr.startswith("core::"))) else None))

    def _add_adt_impls(self, c, adt, trait):
        for g in self.adt_trait_methods.get(adt, []):
            gtr = g.d.get("impl_trait", "")
            if trait is not None:
                if gtr != trait:
                    continue
            elif not (gtr.startswith("std::") or gtr.startswith("core::")):
                continue
            if g not in c.targets:
                c.targets.append(g)

    def _instantiate(self):
        """inst[(fn path, param)] = set of local ADTs that may instantiate the
        type parameter (closed over parameter-to-parameter flow)."""
        direct = {}
        flows = {}
        for f in self.fns.values():
            for c in self.calls[f.path]:
                t = c.term
                if c.kind != "call":
                    continue
                res = t.get("resolved")
                if res in self.fns and t.get("resolved_targs") is not None:
                    g = self.fns[res]
                    gens = g.d.get("generics", [])
                    targs = t["resolved_targs"]
                    for pn, ta in zip(gens, targs):
                        pt = peel(ta)
                        if pt.get("adt") in self.adt_trait_methods:
                            direct.setdefault((g.path, pn), set()).add(pt["adt"])
                        elif pt.get("k") == "param":
                            flows.setdefault((g.path, pn), set()).add((f.path, pt["name"]))
        # closures inherit their parent's parameters
        for f in self.fns.values():
            if f.kind == "closure" and f.parent:
                for pn in f.d.get("generics", []):
                    flows.setdefault((f.path, pn), set()).add((self._root_parent(f), pn))
        inst = {k: set(v) for k, v in direct.items()}
        changed = True
        while changed:
            changed = False
            for k, srcs in flows.items():
                cur = inst.setdefault(k, set())
                n = len(cur)
                for s_ in srcs:
                    cur |= inst.get(s_, set())
                if len(cur) != n:
                    changed = True
        self.inst = inst
        for f in self.fns.values():
            for c in self.calls[f.path]:
                for (pn, trait) in c.pending:
                    for adt in inst.get((f.path, pn), ()):
                        self._add_adt_impls(c, adt, trait)

    def _root_parent(self, f):
        p = f.parent
        while p in self.fns and self.fns[p].kind == "closure":
            p = self.fns[p].parent
        return p

    # ---------------------------------------------------------- effects --
    def base_effects(self, f):
        ev = set()
        for c in self.calls[f.path]:
            for e in c.events:
                if not e.startswith("param_io:"):
                    ev.add(e)
        if state_stores(f):
            ev.add("state_store")
        return ev

    def _closure(self):
        eff = {p: self.base_effects(f) for p, f in self.fns.items()}
        changed = True
        while changed:
            changed = False
            for p, f in self.fns.items():
                cur = eff[p]
                n = len(cur)
                for c in self.calls[p]:
                    for g in c.all_targets():
                        cur |= eff[g.path]
                if len(cur) != n:
                    changed = True
        for p in eff:
            if "io_write" in eff[p] or "state_store" in eff[p]:
                eff[p].add("mutates_state")
        self.effects = eff

    def call_effects(self, c):
        ev = set(e for e in c.events if not e.startswith("param_io:"))
        for g in c.all_targets():
            ev |= self.effects[g.path]
        if "io_write" in ev or "state_store" in ev:
            ev.add("mutates_state")
        return ev

    def reachable(self, roots):
        seen = {}
        st = list(roots)
        for r in roots:
            seen[r.path] = r
        while st:
            f = st.pop()
            for c in self.calls[f.path]:
                for g in c.all_targets():
                    if g.path not in seen:
                        seen[g.path] = g
                        st.append(g)
        return seen

    def find_path_from_call(self, call, pred):
        """Call chain starting with `call` down to a call satisfying pred."""
        if pred(call):
            return [call]
        for g in call.all_targets():
            ch = self.find_path(g, pred)
            if ch is not None:
                return [call] + ch
        return None

    def find_path(self, src, pred):
        """Shortest call chain [Call, ...] from function src to a call
        satisfying pred(call)."""
        from collections import deque
        prev = {src.path: None}
        dq = deque([src])
        while dq:
            f = dq.popleft()
            for c in self.calls[f.path]:
                if pred(c):
                    chain = [c]
                    p = prev[f.path]
                    while p is not None:
                        chain.append(p)
                        p = prev[p.fn.path]
                    return chain[::-1]
                for g in c.all_targets():
                    if g.path not in prev:
                        prev[g.path] = c
                        dq.append(g)
        return None


def root_is_state(fn, place):
    """Is this place a location inside one of the state ADTs, reached through
    a reference (not a by-value local being built)?"""
    lt = fn.locals[place["local"]]
    has_deref = any(e["p"] == "deref" for e in place["proj"])
    owners = [e.get("owner", "") for e in place["proj"] if e["p"] == "field"]
    if not has_deref:
        return None
    base = peel(lt)
    for a in STATE_ADTS:
        if base.get("adt") == a or any(o.startswith(a) for o in owners):
            return a
    return None


def state_stores(fn):
    """(bb, idx|'t', description) of stores into state ADT fields through
    references, including Vec mutator calls on such fields."""
    out = []
    # locals that hold &mut to a state field: _x = &mut (*_1).fat
    fieldrefs = {}
    for bb, blk in enumerate(fn.blocks):
        if blk["cleanup"]:
            continue
        for i, st in enumerate(blk["stmts"]):
            if st["s"] != "assign":
                continue
            rv = st["rv"]
            if rv["r"] == "ref" and rv["mut"] and not st["place"]["proj"]:
                a = root_is_state(fn, rv["place"])
                fields = [e["name"] for e in rv["place"]["proj"] if e["p"] == "field"]
                if a and fields:
                    fieldrefs[st["place"]["local"]] = (a, fields)
            if st["place"]["proj"]:
                a = root_is_state(fn, st["place"])
                fields = [e["name"] for e in st["place"]["proj"] if e["p"] == "field"]
                if a and fields:
                    out.append((bb, i, "%s.%s" % (a.split("::")[-1], ".".join(fields))))
    for bb, blk in enumerate(fn.blocks):
        if blk["cleanup"]:
            continue
        t = blk["term"]
        if t["t"] != "call" or t.get("callee_kind") != "direct":
            continue
        nm = t.get("callee_name")
        res = t.get("resolved") or t.get("callee") or ""
        if nm in VEC_MUTATORS and ("vec::Vec" in res or "slice" in res) and t["args"]:
            l = op_local(t["args"][0])
            if l in fieldrefs:
                a, fields = fieldrefs[l]
                out.append((bb, "t", "%s.%s.%s()" % (a.split("::")[-1], ".".join(fields), nm)))
    return out


# ------------------------------------------------------------- A3 ------

def local_uses(fn, l):
    """All reads of local l: (bb, idx|'t', what, detail)."""
    out = []

    def in_op(o):
        return o["k"] in ("copy", "move") and o["place"]["local"] == l

    for bb, blk in enumerate(fn.blocks):
        if blk["cleanup"]:
            continue
        for i, st in enumerate(blk["stmts"]):
            if st["s"] != "assign":
                continue
            rv = st["rv"]
            k = rv["r"]
            ops = []
            if k in ("use", "cast", "repeat"):
                ops = [rv["op"]]
            elif k == "binop":
                ops = [rv["a"], rv["b"]]
            elif k == "unop":
                ops = [rv["a"]]
            elif k == "aggregate":
                ops = rv["ops"]
            for o in ops:
                if in_op(o):
                    out.append((bb, i, "use", st))
            if k in ("ref", "rawptr", "discriminant") and rv["place"]["local"] == l:
                out.append((bb, i, k, st))
        t = blk["term"]
        if t["t"] in ("call", "tailcall"):
            for ai, a in enumerate(t["args"]):
                if in_op(a):
                    out.append((bb, "t", "arg%d" % ai, t))
        elif t["t"] == "switch" and in_op(t["discr"]):
            out.append((bb, "t", "switch", t))
        elif t["t"] == "drop" and t["place"]["local"] == l:
            out.append((bb, "t", "drop", t))
        elif t["t"] == "assert" and in_op(t["cond"]):
            out.append((bb, "t", "assert", t))
    return out


def _switch_on_discr(fn, bb, l):
    """If block bb reads discriminant(l) (l a bare local or (l as V).x...) and
    switches on it, return {variant_idx: target, 'otherwise': target}."""
    blk = fn.blocks[bb]
    dl = None
    for st in blk["stmts"]:
        if st["s"] == "assign" and st["rv"]["r"] == "discriminant" and st["rv"]["place"]["local"] == l and not st["rv"]["place"]["proj"]:
            dl = st["place"]["local"]
    t = blk["term"]
    if dl is None or t["t"] != "switch" or op_local(t["discr"]) != dl:
        return None
    m = {int(v): b for v, b in t["arms"]}
    m["otherwise"] = t["otherwise"]
    return m


def result_disposition(fn, bb):
    """What happens to the Result returned by the call in block bb.
    Returns dict(kind=..., ok=bb|None, err=bb|None, detail=...), kinds:
    try, returned, matched, unwrap, discarded(method), dropped, passed(callee), stored, unknown."""
    t = fn.blocks[bb]["term"]
    d = t["dest"]
    if d["proj"]:
        return {"kind": "stored", "detail": fmt_place(d)}
    l = d["local"]
    if l == 0:
        return {"kind": "returned"}
    return _follow(fn, l, 0)


def _follow(fn, l, depth):
    if depth > 6:
        return {"kind": "unknown"}
    uses = [u for u in local_uses(fn, l)]
    real = [u for u in uses if u[2] != "drop"]
    if not real:
        return {"kind": "dropped"}
    # `res.is_ok()` / `res.is_err()` look at the Result through a reference.  When every use of the Result is such
    # a probe, the error value itself is never looked at: the Result is discarded through the probe.
    probes = []
    others = []
    for u in real:
        (ubb, ui, what, x) = u
        if what == "ref" and ui != "t" and not x["place"]["proj"]:
            r = x["place"]["local"]
            ru = [w for w in local_uses(fn, r) if w[2] != "drop"]
            if ru and all(w[1] == "t" and w[2].startswith("arg") and (callee_name(w[3]) or "").split("::")[-1] in ("is_ok", "is_err") and "result::Result" in (callee_name(w[3]) or "") for w in ru):
                probes.append(ru[0])
                continue
        others.append(u)
    if probes and not others:
        return {"kind": "discarded", "detail": (callee_name(probes[0][3]) or "").split("::")[-1], "bb": probes[0][0]}
    # discriminant + switch
    for (ubb, ui, what, x) in real:
        if what == "discriminant":
            m = _switch_on_discr(fn, ubb, l)
            if m is not None:
                ok = m.get(0, m["otherwise"])
                err = m.get(1, m["otherwise"])
                return {"kind": "matched", "ok": ok, "err": err, "switch_bb": ubb}
    for (ubb, ui, what, x) in real:
        if what.startswith("arg") and ui == "t":
            nm = callee_name(x) or ""
            if nm.endswith("as std::ops::Try>::branch"):
                y = x["dest"]["local"]
                tgt = x["target"]
                m = _switch_on_discr(fn, tgt, y)
                if m is not None:
                    return {"kind": "try", "ok": m.get(0, m["otherwise"]), "err": m.get(1, m["otherwise"]), "switch_bb": tgt, "branch_local": y}
                return {"kind": "unknown"}
            short = nm.split("::")[-1]
            if "result::Result" in nm or "option::Option" in nm:
                if short in ("unwrap", "expect", "unwrap_err", "expect_err"):
                    return {"kind": "unwrap", "detail": nm, "bb": ubb}
                if short in ("ok", "err", "is_ok", "is_err", "unwrap_or", "unwrap_or_default", "unwrap_or_else", "is_ok_and", "is_err_and", "iter", "is_some", "is_none"):
                    return {"kind": "discarded", "detail": short, "bb": ubb}
                if short in ("map", "map_err", "and_then", "or_else", "and", "or"):
                    dl = x["dest"]
                    if not dl["proj"]:
                        if dl["local"] == 0:
                            return {"kind": "returned"}
                        return _follow(fn, dl["local"], depth + 1)
            return {"kind": "passed", "detail": nm, "bb": ubb}
        if what == "use":
            st = x
            if st["rv"]["r"] in ("use",) and not st["place"]["proj"]:
                if st["place"]["local"] == 0:
                    return {"kind": "returned"}
                return _follow(fn, st["place"]["local"], depth + 1)
            if st["rv"]["r"] == "aggregate":
                return {"kind": "stored", "detail": "aggregate"}
            if st["place"]["proj"]:
                return {"kind": "stored", "detail": fmt_place(st["place"])}
    return {"kind": "unknown"}
