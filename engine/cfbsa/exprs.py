"""A small evaluator for provenance expressions (prov.py strings): Add/Sub/Mul/Div/Rem/Shl/Shr/BitAnd/min/max over
constants, named constants (core.CONST_VALUES) and an environment of named measures (`sector_len` = 512 or 4096).
Returns an int, or None when a leaf is not a number: "no verdict"."""
import re

import core

_OPS = {"Add": lambda a, b: a + b, "Sub": lambda a, b: a - b, "Mul": lambda a, b: a * b,
        "Div": lambda a, b: a // b if b else None, "Rem": lambda a, b: a % b if b else None,
        "Shl": lambda a, b: a << b if 0 <= b < 128 else None, "Shr": lambda a, b: a >> b if 0 <= b < 128 else None,
        "BitAnd": lambda a, b: a & b, "BitOr": lambda a, b: a | b}


def split_top(body):
    out, depth, cur = [], 0, ""
    for ch in body:
        if ch in "([<":
            depth += 1
        elif ch in ")]>":
            depth -= 1
        if ch == "," and depth == 0:
            out.append(cur)
            cur = ""
        else:
            cur += ch
    out.append(cur)
    return out


def evaluate(expr, env=None):
    env = env or {}
    e = expr.strip()
    m = re.match(r"^const:(-?\d+)(?:_[iu]\w+)?$", e)
    if m:
        return int(m.group(1))
    m = re.match(r"^const:(?:\w+::)*([A-Za-z_]\w*)$", e)
    if m:
        return core.CONST_VALUES.get(m.group(1))
    m = re.match(r"^(.*) as [iu](8|16|32|64|128|size)$", e)
    if m:
        return evaluate(m.group(1), env)
    m = re.match(r"^(\w+)\((.*)\)$", e)
    if m and m.group(1) in _OPS:
        ops = split_top(m.group(2))
        if len(ops) != 2:
            return None
        a, b = evaluate(ops[0], env), evaluate(ops[1], env)
        if a is None or b is None:
            return None
        return _OPS[m.group(1)](a, b)
    m = re.match(r"^([\w:<>, ]*?)(\w+)\((.*)\)$", e)
    if m:
        name = m.group(2)
        if name in env:
            return env[name]
        if name in ("min", "max"):
            vals = [evaluate(o, env) for o in split_top(m.group(3))]
            if len(vals) == 2 and None not in vals:
                return min(vals) if name == "min" else max(vals)
        if name == "size_of":
            return None
    if e.startswith("ok(") and e.endswith(")"):
        return evaluate(e[3:-1], env)
    return None
