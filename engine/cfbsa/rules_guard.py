"""Table-driven guard-context rules: a located site must be dominated by
conditions matching the listed atoms (rules/guardreq.json)."""
import re

from core import Finding, RuleResult, atoms_match, view
from prov import Prov, guards
from rules_follow import _match_call


def make(rule_id):
    def run(ctx):
        tbl = ctx.table("guardreq")
        rows = [r for r in tbl.get("rows", []) if r["rule"] == rule_id]
        res = RuleResult(rule_id, tbl.get("clauses", {}).get(rule_id, "guard-context obligations"))
        located = 0
        for row in rows:
            f = ctx.fx.fns.get(row["function"])
            if f is None:
                res.gone.append(row["id"])
                continue
            v = view(ctx, f)
            pr = Prov(f)
            g = guards(ctx, f)
            sites = [c for c in v.calls.values() if _match_call(pr, c, row["site"])]
            if not sites:
                res.gone.append(row["id"])
                continue
            located += 1
            for c in sites:
                atoms = g.atoms_at(("t", c.bb))
                missing = [rx for rx in row["require"] if not atoms_match(rx, atoms)]
                key = "%s/%s/%s" % (rule_id, f.path, row["id"])
                if missing:
                    res.fail(Finding(rule_id, key, "%s; conditions on the path to %s (line %d): %s" % (row["why"], c.name.split("::")[-1], c.line, "; ".join(a[:110] for a in atoms) or "none"), f, c.term["span"]))
                else:
                    res.ok({"row": row["id"], "function": f.path, "site": c.name.split("::")[-1], "guard": [a[:100] for a in atoms if any(atoms_match(rx, [a]) for rx in row["require"])][:2]}, nontrivial=True)
        res.floor("rows located", located, ctx.table("floors").get("guardreq_" + rule_id, 0))
        return res
    return run
