"""Table-driven guard-context rules: a located site must be dominated by
conditions matching the listed atoms (rules/guardreq.json)."""
import re

from core import Finding, RuleResult, atoms_match, view
from prov import Prov, guards
from rules_follow import _match_call


def make(rule_id):
    def run(ctx):
        tbl = ctx.table("guardreq")
        rows = [r for r in tbl.get("rows", []) if r["rule"] == rule_id]
        res = RuleResult(rule_id, tbl.get("clauses", {}).get(rule_id, "guard-context obligations"))
        located = 0
        for row in rows:
            f = ctx.fx.fns.get(row["function"])
            if f is None:
                res.gone.append(row["id"])
                continue
            v = view(ctx, f)
            pr = Prov(f)
            g = guards(ctx, f)
            sites = [c for c in v.calls.values() if _match_call(pr, c, row["site"])]
            if not sites:
                res.gone.append(row["id"])
                continue
            located += 1
            for c in sites:
                atoms = g.atoms_at(("t", c.bb))
                missing = [rx for rx in row["require"] if not atoms_match(rx, atoms)]
                # `if !seen.insert(id) { refuse }`: the insertion is itself the seen-set test
                if missing and c.name.endswith("::insert") and any("contains" in rx for rx in missing) and _insert_is_tested(ctx, f, v, c):
                    missing = [rx for rx in missing if "contains" not in rx]
                key = "%s/%s/%s" % (rule_id, f.path, row["id"])
                if missing:
                    res.fail(Finding(rule_id, key, "%s; conditions on the path to %s (line %d): %s" % (row["why"], c.name.split("::")[-1], c.line, "; ".join(a[:110] for a in atoms) or "none"), f, c.term["span"]))
                else:
                    res.ok({"row": row["id"], "function": f.path, "site": c.name.split("::")[-1], "guard": [a[:100] for a in atoms if any(atoms_match(rx, [a]) for rx in row["require"])][:2]}, nontrivial=True)
        res.floor("rows located", located, ctx.table("floors").get("guardreq_" + rule_id, 0))
        return res
    return run


def _insert_is_tested(ctx, f, v, c):
    """The boolean returned by `set.insert(x)` is tested right away and the `false` side (x was there already) leads to
    nothing but an error return."""
    t = c.term
    if t["dest"]["proj"] or t.get("target") is None:
        return False
    d = t["dest"]["local"]
    pg = v.pg
    errs = set(v.all_err_nodes())
    rets = set(pg.returns())
    cur = t["target"]
    for _ in range(4):
        blk = f.blocks[cur]
        tt = blk["term"]
        if tt["t"] == "goto":
            cur = tt["target"]
            continue
        if tt["t"] != "switch" or tt["discr"]["k"] not in ("copy", "move") or tt["discr"]["place"]["proj"]:
            return False
        dl = tt["discr"]["place"]["local"]
        neg, src = False, dl
        for st in blk["stmts"]:
            if st["s"] == "assign" and not st["place"]["proj"] and st["place"]["local"] == dl:
                if st["rv"]["r"] == "unop" and st["rv"].get("op") == "Not" and st["rv"]["a"]["k"] in ("copy", "move") and st["rv"]["a"]["place"]["local"] == d:
                    neg, src = True, d
                elif st["rv"]["r"] == "use" and st["rv"]["op"]["k"] in ("copy", "move") and st["rv"]["op"]["place"]["local"] == d:
                    src = d
        if src != d:
            return False
        arms = dict((int(a_), b_) for a_, b_ in tt["arms"])
        dup = tt["otherwise"] if neg else arms.get(0)
        if dup is None:
            return False
        reach = pg.reach(pg.edge_node(cur, dup), errs)
        return not (reach & rets)
    return False
