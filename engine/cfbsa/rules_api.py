"""API-layer rules: R-NOEFFECT (C10) and R-ERRKIND (rows per property)."""
import re

from core import Finding, RuleResult, atoms_match, is_io_result_ty, view
from prov import guards

REFUSAL_KINDS = ("NotFound", "AlreadyExists", "InvalidInput")
STREAM = "internal::stream::Stream"


def refusals(ctx, f):
    """(call, kind) for every io::Error::new(ErrorKind::K, ..) in f."""
    out = []
    g = None
    for c in ctx.cg.calls[f.path]:
        if c.kind == "call" and "io::Error::new" in c.name and c.term["args"]:
            g = g or guards(ctx, f)
            k = g.prov.operand(c.term["args"][0])
            m = re.search(r"ErrorKind::(\w+)", k)
            out.append((c, m.group(1) if m else "?"))
    return out


def path_contexts(ctx, f, bb):
    """Guard atoms of a block, one list per way of reaching it.  When the block (or the straight line leading to it)
    is a join - one shared `Err(io::Error::new(kind, message))` fed by several arms that each made their own test -
    the conditions that dominate the block say nothing; what holds on each incoming arm does.  Returns
    [atoms_at(block)] when the block is not behind a join."""
    g = guards(ctx, f)
    from prov import Prov
    preds = Prov(f)._preds()
    live = lambda p: not f.blocks[p]["cleanup"] and f.blocks[p]["term"]["t"] != "unreachable"
    cur, hops = bb, 0
    while hops < 6:
        ps = [p for p in preds.get(cur, []) if live(p)]
        if len(ps) != 1:
            break
        cur, hops = ps[0], hops + 1
    ps = [p for p in preds.get(cur, []) if live(p)]
    if len(ps) < 2:
        return [g.atoms_at(("t", bb))]
    out = []
    for p in ps:
        atoms = list(g.atoms_at(("t", p)))
        t = f.blocks[p]["term"]
        if t["t"] == "switch":
            vals = [str(x) for x, _ in t["arms"]] + ["otherwise"]
            tg = [b_ for _, b_ in t["arms"]] + [t["otherwise"]]
            for k_, b_ in enumerate(tg):
                if b_ == cur:
                    atoms += list(g.describe_all(p, vals[k_], vals))
        out.append(atoms)
    return out


def err_kinds(ctx):
    """fn path -> set of ErrorKind names the function may construct, transitively."""
    memo = ctx.__dict__.get("_err_kinds")
    if memo is not None:
        return memo
    k = {}
    for f in ctx.fx.fns.values():
        k[f.path] = set(kind for (_, kind) in refusals(ctx, f))
    changed = True
    while changed:
        changed = False
        for f in ctx.fx.fns.values():
            cur = k[f.path]
            n = len(cur)
            for c in ctx.cg.calls[f.path]:
                for g in c.all_targets():
                    cur |= k[g.path]
            if len(cur) != n:
                changed = True
    ctx.__dict__["_err_kinds"] = k
    return k


def _api_functions(ctx):
    tbl = ctx.table("noeffect")
    adts = tbl.get("api_adts", ["CompoundFile"])
    extra = set(tbl.get("extra_functions", []))
    out = []
    for f in ctx.fx.fns.values():
        if f.kind == "closure":
            continue
        s = f.d.get("impl_self", {})
        if s.get("adt") in adts or f.path in extra:
            out.append(f)
    return out


def _effect_nodes(ctx, f):
    v = view(ctx, f)
    nodes = []
    for bb, c in v.calls.items():
        eff = ctx.cg.call_effects(c)
        if "mutates_state" in eff:
            nodes.append((("t", bb), "call %s (line %d)" % (c.name, c.line)))
    for c in ctx.cg.calls[f.path]:
        if c.kind == "drop" and "mutates_state" in ctx.cg.call_effects(c):
            nodes.append((("t", c.bb), "drop of a Stream (writes back) (line %d)" % c.line))
    # stores to fields of a Stream handle through &mut self
    for bb, blk in enumerate(f.blocks):
        if blk["cleanup"]:
            continue
        for i, st in enumerate(blk["stmts"]):
            if st["s"] != "assign":
                continue
            fl = [e for e in st["place"]["proj"] if e["p"] == "field"]
            if fl and any(e["p"] == "deref" for e in st["place"]["proj"]) and fl[0]["owner"].startswith(STREAM):
                nodes.append((("s", bb, i), "store to Stream.%s (line %d)" % (fl[0]["name"], st["span"]["line"])))
    return nodes


def _write_effect_nodes(ctx, f):
    """Calls (and drops) that can write to the underlying file."""
    v = view(ctx, f)
    nodes = []
    for bb, c in v.calls.items():
        if "io_write" in ctx.cg.call_effects(c):
            nodes.append((("t", bb), "call %s (line %d), which writes to the file" % (c.name, c.line)))
    for c in ctx.cg.calls[f.path]:
        if c.kind == "drop" and "io_write" in ctx.cg.call_effects(c):
            nodes.append((("t", c.bb), "drop of a Stream (writes back) (line %d)" % c.line))
    return nodes


def noeffect(ctx):
    res = RuleResult("R-NOEFFECT", "in every API method no state/file mutation (nor a store to a handle field) precedes a refusal point on any path")
    n_fn = 0
    n_ref = 0
    for f in _api_functions(ctx):
        v = view(ctx, f)
        pg = v.pg
        pts = []
        for (c, kind) in refusals(ctx, f):
            if kind in REFUSAL_KINDS:
                pts.append((("t", c.bb), "%s refusal (line %d)" % (kind, c.line), c.term["span"], kind))
        # error exits of effect-free fallible callees (validators, lookups)
        for bb, c in v.calls.items():
            t = c.term
            if t["dest"]["proj"] or not is_io_result_ty(f.locals[t["dest"]["local"]]):
                continue
            eff = ctx.cg.call_effects(c)
            if eff & {"mutates_state", "io_read", "io_write", "io_seek", "io_flush"}:
                continue
            if not c.targets:
                continue
            ks = set()
            for g_ in c.all_targets():
                ks |= err_kinds(ctx)[g_.path]
            if not (ks & set(REFUSAL_KINDS)):
                continue
            for e in v.err_nodes(bb):
                pts.append((e, "refusal propagated from %s (line %d)" % (c.name, c.line), t["span"], "propagated"))
        if not pts:
            continue
        n_fn += 1
        effs = _effect_nodes(ctx, f)
        reach_entry = pg.reach([pg.entry()])
        after = {}
        for (en, desc) in effs:
            if en in reach_entry:
                after[(en, desc)] = pg.reach_after(en)
        for (pn, pdesc, span, kind) in pts:
            n_ref += 1
            bad = [(en, desc) for (en, desc), r in after.items() if pn in r]
            if bad:
                en, desc = bad[0]
                p = pg.path(en, [pn])
                res.fail(Finding("R-NOEFFECT", "R-NOEFFECT/%s/effect-before-refusal/%s" % (f.path, kind),
                                 "%s can be reached after an effect: %s; a refused call would leave the file or handle changed" % (pdesc, desc), f, span,
                                 path=pg.fmt_path(p) if p else None))
            else:
                res.ok({"function": f.path, "refusal": pdesc, "effects_in_function": len(effs)}, nontrivial=bool(effs))
    res.floor("API methods with refusal points", n_fn, ctx.table("floors").get("noeffect_fns", 0))
    res.floor("refusal points", n_ref, ctx.table("floors").get("noeffect_refusals", 0))
    return res


def errkind(pid):
    def run(ctx):
        res = RuleResult("R-ERRKIND(%s)" % pid, "each listed refusal keeps the error kind the property names for its guard context")
        rows = [r for r in ctx.table("errkind").get("rows", []) if pid in r["properties"]]
        matched_rows = 0
        for row in rows:
            f = ctx.fx.fns.get(row["function"])
            if f is None:
                res.gone.append(row["function"] + ":" + row["id"])
                continue
            g = guards(ctx, f)
            found = []
            for (c, kind) in refusals(ctx, f):
                atoms = g.atoms_at(("t", c.bb))
                if all(atoms_match(rx, atoms) for rx in row["require"]) and not any(atoms_match(rx, atoms) for rx in row.get("forbid", [])):
                    found.append((c, kind, atoms))
            if not found:
                # one shared construction of the error behind a join of several refusing arms: judge each arm
                for (c, kind) in refusals(ctx, f):
                    for atoms in path_contexts(ctx, f, c.bb):
                        if all(atoms_match(rx, atoms) for rx in row["require"]) and not any(atoms_match(rx, atoms) for rx in row.get("forbid", [])):
                            found.append((c, kind, atoms))
            if not found:
                res.gone.append(row["function"] + ":" + row["id"])
                continue
            matched_rows += 1
            for (c, kind, atoms) in found:
                if kind == row["kind"]:
                    res.ok({"function": f.path, "row": row["id"], "kind": kind, "guard_atoms": [a[-120:] for a in atoms][:4]}, nontrivial=True)
                else:
                    res.fail(Finding(res.rule, "%s/%s/%s/kind-is-%s" % (res.rule, f.path, row["id"], kind),
                                     "refusal for '%s' has kind %s, the property requires %s" % (row["id"], kind, row["kind"]), f, c.term["span"]))
        res.floor("refusal rows located", matched_rows, ctx.table("floors").get("errkind_" + pid, 0))
        return res
    return run


def _excluded_by_caller(ctx, f, c, cf, cc):
    """The refusal at c (in f) tests a parameter of f; does the caller cf, at its call cc, already know the
    complementary relation for the argument it passes (it made the same check itself, earlier)?"""
    from prov import Prov, guards as _guards, _split_top
    comp = {"Gt": "Le", "Ge": "Lt", "Lt": "Ge", "Le": "Gt", "Eq": "Ne", "Ne": "Eq"}

    def toks(x):
        return set(re.findall(r"const:[\w:]+", x)) | {t.split("::")[-1] for t in re.findall(r"[A-Za-z_][\w:]*(?=\()", x)}
    pnames = {nm: l for l, nm in f.debug_names().items() if 1 <= l <= f.arg_count}
    prc = Prov(cf)
    catoms = _guards(ctx, cf).atoms_at(("t", cc.bb))
    for a in _guards(ctx, f).atoms_at(("t", c.bb)):
        m = re.match(r"^\((Gt|Ge|Lt|Le|Eq|Ne)\((.*)\)\)$", a)
        if not m:
            continue
        ops = _split_top(m.group(2))
        mp = re.match(r"^param:(\w+)$", ops[0]) if len(ops) == 2 else None
        if not mp or mp.group(1) not in pnames:
            continue
        idx = pnames[mp.group(1)] - 1
        if idx >= len(cc.term["args"]):
            continue
        actual = prc.operand(cc.term["args"][idx])
        for ca in catoms:
            m2 = re.match(r"^\((Gt|Ge|Lt|Le|Eq|Ne)\((.*)\)\)$", ca)
            if not m2 or m2.group(1) != comp[m.group(1)]:
                continue
            o2 = _split_top(m2.group(2))
            if len(o2) == 2 and o2[0] == actual and toks(ops[1]) <= toks(o2[1]):
                return True
    return False


def deeprefusal(ctx):
    """R-DEEPREFUSAL (C10): NotFound / AlreadyExists are namespace refusals.  When one is raised below the API
    layer (inside internal::*), every function on the way down must not have changed anything before calling
    further down - otherwise the API call is refused after it has already written."""
    res = RuleResult("R-DEEPREFUSAL", "a NotFound / AlreadyExists refusal - or an InvalidInput refusal of a caller-supplied argument - constructed inside the internal layer is not preceded by an effect in any function on the call chain that reaches it")
    callers = {}
    for f in ctx.fx.fns.values():
        for c in ctx.cg.calls[f.path]:
            if c.kind == "call":
                for g in c.all_targets():
                    callers.setdefault(g.path, []).append((f, c))
    n = 0
    for f in ctx.fx.fns.values():
        if not f.path.startswith("internal::"):
            continue
        for (c, kind) in refusals(ctx, f):
            if kind == "InvalidInput":
                # only a refusal of the caller's ARGUMENT (a comparison whose subject is computed from a non-self
                # parameter alone: an over-long length, an invalid name); a refusal that reads file state (a cell
                # found free twice) is a damaged-file report, whatever kind it uses
                from prov import guards as _guards
                from prov import _split_top
                arg = False
                for a_ in _guards(ctx, f).atoms_at(("t", c.bb)):
                    m_ = re.match(r"^!?\((Gt|Ge|Lt|Le|Eq|Ne)\((.*)\)\)$", a_)
                    if m_:
                        ops_ = _split_top(m_.group(2))
                        if len(ops_) == 2 and re.search(r"param:(?!self\b)\w+", ops_[0]) and "param:self" not in ops_[0] and "var:" not in ops_[0]:
                            arg = True
                if not arg:
                    continue
            elif kind not in ("NotFound", "AlreadyExists"):
                continue
            n += 1
            # inside f itself
            problems = []
            _eff = _write_effect_nodes if kind == "InvalidInput" else _effect_nodes
            effs = _eff(ctx, f)
            pg = view(ctx, f).pg
            for (en, desc) in effs:
                if ("t", c.bb) in pg.reach_after(en):
                    problems.append("%s in %s" % (desc, f.path.split("::")[-1]))
                    break
            # up the call chains
            seen = {f.path}
            work = [f.path]
            while work and not problems:
                cur = work.pop()
                for (cf, cc) in callers.get(cur, []):
                    try:
                        dk_ = view(ctx, cf).disp(cc.bb)["kind"]
                    except Exception:
                        dk_ = "unknown"
                    if kind == "InvalidInput" and dk_ in ("discarded", "dropped", "unwrap"):
                        continue        # the error is not handed up from here (an assertion probing is_ok()): not a refusal of the API call
                    if kind == "InvalidInput" and not cur.startswith("internal::") :
                        continue        # above the API function that entered the internal layer: a compound operation
                    if kind == "InvalidInput" and cur == f.path and _excluded_by_caller(ctx, f, c, cf, cc):
                        continue        # this caller has already refused the same argument: the refusal cannot fire from here
                    cpg = view(ctx, cf).pg
                    for (en, desc) in _eff(ctx, cf):
                        if en != ("t", cc.bb) and ("t", cc.bb) in cpg.reach_after(en):
                            problems.append("%s in %s, before it calls %s (line %d)" % (desc, cf.path.split("::")[-1], cur.split("::")[-1], cc.line))
                            break
                    if problems:
                        break
                    if cf.path not in seen:
                        seen.add(cf.path)
                        work.append(cf.path)
            key = "R-DEEPREFUSAL/%s/%s" % (f.path, kind)
            if problems:
                res.fail(Finding("R-DEEPREFUSAL", key + "/refusal-after-effect-up-the-chain", "%s is raised in %s (line %d), below the API layer, and can be reached after an effect: %s; the API call is then refused with %s although the file has already changed" % (kind, f.path.split("::")[-1], c.line, problems[0], kind), f, c.term["span"]))
            else:
                res.ok({"function": f.path, "kind": kind, "line": c.line, "effects_before": 0}, nontrivial=True)
    res.floor("internal namespace refusals", n, 0)
    res.notes.append("expected count on the reference tree: 0 (NotFound / AlreadyExists are only constructed in the API layer); the kept seeded change C10-5 is the positive example")
    return res
