"""API-layer rules: R-NOEFFECT (C10) and R-ERRKIND (rows per property)."""
import re

from core import Finding, RuleResult, atoms_match, is_io_result_ty, view
from prov import guards

REFUSAL_KINDS = ("NotFound", "AlreadyExists", "InvalidInput")
STREAM = "internal::stream::Stream"


def refusals(ctx, f):
    """(call, kind) for every io::Error::new(ErrorKind::K, ..) in f."""
    out = []
    g = None
    for c in ctx.cg.calls[f.path]:
        if c.kind == "call" and "io::Error::new" in c.name and c.term["args"]:
            g = g or guards(ctx, f)
            k = g.prov.operand(c.term["args"][0])
            m = re.search(r"ErrorKind::(\w+)", k)
            out.append((c, m.group(1) if m else "?"))
    return out


def err_kinds(ctx):
    """fn path -> set of ErrorKind names the function may construct, transitively."""
    memo = ctx.__dict__.get("_err_kinds")
    if memo is not None:
        return memo
    k = {}
    for f in ctx.fx.fns.values():
        k[f.path] = set(kind for (_, kind) in refusals(ctx, f))
    changed = True
    while changed:
        changed = False
        for f in ctx.fx.fns.values():
            cur = k[f.path]
            n = len(cur)
            for c in ctx.cg.calls[f.path]:
                for g in c.all_targets():
                    cur |= k[g.path]
            if len(cur) != n:
                changed = True
    ctx.__dict__["_err_kinds"] = k
    return k


def _api_functions(ctx):
    tbl = ctx.table("noeffect")
    adts = tbl.get("api_adts", ["CompoundFile"])
    extra = set(tbl.get("extra_functions", []))
    out = []
    for f in ctx.fx.fns.values():
        if f.kind == "closure":
            continue
        s = f.d.get("impl_self", {})
        if s.get("adt") in adts or f.path in extra:
            out.append(f)
    return out


def _effect_nodes(ctx, f):
    v = view(ctx, f)
    nodes = []
    for bb, c in v.calls.items():
        eff = ctx.cg.call_effects(c)
        if "mutates_state" in eff:
            nodes.append((("t", bb), "call %s (line %d)" % (c.name, c.line)))
    for c in ctx.cg.calls[f.path]:
        if c.kind == "drop" and "mutates_state" in ctx.cg.call_effects(c):
            nodes.append((("t", c.bb), "drop of a Stream (writes back) (line %d)" % c.line))
    # stores to fields of a Stream handle through &mut self
    for bb, blk in enumerate(f.blocks):
        if blk["cleanup"]:
            continue
        for i, st in enumerate(blk["stmts"]):
            if st["s"] != "assign":
                continue
            fl = [e for e in st["place"]["proj"] if e["p"] == "field"]
            if fl and any(e["p"] == "deref" for e in st["place"]["proj"]) and fl[0]["owner"].startswith(STREAM):
                nodes.append((("s", bb, i), "store to Stream.%s (line %d)" % (fl[0]["name"], st["span"]["line"])))
    return nodes


def noeffect(ctx):
    res = RuleResult("R-NOEFFECT", "in every API method no state/file mutation (nor a store to a handle field) precedes a refusal point on any path")
    n_fn = 0
    n_ref = 0
    for f in _api_functions(ctx):
        v = view(ctx, f)
        pg = v.pg
        pts = []
        for (c, kind) in refusals(ctx, f):
            if kind in REFUSAL_KINDS:
                pts.append((("t", c.bb), "%s refusal (line %d)" % (kind, c.line), c.term["span"], kind))
        # error exits of effect-free fallible callees (validators, lookups)
        for bb, c in v.calls.items():
            t = c.term
            if t["dest"]["proj"] or not is_io_result_ty(f.locals[t["dest"]["local"]]):
                continue
            eff = ctx.cg.call_effects(c)
            if eff & {"mutates_state", "io_read", "io_write", "io_seek", "io_flush"}:
                continue
            if not c.targets:
                continue
            ks = set()
            for g_ in c.all_targets():
                ks |= err_kinds(ctx)[g_.path]
            if not (ks & set(REFUSAL_KINDS)):
                continue
            for e in v.err_nodes(bb):
                pts.append((e, "refusal propagated from %s (line %d)" % (c.name, c.line), t["span"], "propagated"))
        if not pts:
            continue
        n_fn += 1
        effs = _effect_nodes(ctx, f)
        reach_entry = pg.reach([pg.entry()])
        after = {}
        for (en, desc) in effs:
            if en in reach_entry:
                after[(en, desc)] = pg.reach_after(en)
        for (pn, pdesc, span, kind) in pts:
            n_ref += 1
            bad = [(en, desc) for (en, desc), r in after.items() if pn in r]
            if bad:
                en, desc = bad[0]
                p = pg.path(en, [pn])
                res.fail(Finding("R-NOEFFECT", "R-NOEFFECT/%s/effect-before-refusal/%s" % (f.path, kind),
                                 "%s can be reached after an effect: %s; a refused call would leave the file or handle changed" % (pdesc, desc), f, span,
                                 path=pg.fmt_path(p) if p else None))
            else:
                res.ok({"function": f.path, "refusal": pdesc, "effects_in_function": len(effs)}, nontrivial=bool(effs))
    res.floor("API methods with refusal points", n_fn, ctx.table("floors").get("noeffect_fns", 0))
    res.floor("refusal points", n_ref, ctx.table("floors").get("noeffect_refusals", 0))
    return res


def errkind(pid):
    def run(ctx):
        res = RuleResult("R-ERRKIND(%s)" % pid, "each listed refusal keeps the error kind the property names for its guard context")
        rows = [r for r in ctx.table("errkind").get("rows", []) if pid in r["properties"]]
        matched_rows = 0
        for row in rows:
            f = ctx.fx.fns.get(row["function"])
            if f is None:
                res.gone.append(row["function"] + ":" + row["id"])
                continue
            g = guards(ctx, f)
            found = []
            for (c, kind) in refusals(ctx, f):
                atoms = g.atoms_at(("t", c.bb))
                if all(atoms_match(rx, atoms) for rx in row["require"]) and not any(atoms_match(rx, atoms) for rx in row.get("forbid", [])):
                    found.append((c, kind, atoms))
            if not found:
                res.gone.append(row["function"] + ":" + row["id"])
                continue
            matched_rows += 1
            for (c, kind, atoms) in found:
                if kind == row["kind"]:
                    res.ok({"function": f.path, "row": row["id"], "kind": kind, "guard_atoms": [a[-120:] for a in atoms][:4]}, nontrivial=True)
                else:
                    res.fail(Finding(res.rule, "%s/%s/%s/kind-is-%s" % (res.rule, f.path, row["id"], kind),
                                     "refusal for '%s' has kind %s, the property requires %s" % (row["id"], kind, row["kind"]), f, c.term["span"]))
        res.floor("refusal rows located", matched_rows, ctx.table("floors").get("errkind_" + pid, 0))
        return res
    return run


def deeprefusal(ctx):
    """R-DEEPREFUSAL (C10): NotFound / AlreadyExists are namespace refusals.  When one is raised below the API
    layer (inside internal::*), every function on the way down must not have changed anything before calling
    further down - otherwise the API call is refused after it has already written."""
    res = RuleResult("R-DEEPREFUSAL", "a NotFound / AlreadyExists refusal constructed inside the internal layer is not preceded by an effect in any function on the call chain that reaches it")
    callers = {}
    for f in ctx.fx.fns.values():
        for c in ctx.cg.calls[f.path]:
            if c.kind == "call":
                for g in c.all_targets():
                    callers.setdefault(g.path, []).append((f, c))
    n = 0
    for f in ctx.fx.fns.values():
        if not f.path.startswith("internal::"):
            continue
        for (c, kind) in refusals(ctx, f):
            if kind not in ("NotFound", "AlreadyExists"):
                continue
            n += 1
            # inside f itself
            problems = []
            effs = _effect_nodes(ctx, f)
            pg = view(ctx, f).pg
            for (en, desc) in effs:
                if ("t", c.bb) in pg.reach_after(en):
                    problems.append("%s in %s" % (desc, f.path.split("::")[-1]))
                    break
            # up the call chains
            seen = {f.path}
            work = [f.path]
            while work and not problems:
                cur = work.pop()
                for (cf, cc) in callers.get(cur, []):
                    cpg = view(ctx, cf).pg
                    for (en, desc) in _effect_nodes(ctx, cf):
                        if en != ("t", cc.bb) and ("t", cc.bb) in cpg.reach_after(en):
                            problems.append("%s in %s, before it calls %s (line %d)" % (desc, cf.path.split("::")[-1], cur.split("::")[-1], cc.line))
                            break
                    if problems:
                        break
                    if cf.path not in seen:
                        seen.add(cf.path)
                        work.append(cf.path)
            key = "R-DEEPREFUSAL/%s/%s" % (f.path, kind)
            if problems:
                res.fail(Finding("R-DEEPREFUSAL", key + "/refusal-after-effect-up-the-chain", "%s is raised in %s (line %d), below the API layer, and can be reached after an effect: %s; the API call is then refused with %s although the file has already changed" % (kind, f.path.split("::")[-1], c.line, problems[0], kind), f, c.term["span"]))
            else:
                res.ok({"function": f.path, "kind": kind, "line": c.line, "effects_before": 0}, nontrivial=True)
    res.floor("internal namespace refusals", n, 0)
    res.notes.append("expected count on the reference tree: 0 (NotFound / AlreadyExists are only constructed in the API layer); the kept seeded change C10-5 is the positive example")
    return res
