"""C09: R-VALIDNAME (every creation path validates the new name first),
R-NORM (one path normaliser), R-ORIENT (one comparator, one orientation)."""
import re

from cg import op_local, peel
from core import Finding, RuleResult, view
from dataflow import forward_taint, rv_places
from prov import Prov, guards

VALIDATE = "internal::path::validate_name"
NEWENTRY = "internal::direntry::DirEntry::new"


def _callers(ctx, target_path):
    out = []
    for f in ctx.fx.fns.values():
        for c in ctx.cg.calls[f.path]:
            if c.kind == "call" and any(g.path == target_path for g in c.targets):
                out.append((f, c))
    return out


def _arg_roots(f, l):
    """Parameters (locals 1..arg_count) the local l is computed from (through calls)."""
    roots = set()
    for p in range(1, f.arg_count + 1):
        if l in forward_taint(f, {p}, through_calls=True):
            roots.add(p)
    return roots


def _effects_before(ctx, f, node):
    v = view(ctx, f)
    pg = v.pg
    out = []
    for bb, c in v.calls.items():
        if "mutates_state" in ctx.cg.call_effects(c):
            if node in pg.reach_after(("t", bb)):
                out.append(c)
    return out


def validname(ctx):
    res = RuleResult("R-VALIDNAME", "every creation path validates the new name (validate_name ok-successor) before the entry is built, and no state mutation precedes that validation anywhere on the call chain from the public method")
    tbl = ctx.table("validname")
    validate = tbl.get("validate", VALIDATE)
    newentry = tbl.get("constructor", NEWENTRY)
    n_sites = 0
    reported = set()

    def validated_here(f, site_node, arg_local):
        """validate_name applied to data derived from the same source, ok-successor dominating the site."""
        v = view(ctx, f)
        pg = v.pg
        roots = _arg_roots(f, arg_local)
        src = {arg_local}
        # locals the argument is derived from
        for bb, c in v.calls.items():
            if c.name != validate and not c.name.endswith("::validate_name"):
                continue
            a = op_local(c.term["args"][0]) if c.term["args"] else None
            if a is None:
                continue
            same = False
            pr = Prov(f)
            if pr.local(a) == pr.local(arg_local):
                same = True
            elif roots and (_arg_roots(f, a) & roots):
                same = True
            if not same:
                continue
            oks = v.ok_nodes(bb)
            if not oks:
                continue
            reach = pg.reach([pg.entry()], set(oks))
            if site_node not in reach:
                return c
            # a validation loop over the same collection that completes before the site:
            # the loop header dominates the site, the site lies outside the loop, and a
            # failed validation leaves the function (the `?` err successor)
            from cfg import block_dominators, natural_loops
            dom = block_dominators(f)
            # ... and it walks the WHOLE collection: an iteration narrowed by take/skip/filter/a sub-slice validates
            # only some of the names that are created afterwards
            vp_ = " ".join(Prov(f).operand(a_) for a_ in c.term["args"])
            narrowed = re.search(r"Iterator::(take|skip|step_by|filter|take_while|skip_while|nth)\(|split_at|split_first|split_last|chunks|Index<I>::index\(", vp_)
            for (h, body, _) in natural_loops(f):
                if bb in body and site_node[1] not in body and h in dom.get(site_node[1], ()) and not narrowed:
                    return c
        # the same loop written as an iterator consumer: `names.iter().try_for_each(|n| validate_name(n).map(..))?`
        # - the closure validates its element and hands the error on, the consumer's success dominates the site
        pr = Prov(f)
        for bb, c in v.calls.items():
            if c.name.split("::")[-1] != "try_for_each" or len(c.term["args"]) != 2:
                continue
            recv = pr.operand(c.term["args"][0])
            if re.search(r"Iterator::(take|skip|step_by|filter|take_while|skip_while|nth)\(|split_at|split_first|split_last|chunks|Index<I>::index\(", recv):
                continue
            a = op_local(c.term["args"][0])
            if a is None or not (roots and (_arg_roots(f, a) & roots)):
                continue
            m = re.match(r"^closure:(.*)$", pr.operand(c.term["args"][1]))
            cl = None
            if m:
                for g in ctx.fx.fns.values():
                    if g.kind == "closure" and g.path.endswith(m.group(1)) and (getattr(g, "parent", None) == f.path or g.path.startswith(f.path)):
                        cl = g
            if cl is None:
                continue
            prc = Prov(cl)
            vcalls = [c2 for c2 in view(ctx, cl).calls.values() if c2.name == validate or c2.name.endswith("::validate_name")]
            if not vcalls or not all(re.search(r"param:arg2|param:\w+$", prc.operand(c2.term["args"][0])) for c2 in vcalls):
                continue
            if "validate_name(" not in prc.local(0):
                continue            # the closure does not return what validate_name said
            oks = v.ok_nodes(bb)
            if oks and site_node not in pg.reach([pg.entry()], set(oks)):
                return c
        # any other spelling of a whole-chain validation that R-ALLVALID accepts (index loop over 0..len, find_map ..)
        eff_, full_ = _full_validations(ctx, f)
        if full_ and site_node[0] == "t" and site_node[1] in eff_:
            return full_[0]["call"]
        return None

    def walk(f, call, arg_idx, chain, validated_below, depth):
        nonlocal n_sites
        if depth > 8:
            return
        node = ("t", call.bb)
        a = call.term["args"][arg_idx]
        al = op_local(a)
        pr = Prov(f)
        p = pr.operand(a)
        chain = [(f, call)] + chain
        if al is None or p.startswith("const:") or p.startswith("str:"):
            res.ok({"site": f.path, "name": p, "verdict": "constant name"})
            return
        vcall = validated_here(f, node, al)
        chain_s = " -> ".join("%s@line %d" % (g.path, c.line) for g, c in chain)
        if vcall is not None:
            eb = _effects_before(ctx, f, ("t", vcall.bb))
            if eb:
                key = "R-VALIDNAME/%s/mutation-before-validation" % f.path
                if key not in reported:
                    reported.add(key)
                    res.fail(Finding("R-VALIDNAME", key, "%s runs before the name is validated in %s: an invalid name is refused only after the file changed" % (eb[0].name, f.path), f, vcall.term["span"], path=chain_s))
                return
            validated_below = True
        else:
            eb = _effects_before(ctx, f, node)
            if validated_below and eb:
                key = "R-VALIDNAME/%s/mutation-before-validation" % f.path
                if key not in reported:
                    reported.add(key)
                    res.fail(Finding("R-VALIDNAME", key, "in %s a mutation (%s) can precede the call that leads to the validation of a later name: a compound creation is refused half-way" % (f.path, eb[0].name), f, call.term["span"], path=chain_s))
                return
        roots = _arg_roots(f, al)
        callers = _callers(ctx, f.path) if roots else []
        is_root = not roots
        if is_root or not callers:
            if validated_below:
                res.ok({"chain": chain_s, "verdict": "validated before the entry is built, no mutation earlier on the chain"}, nontrivial=True)
            else:
                key = "R-VALIDNAME/%s/never-validated" % chain[-1][0].path if False else "R-VALIDNAME/%s/never-validated" % f.path
                if key not in reported:
                    reported.add(key)
                    res.fail(Finding("R-VALIDNAME", key, "a new directory entry is built from a caller-supplied name that is never passed through validate_name on this creation path (over-long names and names containing / \\ : ! are accepted)", f, call.term["span"], path=chain_s))
            return
        for (cf, cc) in callers:
            for r in roots:
                ai = r - 1
                # closures / methods: parameter r of f is argument r-1 of the call
                if ai < len(cc.term["args"]):
                    walk(cf, cc, ai, chain, validated_below, depth + 1)

    for f in ctx.fx.fns.values():
        for c in ctx.cg.calls[f.path]:
            if c.kind == "call" and c.name == newentry:
                n_sites += 1
                walk(f, c, tbl.get("name_arg", 0), [], False, 0)
    res.floor("entry constructor call sites", n_sites, ctx.table("floors").get("validname_sites", 0))
    return res


def norm(ctx):
    res = RuleResult("R-NORM", "every API method that takes a path turns it into a name chain with the one normaliser, and lookups/creations/removals only see names from that result")
    tbl = ctx.table("norm")
    normaliser = tbl.get("normaliser", "internal::path::name_chain_from_path")
    ok_uses = tuple(tbl.get("allowed_path_uses", []))
    consumers = tbl.get("name_consumers", {})
    n = 0
    for f in ctx.fx.fns.values():
        s = f.d.get("impl_self", {})
        if s.get("adt") not in tbl.get("api_adts", ["CompoundFile"]):
            continue
        root = f
        # parameters of type &Path
        path_params = [i for i in range(1, f.arg_count + 1) if f.locals[i]["s"] in ("&std::path::Path",)]
        if f.kind == "closure":
            continue
        for pl in path_params:
            n += 1
            tainted = forward_taint(f, {pl})
            bad = []
            normalised = False
            for c in ctx.cg.calls[f.path]:
                if c.kind != "call":
                    continue
                for a in c.term["args"]:
                    l = op_local(a)
                    if l is None or l not in tainted:
                        continue
                    if c.name == normaliser:
                        normalised = True
                    elif any(c.name.endswith(u) or u in c.name for u in ok_uses):
                        pass
                    elif c.targets and all(g.d.get("impl_self", {}).get("adt") == s.get("adt") for g in c.targets):
                        pass  # forwarded to another method of the API type, which normalises itself
                    else:
                        bad.append(c)
            if bad:
                c = bad[0]
                res.fail(Finding("R-NORM", "R-NORM/%s/path-used-outside-normaliser/%s" % (f.path, c.name),
                                 "the path parameter is passed to %s instead of going through %s only: this method could see a spelling the others do not" % (c.name, normaliser.split("::")[-1]), f, c.term["span"]))
            elif not normalised:
                res.unclassified.append({"function": f.path, "note": "path parameter never normalised here (forwarded or unused)"})
                res.ok({"function": f.path, "path_param": "forwarded/unused"})
            else:
                res.ok({"function": f.path, "path_param": "only through " + normaliser.split("::")[-1]}, nontrivial=True)
        # name consumers: argument must derive from the normaliser's result
        norm_results = set()
        for c in ctx.cg.calls[f.path]:
            if c.kind == "call" and c.name == normaliser and not c.term["dest"]["proj"]:
                norm_results.add(c.term["dest"]["local"])
        for c in ctx.cg.calls[f.path]:
            if c.kind != "call":
                continue
            for cons, idx in consumers.items():
                if c.name == cons and idx < len(c.term["args"]):
                    n += 1
                    l = op_local(c.term["args"][idx])
                    derived = forward_taint(f, norm_results, through_calls=True) if norm_results else set()
                    if l is not None and l in derived:
                        res.ok({"function": f.path, "consumer": cons.split("::")[-1], "names_from": "name_chain_from_path result"}, nontrivial=True)
                    else:
                        pr = Prov(f).operand(c.term["args"][idx])
                        if pr.startswith("param:") or "param:" in pr and not norm_results:
                            res.ok({"function": f.path, "consumer": cons.split("::")[-1], "names_from": pr[:80]})
                        else:
                            res.fail(Finding("R-NORM", "R-NORM/%s/names-not-from-normaliser/%s" % (f.path, cons.split("::")[-1]),
                                             "%s receives names (%s) that do not come from %s" % (cons.split("::")[-1], pr[:100], normaliser.split("::")[-1]), f, c.term["span"]))
    res.floor("path parameters and name consumers", n, ctx.table("floors").get("norm_sites", 0))
    return res


LESS, EQUAL, GREATER = 255, 0, 1


def orient(ctx):
    res = RuleResult("R-ORIENT", "every sibling-tree descent uses compare_names(sought, node.name) and goes left on Less, right on Greater; validate accepts only Less for (left,node) and (node,right)")
    tbl = ctx.table("orient")
    cmpf = tbl.get("comparator", "internal::path::compare_names")
    n = 0
    for f in ctx.fx.fns.values():
        v = view(ctx, f)
        pg = v.pg
        pr = None
        for bb, c in v.calls.items():
            if c.name != cmpf:
                continue
            n += 1
            pr = pr or Prov(f)
            a0 = pr.operand(c.term["args"][0])
            a1 = pr.operand(c.term["args"][1])
            dest = c.term["dest"]["local"]
            copies = forward_taint(f, {dest}, through_refs=True)
            # all switches on the discriminant of the ordering (or of a copy of it)
            sws = []
            for b2, blk in enumerate(f.blocks):
                if blk["cleanup"] or blk["term"]["t"] != "switch":
                    continue
                dl = op_local(blk["term"]["discr"])
                for st in blk["stmts"]:
                    if st["s"] == "assign" and st["place"]["local"] == dl and st["rv"]["r"] == "discriminant" and st["rv"]["place"]["local"] in copies:
                        sws.append((b2, blk["term"]))
            sw = sws[0] if sws else None
            key = "R-ORIENT/%s" % f.path
            if sws and ".name" in a1 and ".name" not in a0:
                # a descent: Less -> left_sibling, Greater -> right_sibling (loads in the walk, stores in the link update)
                problems = []
                allreach = pg.reach([pg.entry()])
                for sw in sws:
                    arms = {int(val): tgt for val, tgt in sw[1]["arms"]}
                    for val, want, other in ((LESS, "left_sibling", "right_sibling"), (GREATER, "right_sibling", "left_sibling")):
                        tgt = arms.get(val, sw[1]["otherwise"])
                        es = pg.edge_node(sw[0], tgt)
                        dom = allreach - pg.reach([pg.entry()], avoid=set(es))
                        seen = set()
                        for node in dom:
                            if node[0] == "s":
                                st = f.blocks[node[1]]["stmts"][node[2]]
                                if st["s"] == "assign":
                                    for p_ in rv_places(st["rv"]) + [st["place"]]:
                                        for e in p_["proj"]:
                                            if e["p"] == "field" and e["name"] in ("left_sibling", "right_sibling"):
                                                seen.add(e["name"])
                        if other in seen or want not in seen:
                            problems.append("%s arm (line %d) uses %s" % ("Less" if val == LESS else "Greater", sw[1]["span"]["line"], "/".join(sorted(seen)) or "neither sibling link"))
                if problems:
                    res.fail(Finding("R-ORIENT", key + "/descent-orientation", "tree descent disagrees with the comparator's meaning: " + "; ".join(problems) + " (entries become unfindable for some insertion orders)", f, c.term["span"]))
                else:
                    res.ok({"function": f.path, "compare": "(%s , %s)" % (a0[-40:], a1[-40:]), "switches": len(sws), "Less": "left_sibling", "Greater": "right_sibling"}, nontrivial=True)
            elif ".name" in a0 and ".name" in a1:
                # ordering validation between a node and its sibling
                g = guards(ctx, f)
                left_first = "left_sibling" in a0 and "left_sibling" not in a1
                right_second = "right_sibling" in a1 and "right_sibling" not in a0
                if not (left_first or right_second):
                    res.fail(Finding("R-ORIENT", key + "/validate-argument-order", "sibling order check compares (%s, %s): expected (left.name, node.name) or (node.name, right.name)" % (a0[-50:], a1[-50:]), f, c.term["span"]))
                    continue
                # the rejecting branch must be `result != Less`
                ok = False
                for c2 in ctx.cg.calls[f.path]:
                    if c2.kind == "call" and c2.name.endswith("PartialEq>::ne") or (c2.kind == "call" and c2.name.endswith("::ne")):
                        x0 = pr.operand(c2.term["args"][0])
                        x1 = pr.operand(c2.term["args"][1])
                        if x0 == "path::compare_names(%s,%s)" % (a0, a1) and x1 == "const:Ordering::Less" or (x0.startswith("path::compare_names(") and a0 in x0 and "Less" in x1):
                            ok = True
                if ok:
                    res.ok({"function": f.path, "order_check": "(%s , %s) must be Less" % (a0[-40:], a1[-40:])}, nontrivial=True)
                else:
                    res.fail(Finding("R-ORIENT", key + "/validate-accepts-wrong-order", "the sibling order check no longer rejects exactly `!= Less`", f, c.term["span"]))
            elif sw is None and ".name" in a1:
                res.unclassified.append({"function": f.path, "note": "compare_names result not switched on"})
                res.ok()
            else:
                res.fail(Finding("R-ORIENT", key + "/swapped-arguments", "compare_names is called as (%s, %s): the sought name must come first and the node's name second" % (a0[-50:], a1[-50:]), f, c.term["span"]))
    # no other comparator on entry names in the directory layer
    for f in ctx.fx.fns.values():
        if not any(f.path.startswith(p) for p in tbl.get("descent_modules", ["internal::directory::"])):
            continue
        pr = None
        for c in ctx.cg.calls[f.path]:
            if c.kind != "call" or c.name == cmpf:
                continue
            short = c.name.split("::")[-1]
            if short in ("cmp", "partial_cmp", "lt", "le", "gt", "ge", "eq", "ne", "eq_ignore_ascii_case") and len(c.term["args"]) >= 2:
                pr = pr or Prov(f)
                xs = [pr.operand(a) for a in c.term["args"][:2]]
                if any(x.endswith(".name") for x in xs) and not any("compare_names" in x for x in xs):
                    res.fail(Finding("R-ORIENT", "R-ORIENT/%s/other-comparator/%s" % (f.path, short), "entry names are compared with %s instead of compare_names" % c.name, f, c.term["span"]))
    res.floor("compare_names call sites", n, ctx.table("floors").get("orient_sites", 0))
    return res


def validname_effects_only(ctx):
    """C10 view of R-VALIDNAME: only the 'a mutation precedes the name refusal' findings
    (a name that is never validated is never refused, so C10 is not concerned)."""
    r = validname(ctx)
    r.rule = "R-VALIDNAME(noeffect)"
    r.clause = "an invalid-name refusal is never preceded by a state mutation anywhere on the creation call chain"
    kept = [f for f in r.findings if f.key.endswith("/mutation-before-validation")]
    dropped = len(r.findings) - len(kept)
    r.findings = kept
    r.obligations -= dropped
    for f in kept:
        f.rule = r.rule
        f.key = f.key.replace("R-VALIDNAME/", "R-VALIDNAME(noeffect)/")
    return r


def normbody(pid):
    """R-NORMBODY: the one normaliser gives every spelling of a path the same meaning only if every name it returns
    went through the component parser: the returned vector is the one it built itself, and whatever is pushed on it
    is the payload of a `Component::Normal` the parser yielded (so '.', '..', the root and doubled separators can
    never come out as names)."""
    def run(ctx):
        res = RuleResult("R-NORMBODY(%s)" % pid, "name_chain_from_path returns only the vector it fills from Path::components(): every Ok payload is that vector, every element pushed is a Component::Normal payload")
        f = ctx.fx.fns.get(ctx.table("norm").get("normaliser", "internal::path::name_chain_from_path"))
        if f is None:
            res.gone.append("name_chain_from_path")
            return res
        pr = Prov(f)
        v = view(ctx, f)
        n = 0
        names = {nm: l for l, nm in f.debug_names().items()}
        built = set()
        for l in range(1, len(f.locals)):
            ds = [pr._def(d, 0, ()) for d in pr.defs.get(l, [])]
            if ds and all(re.match(r"^Vec::(new|with_capacity)\(", x) for x in ds):
                built.add(l)
        dn = f.debug_names()
        for bb, blk in enumerate(f.blocks):
            if blk["cleanup"]:
                continue
            for i, st in enumerate(blk["stmts"]):
                if st["s"] == "assign" and st["place"]["local"] == 0 and not st["place"]["proj"] and st["rv"]["r"] == "aggregate" and st["rv"].get("variant") == "Ok":
                    n += 1
                    val = pr._def((bb, i, st), 0, ())
                    m = re.match(r"^Result::Ok\(var:(\w+)\)$", val)
                    g_ = guards(ctx, f)
                    exhausted = any(re.search(r"Path::components\(param:\w+\).* is (None|not Some)$", a_) for a_ in g_.atoms_at(("s", bb, i)))
                    if m and names.get(m.group(1)) in built and not exhausted:
                        res.fail(Finding(res.rule, "R-NORMBODY/%s/ok-before-all-components" % f.path, "name_chain_from_path returns Ok before the component iterator is exhausted: the rest of the path is ignored (a leading '.' then makes every path mean the root)", f, st["span"]))
                    elif m and names.get(m.group(1)) in built:
                        res.ok({"function": f.path, "ok_payload": val[:60], "line": st["span"]["line"]}, nontrivial=True)
                    else:
                        res.fail(Finding(res.rule, "R-NORMBODY/%s/ok-payload-not-the-parsed-vector" % f.path, "name_chain_from_path returns %s, which is not the vector filled from Path::components(): this spelling skips the component parser, so '.', '..' or an empty component can come out as an object name while every other spelling of the same path is normalised" % val[:100], f, st["span"]))
        for bb, c in sorted(v.calls.items()):
            if re.search(r"Vec::<T, A>::(push|insert|extend|extend_from_slice|append)$", c.name) and c.term["args"]:
                a0 = pr.operand(c.term["args"][0])
                m = re.match(r"^var:(\w+)$", a0)
                if not (m and names.get(m.group(1)) in built):
                    continue
                n += 1
                val = pr.operand(c.term["args"][-1])
                if re.search(r"Path::components\(param:\w+\).* as Normal\.0", val):
                    res.ok({"function": f.path, "pushed": val[-70:], "line": c.line}, nontrivial=True)
                else:
                    res.fail(Finding(res.rule, "R-NORMBODY/%s/pushed-name-not-a-normal-component" % f.path, "a name is added to the chain that is not the payload of a Component::Normal yielded by Path::components() (%s)" % val[:100], f, c.term["span"]))
        # a component that is not UTF-8 names nothing: it is refused, never skipped or replaced
        for bb, c in sorted(v.calls.items()):
            if not re.search(r"OsStr::to_str$|Path::to_str$", c.name):
                continue
            n += 1
            g_ = guards(ctx, f)
            none_edges = []
            for b2, blk2 in enumerate(f.blocks):
                t2 = blk2["term"]
                if blk2["cleanup"] or t2["t"] != "switch":
                    continue
                vals = [str(x) for x, _ in t2["arms"]] + ["otherwise"]
                for k2, tgt in enumerate(f.succ(b2)):
                    if any(re.search(r"to_str\(.*\) is None$", a_) for a_ in g_.describe_all(b2, vals[k2], vals)):
                        none_edges += v.pg.edge_node(b2, tgt)
            cont = set()
            if none_edges:
                r_ = v.pg.reach(none_edges)
                for b2, blk2 in enumerate(f.blocks):
                    if ("t", b2) in r_ and b2 in v.calls and re.search(r"Iterator>::next$|Iterator::next$", v.calls[b2].name):
                        cont.add(b2)
                    for i2, st2 in enumerate(blk2["stmts"]):
                        if ("s", b2, i2) in r_ and st2["s"] == "assign" and st2["place"]["local"] == 0 and not st2["place"]["proj"] and st2["rv"]["r"] == "aggregate" and st2["rv"].get("variant") == "Ok":
                            cont.add(b2)
            if not none_edges or cont:
                res.fail(Finding(res.rule, "R-NORMBODY/%s/non-utf8-component-not-refused" % f.path, "a path component that is not UTF-8 (to_str() is None) does not end the normaliser with a refusal: the component is skipped, so the path names its parent and a call that must be refused with InvalidInput acts on another object", f, c.term["span"]))
            else:
                res.ok({"function": f.path, "to_str_line": c.line, "none_outcome": "refusal only"}, nontrivial=True)
        res.floor("Ok payloads and pushes of the normaliser", n, ctx.table("floors").get("normbody_sites", 0))
        return res
    return run


def lookupexit(pid):
    """R-LOOKUPEXIT: the one name lookup (Directory::stream_id_for_name_chain) says 'no such object' only when the
    walk through the sibling tree ran off a NO_STREAM link.  Any other way to None - a depth cap, a step budget, an
    early exit on some property of the entry - makes an existing object unaddressable (the tree is never
    rebalanced, so it can be as deep as the storage has children)."""
    def run(ctx):
        res = RuleResult("R-LOOKUPEXIT(%s)" % pid, "every None returned by Directory::stream_id_for_name_chain is dominated by a comparison that found the walk variable equal to NO_STREAM")
        f = ctx.fx.fns.get("internal::directory::Directory::<F>::stream_id_for_name_chain")
        if f is None:
            res.gone.append("stream_id_for_name_chain")
            return res
        g = guards(ctx, f)
        n = 0
        for bb, blk in enumerate(f.blocks):
            if blk["cleanup"]:
                continue
            for i, st in enumerate(blk["stmts"]):
                if st["s"] == "assign" and st["place"]["local"] == 0 and not st["place"]["proj"] and st["rv"]["r"] == "aggregate" and st["rv"].get("variant") == "None":
                    n += 1
                    atoms = g.atoms_at(("s", bb, i))
                    if any(re.match(r"^\((Eq)\((var:\w+|.*\.(left_sibling|right_sibling|child)),const:(\w+::)*NO_STREAM\)\)$", a) for a in atoms):
                        res.ok({"function": f.path, "line": st["span"]["line"], "none_only_when": [a for a in atoms if "NO_STREAM" in a][:1]}, nontrivial=True)
                    else:
                        res.fail(Finding(res.rule, "R-LOOKUPEXIT/%s/none-without-empty-link" % f.path, "the lookup can answer None although the link it stands on is not NO_STREAM (conditions on the path: %s): an object that exists and is listed cannot be found, opened or removed by name, and creating it again inserts a duplicate" % ("; ".join(a[:60] for a in atoms[:4]) or "none"), f, st["span"]))
        res.floor("None returns of the lookup", n, ctx.table("floors").get("lookupexit_sites", 0))
        return res
    return run


def normuse(pid):
    """R-NORMUSE: what the API layer does with the normaliser.  (a) Its error is the call's error: every call of
    name_chain_from_path is propagated (`?`, returned, or matched with an Err arm that returns Err or a listed
    constant answer) - never defaulted, which would turn an out-of-root path into the root.  (b) The chain it returns is
    only ever shortened by `pop` / `split_last` (parent of the last name): clear, truncate, drain, remove or retain
    on it throw away the storages the path went through."""
    def run(ctx):
        res = RuleResult("R-NORMUSE(%s)" % pid, "every result of name_chain_from_path is propagated or matched (never unwrap_or_default / ok()), and the name chain is only shortened by pop / split_last")
        normaliser = ctx.table("norm").get("normaliser", "internal::path::name_chain_from_path")
        n = 0
        for f in ctx.fx.fns.values():
            v = view(ctx, f)
            pr = None
            for bb, c in sorted(v.calls.items()):
                if c.name == normaliser:
                    n += 1
                    k = v.disp(bb)["kind"]
                    if k in ("try", "returned", "matched"):
                        res.ok({"function": f.path, "line": c.line, "disposition": k}, nontrivial=True)
                    else:
                        res.fail(Finding(res.rule, "R-NORMUSE/%s/error-not-propagated" % f.path, "%s does not hand on the error of name_chain_from_path (disposition: %s%s): a path that leaves the root or has a prefix is treated as some other path (with a default, as the root itself) instead of being refused with InvalidInput" % (f.path.split("::")[-1], k, (" ." + v.disp(bb).get("detail", "")) if v.disp(bb).get("detail") else ""), f, c.term["span"]))
                short = c.name.split("::")[-1]
                if short in ("clear", "truncate", "drain", "remove", "swap_remove", "retain", "split_off", "dedup") and "Vec" in c.name and c.term["args"]:
                    pr = pr or Prov(f)
                    a0 = pr.operand(c.term["args"][0])
                    if "name_chain_from_path(" in a0:
                        n += 1
                        res.fail(Finding(res.rule, "R-NORMUSE/%s/chain-%s" % (f.path, short), "%s applies Vec::%s to the name chain of the path: the storages the path went through are lost, so whatever is derived from the chain afterwards (the parent path of a walk, the parent of a creation) is that of another object" % (f.path.split("::")[-1], short), f, c.term["span"]))
        res.floor("uses of the normaliser", n, ctx.table("floors").get("normuse_sites", 0))
        return res
    return run


def oneorder(pid):
    """R-ONEORDER: there is one ordering of sibling names, compare_names, and every walk of a sibling tree - lookup,
    insertion, removal, validation - branches on ITS result.  A second comparison routine for one of them (a cached
    key, a fast path) has to agree with compare_names on every pair of names, which nothing here can establish; where
    it does not, lookup walks away from an entry that insertion put there."""
    def run(ctx):
        from prov import Prov, guards as _guards, expand_var
        res = RuleResult("R-ONEORDER(%s)" % pid, "every switch on an Ordering in the directory's tree walks tests the result of path::compare_names (or a comparison of integers)")
        n = 0
        for f in ctx.fx.fns.values():
            if not f.path.startswith("internal::directory::"):
                continue
            g = _guards(ctx, f)
            pr = g.prov
            seen = set()
            for bb, blk in enumerate(f.blocks):
                if blk["cleanup"] or blk["term"]["t"] != "switch":
                    continue
                t = blk["term"]
                vals = [str(x) for x, _ in t["arms"]] + ["otherwise"]
                for a in g.describe_all(bb, vals[0], vals):
                    m = re.match(r"^(.*) is (?:not )?(Less|Equal|Greater)$", a)
                    if not m or (f.path, m.group(1)) in seen:
                        continue
                    seen.add((f.path, m.group(1)))
                    n += 1
                    from prov import _split_alts
                    alts = []
                    for x in expand_var(f, m.group(1), pr):
                        alts += _split_alts(x[4:-1]) if x.startswith("phi(") and x.endswith(")") else [x]
                    bad = [x for x in alts if not re.search(r"^(?:\w+::)*path::compare_names\(|^(const:)?(\w+::)*Ordering::(Less|Equal|Greater)(\(\))?$|^[<\w: ]*Ord for [ui](8|16|32|64|128|size)>::(partial_)?cmp\(", x)]
                    # an integer comparison is fine for counts and ids - not for the lengths of the names being ordered
                    # (a byte length is not the UTF-16 length compare_names orders by)
                    bad += [x for x in alts if re.search(r"Ord for [ui](8|16|32|64|128|size)>::(partial_)?cmp\(", x) and re.search(r"\.name\b|(param|var):\w*name\w*", x) and "len" in x]
                    if bad:
                        res.fail(Finding(res.rule, "R-ONEORDER/%s/%s" % (f.path, re.sub(r"\(.*", "", bad[0])[:60]), "%s branches on an ordering computed by %s, not by compare_names: lookup, insertion, removal and validation must all order sibling names the same way" % (f.path.split("::")[-1], bad[0][:100]), f, t["span"]))
                    else:
                        res.ok({"function": f.path, "line": t["span"]["line"], "ordering": m.group(1)[:60]}, nontrivial=True)
        res.floor("ordering switches in the directory", n, ctx.table("floors").get("oneorder_sites", 0))
        return res
    return run


_NARROWING = re.compile(r"\b(skip|take|step_by|filter|skip_while|take_while|nth|split_at|split_first|split_last|chunks|windows)\b|Index<I>::index\(|get\(")


def _full_validations(ctx, f):
    """(effectful call blocks of f, the whole-collection validations of the normalised name chain that precede all of
    them).  Shared by R-ALLVALID and R-VALIDNAME."""
    from cfg import block_dominators, natural_loops
    cache = ctx.__dict__.setdefault("_fullval", {})
    if f.path in cache:
        return cache[f.path]
    if True:
        pr = Prov(f)
        v = view(ctx, f)
        dom = block_dominators(f)
        loops = natural_loops(f)
        effect_bbs = []
        for c in ctx.cg.calls[f.path]:
            if "mutates_state" in ctx.cg.call_effects(c):
                effect_bbs.append(c.bb)
        propagated = [pr.operand(cl.term["args"][0]) for bb, cl in v.calls.items() if cl.name.endswith("::branch") and cl.term["args"]]
        full = []

        def whole(s):
            """s describes an element stream over the whole chain."""
            if "name_chain_from_path(" not in s:
                return False
            m = re.search(r"Range::Range\((.*)\)", s)
            if m or "RangeInclusive" in s:
                return bool(re.search(r"Index(<I>)?::index\(ok\(path::name_chain_from_path\([^()]*\)\),(ok|some)\(Range<A>>::next\((IntoIterator::into_iter\()?Range::Range\(const:0,len\(ok\(path::name_chain_from_path\([^()]*\)\)\)\)\)?\)\)\)$", s))
            return ("<impl [T]>::iter(" in s or "IntoIterator::into_iter(" in s) and not _NARROWING.search(s)

        for bb, cl in sorted(v.calls.items()):
            args = cl.term["args"]
            if cl.name == VALIDATE and args:
                a = pr.operand(args[0])
                if not (re.match(r"^(ok|some)\(.*Iterator::next\(|^(deref\()?Index", a) and whole(a)):
                    continue
                if not any("validate_name(" in p for p in propagated):
                    continue
                # the loop this validation sits in: its header dominates every effect, which lies outside the body,
                # and every way back to the header passes the validation
                mine = [(h, body, back) for (h, body, back) in loops if bb in body]
                if not mine:
                    continue
                h, body, back = min(mine, key=lambda x: len(x[1]))
                if all((h in dom.get(e, ())) and e not in body for e in effect_bbs) and all(bb in dom.get(t, ()) for (t, _h) in back):
                    full.append({"call": cl, "validation_line": cl.line, "form": "loop over the whole chain", "item": a[:70]})
            elif cl.closures and args:
                recv = pr.operand(args[0])
                if not whole(recv) or "Range" in recv:
                    continue
                for g in cl.closures:
                    gv = view(ctx, g)
                    gp = Prov(g)
                    for gbb, gcl in gv.calls.items():
                        if gcl.name == VALIDATE and gcl.term["args"] and re.match(r"^(deref\()*param:\w+\)*$", gp.operand(gcl.term["args"][0])):
                            short = cl.name.split("::")[-1]
                            if not all(bb in dom.get(e, ()) and e != bb for e in effect_bbs):
                                continue
                            if short in ("try_for_each", "try_fold") and any(short + "(" in p for p in propagated) or short == "all":
                                full.append({"call": cl, "validation_line": gcl.line, "form": "closure over the whole chain via " + short, "receiver": recv[:70]})
                            elif short in ("find_map", "map", "filter_map", "any", "find", "position"):
                                # `if let Some(e) = names.iter().find_map(|n| validate_name(n).err()) { return Err(e) }`,
                                # `.map(validate_name).collect::<io::Result<Vec<_>>>()?`: what the adaptor yields must
                                # be able to end the function with an error before anything changes the file
                                errs = set(v.all_err_nodes())
                                for b3, blk3 in enumerate(f.blocks):
                                    for i3, st3 in enumerate(blk3["stmts"]):
                                        if st3["s"] == "assign" and st3["place"]["local"] == 0 and not st3["place"]["proj"] and st3["rv"]["r"] == "aggregate" and st3["rv"].get("variant") == "Err":
                                            errs.add(("s", b3, i3))
                                before = v.pg.reach_after(("t", bb), avoid={("t", e) for e in effect_bbs})
                                if errs & before:
                                    full.append({"call": cl, "validation_line": gcl.line, "form": "closure over the whole chain via %s, refusal taken before any effect" % short, "receiver": recv[:70]})
    cache[f.path] = (effect_bbs, full)
    return cache[f.path]


def allvalid(pid):
    """R-ALLVALID: the compound creation `create_storage_all` refuses a path with an invalid component before it creates
    anything only if *every* component of the normalised chain went through validate_name before the first storage is
    created: a whole-collection iteration of the chain (a `for` over `names.iter()`, or `iter().try_for_each / all`
    with a closure) whose every round validates its item and whose refusal is propagated, ahead of every effectful
    call.  An index range counts only in the plain form `0..names.len()` with `names[i]`."""
    def run(ctx):
        from cfg import block_dominators, natural_loops
        res = RuleResult("R-ALLVALID(%s)" % pid, "create_storage_all validates every component of the path (a whole-collection iteration of the name chain, refusal propagated) before the first call that can change the file")
        f = ctx.fx.fns.get("CompoundFile::<F>::create_storage_all_with_path")
        if f is None:
            res.gone.append("CompoundFile::<F>::create_storage_all_with_path")
            return res
        effect_bbs, full = _full_validations(ctx, f)
        full = [{k_: v_ for k_, v_ in x.items() if k_ != "call"} for x in full]
        n_eff = len(effect_bbs)
        if n_eff == 0:
            res.ok({"function": f.path, "effects": 0})
        elif full:
            res.ok({"function": f.path, "effectful_calls": n_eff, "validated_by": full[0]}, nontrivial=True)
        else:
            sp = f.blocks[effect_bbs[0]]["term"]["span"]
            res.fail(Finding(res.rule, "R-ALLVALID/%s/not-every-component-validated-first" % f.path, "no whole-collection validation of the path's components precedes the first effectful call (line %d): a path whose parents are missing and whose later component is invalid is refused with InvalidInput after some parents were created" % sp["line"], f, sp))
        res.floor("effectful calls in create_storage_all", n_eff, ctx.table("floors").get("allvalid_effects", 0))
        return res
    return run
