"""A8 small interval evaluation on MIR operands: upper bounds of unsigned
quantities, used only to discharge arithmetic sinks."""
import re

from dataflow import assigned_locals
from facts import callee_name

U64 = 1 << 64
MEM = 1 << 48

TY_LIMIT = {"u8": 1 << 8, "u16": 1 << 16, "u32": 1 << 32, "u64": U64, "usize": U64, "bool": 2, "char": 1 << 21}
TRANSPARENT = ("branch", "deref", "deref_mut", "unwrap", "expect", "clone", "copied", "cloned", "into", "from", "as_ref", "borrow", "unwrap_or")


class MirBounds:
    def __init__(self, ctx, fn):
        self.ctx = ctx
        self.fn = fn
        self.defs = assigned_locals(fn)
        tbl = ctx.table("sinks")
        self.call_bounds = [(re.compile(k), int(v)) for k, v in tbl.get("call_bounds", {}).items()]
        self.field_bounds = tbl.get("field_bounds", {})
        self.param_bounds = tbl.get("param_bounds", {})

    def ty_limit(self, tystr):
        return TY_LIMIT.get(tystr)

    def operand(self, o, depth=0):
        if o["k"] == "const":
            if "val" in o:
                return abs(int(o["val"]))
            if "valstr" in o:
                return int(o["valstr"])
            return None
        if o["k"] not in ("copy", "move"):
            return None
        return self.place(o["place"], depth)

    def place(self, p, depth=0):
        lim = self.ty_limit(p.get("ty", ""))
        if not p["proj"]:
            b = self.local(p["local"], depth)
        else:
            b = None
            last_field = [e for e in p["proj"] if e["p"] == "field"]
            if last_field:
                e = last_field[-1]
                owner = e.get("owner", "")
                if owner == "tuple" and e["name"] == "0" and len([x for x in p["proj"] if x["p"] == "field"]) == 1 and not any(x["p"] == "deref" for x in p["proj"]):
                    # value half of a checked arithmetic result, or a tuple element
                    b = self.local(p["local"], depth, tuple_field=0)
                else:
                    key = "%s.%s" % (owner.split("::")[-1], e["name"])
                    if key in self.field_bounds:
                        b = int(self.field_bounds[key])
                    elif any(x["p"] == "downcast" for x in p["proj"]):
                        # payload of Option/Result/ControlFlow: bound of what was wrapped
                        b = self.local(p["local"], depth)
        if b is None:
            return lim
        if lim is not None:
            return min(b, lim)
        return b

    def local(self, l, depth=0, tuple_field=None):
        if depth > 12:
            return None
        fn = self.fn
        lim = self.ty_limit(fn.locals[l]["s"])
        defs = self.defs.get(l, [])
        if not defs:
            if 1 <= l <= fn.arg_count:
                nm = fn.debug_names().get(l, "")
                key = "%s|%s" % (fn.path, nm)
                if key in self.param_bounds:
                    return int(self.param_bounds[key])
            return lim
        bs = []
        for d in defs:
            b = self._def(d, depth + 1)
            if b is None:
                return lim
            bs.append(b)
        b = max(bs)
        return min(b, lim) if lim is not None else b

    def _def(self, d, depth):
        bb, idx, x = d
        if idx == "t":
            t = x
            nm = callee_name(t) or ""
            short = nm.split("::")[-1]
            for rx, v in self.call_bounds:
                if rx.search(nm):
                    return v
            args = t["args"]
            if short in ("min",) and len(args) >= 2:
                xs = [self.operand(a, depth) for a in args[:2]]
                xs = [v for v in xs if v is not None]
                return min(xs) if xs else None
            if short in ("max",) and len(args) >= 2:
                xs = [self.operand(a, depth) for a in args[:2]]
                return None if any(v is None for v in xs) else max(xs)
            if short in TRANSPARENT and args:
                return self.operand(args[0], depth)
            if short in ("saturating_sub", "checked_sub", "wrapping_sub") and args:
                return self.operand(args[0], depth)
            if short == "div_ceil" and args:
                return self.operand(args[0], depth)
            return None
        rv = x["rv"]
        k = rv["r"]
        if k == "use":
            return self.operand(rv["op"], depth)
        if k == "cast":
            b = self.operand(rv["op"], depth)
            lim = self.ty_limit(rv["ty"])
            if b is None:
                return lim
            return min(b, lim) if lim else b
        if k == "binop":
            op = rv["op"].replace("WithOverflow", "")
            a, b = self.operand(rv["a"], depth), self.operand(rv["b"], depth)
            if op == "Add":
                return None if a is None or b is None else a + b
            if op == "Mul":
                return None if a is None or b is None else a * b
            if op in ("Sub", "Div", "Shr"):
                return a
            if op == "Rem":
                if b is not None and b > 0:
                    return min(a, b - 1) if a is not None else b - 1
                return a
            if op == "BitAnd":
                xs = [v for v in (a, b) if v is not None]
                return min(xs) if xs else None
            if op == "Shl":
                if a is not None and b is not None and b < 64:
                    return a << b
                return None
            if op in ("Eq", "Ne", "Lt", "Le", "Gt", "Ge"):
                return 1
            return None
        if k == "aggregate":
            return None
        return None
