"""Loading of the MIR facts dumped by cfbsa-driver, plus pretty printing."""
import json


def fmt_place(p):
    s = "_%d" % p["local"]
    for e in p["proj"]:
        k = e["p"]
        if k == "deref":
            s = "(*%s)" % s
        elif k == "field":
            s = "%s.%s" % (s, e["name"])
        elif k == "index":
            s = "%s[_%d]" % (s, e["local"])
        elif k == "constindex":
            s = "%s[%s%d]" % (s, "-" if e["from_end"] else "", e["offset"])
        elif k == "subslice":
            s = "%s[%d..%s%d]" % (s, e["from"], "-" if e["from_end"] else "", e["to"])
        elif k == "downcast":
            s = "(%s as %s)" % (s, e["variant"])
        else:
            s = "%s.?" % s
    return s


def fmt_op(o):
    k = o["k"]
    if k in ("copy", "move"):
        return ("move " if k == "move" else "") + fmt_place(o["place"])
    if k == "const":
        if "fndef" in o:
            return "fn:" + o["fndef"]
        if "val" in o:
            n = o.get("named")
            return "const %s%s" % (o["val"], ("(%s)" % n) if n else "")
        if "valstr" in o:
            return "const " + o["valstr"]
        if "str" in o:
            return "const %r" % o["str"]
        if "variant" in o:
            return "const %s::%s" % (o["enum"], o["variant"])
        return "const{%s}" % o.get("repr", "?")
    return k


def fmt_rv(r):
    k = r["r"]
    if k == "use":
        return fmt_op(r["op"])
    if k == "ref":
        return ("&mut " if r["mut"] else "&") + fmt_place(r["place"])
    if k == "rawptr":
        return "&raw " + fmt_place(r["place"])
    if k == "cast":
        return "%s as %s (%s)" % (fmt_op(r["op"]), r["ty"], r["kind"])
    if k == "binop":
        return "%s(%s, %s)" % (r["op"], fmt_op(r["a"]), fmt_op(r["b"]))
    if k == "unop":
        return "%s(%s)" % (r["op"], fmt_op(r["a"]))
    if k == "discriminant":
        return "discriminant(%s)" % fmt_place(r["place"])
    if k == "aggregate":
        a = r["agg"]
        ops = ", ".join(fmt_op(x) for x in r["ops"])
        if a == "adt":
            return "%s::%s{%s}" % (r["adt"], r["variant"], ops)
        if a == "closure":
            return "closure %s[%s]" % (r["closure"], ops)
        return "%s(%s)" % (a, ops)
    if k == "repeat":
        return "[%s; %s]" % (fmt_op(r["op"]), r["count"])
    return "other{%s}" % r.get("repr", "")


def callee_name(t):
    """Best name for the function a call terminator invokes."""
    if t.get("callee_kind") != "direct":
        return None
    r = t.get("resolved")
    return r if r else t.get("callee")


def fmt_term(t):
    k = t["t"]
    if k == "goto":
        return "goto bb%d" % t["target"]
    if k == "switch":
        arms = ", ".join("%s: bb%d" % (v, b) for v, b in t["arms"])
        return "switch(%s) [%s, otherwise: bb%d]" % (fmt_op(t["discr"]), arms, t["otherwise"])
    if k == "call":
        tgt = ("bb%d" % t["target"]) if t["target"] is not None else "!"
        name = callee_name(t) or ("indirect " + fmt_op(t.get("func", {"k": "?"})))
        extra = ""
        if t.get("resolved") is None and t.get("callee_kind") == "direct":
            extra = " [unresolved self=%s]" % (t.get("callee_self", {}).get("s"))
        return "%s = %s(%s)%s -> %s" % (fmt_place(t["dest"]), name, ", ".join(fmt_op(a) for a in t["args"]), extra, tgt)
    if k == "drop":
        return "drop(%s) -> bb%d" % (fmt_place(t["place"]), t["target"])
    if k == "assert":
        return "assert(%s == %s, %s(%s)) -> bb%d" % (fmt_op(t["cond"]), t["expected"], t["kind"], ", ".join(fmt_op(a) for a in t["ops"]), t["target"])
    return k


class Fn:
    def __init__(self, d):
        self.d = d
        self.path = d["path"]
        self.kind = d["kind"]
        self.blocks = d["blocks"]
        self.locals = d["locals"]
        self.arg_count = d["arg_count"]
        self.span = d["span"]
        self.parent = d.get("parent")
        self._succ = None
        self._pred = None

    @property
    def file(self):
        return self.span["file"]

    def loc(self, span=None):
        sp = span or self.span
        return "%s:%d" % (sp["file"], sp["line"])

    def debug_names(self):
        m = {}
        for v in self.d["debug"]:
            p = v["place"]
            if not p["proj"]:
                m.setdefault(p["local"], v["name"])
        return m

    def succ(self, bb, unwind=False):
        t = self.blocks[bb]["term"]
        k = t["t"]
        out = []
        if k == "goto":
            out = [t["target"]]
        elif k == "switch":
            out = [b for _, b in t["arms"]] + [t["otherwise"]]
        elif k in ("call", "drop", "assert"):
            if t.get("target") is not None:
                out = [t["target"]]
            if unwind and t.get("unwind") is not None:
                out.append(t["unwind"])
        return out

    def succs(self):
        if self._succ is None:
            self._succ = [self.succ(i) for i in range(len(self.blocks))]
        return self._succ

    def preds(self):
        if self._pred is None:
            p = [[] for _ in self.blocks]
            for i, ss in enumerate(self.succs()):
                for s in ss:
                    if i not in p[s]:
                        p[s].append(i)
            self._pred = p
        return self._pred

    def dump(self):
        names = self.debug_names()
        out = ["fn %s  [%s] %s" % (self.path, self.kind, self.loc())]
        for i, l in enumerate(self.locals):
            out.append("  let _%d: %s%s" % (i, l["s"], ("  // " + names[i]) if i in names else ""))
        for v in self.d["debug"]:
            if v["place"]["proj"]:
                out.append("  debug %s => %s" % (v["name"], fmt_place(v["place"])))
        for i, b in enumerate(self.blocks):
            out.append("  bb%d%s:" % (i, " (cleanup)" if b["cleanup"] else ""))
            for st in b["stmts"]:
                if st["s"] == "assign":
                    m = st["span"]["macros"]
                    out.append("    %s = %s    // L%d%s" % (fmt_place(st["place"]), fmt_rv(st["rv"]), st["span"]["line"], (" " + "!".join(m)) if m else ""))
                elif st["s"] == "setdiscr":
                    out.append("    discriminant(%s) = %d" % (fmt_place(st["place"]), st["vidx"]))
                else:
                    out.append("    " + st.get("repr", st["s"]))
            t = b["term"]
            m = t["span"]["macros"]
            out.append("    %s    // L%d%s" % (fmt_term(t), t["span"]["line"], (" " + "!".join(m)) if m else ""))
        return "\n".join(out)


def _sig_text(sg):
    return "(%s) -> %s" % (", ".join(i.get("s", "?") for i in sg.get("inputs", [])), sg.get("output", {}).get("s", "?"))


def alias_renamed(d, known_functions, known_sigs):
    """A function of the reference tree that is gone, and exactly one new function with the same signature beside it
    (same module / impl), or with the same name somewhere else: the function was renamed or moved.  The rule tables
    name functions by path; the new function is given the old path (in its body, its closures, its signature entry
    and at every call site) so that a rename does not look like `the anchor is gone` plus `an unknown helper`.
    Returns {new path: old path}."""
    bodies = {b["path"]: b for b in d["bodies"]}
    sigs = {s_["path"]: s_ for s_ in d["sigs"]}
    missing = [p for p in known_functions if p not in bodies and "{closure" not in p and p in known_sigs]
    new = [p for p, b in bodies.items() if b["kind"] in ("fn", "assocfn") and p not in known_functions and not b.get("impl_trait") and p in sigs]
    if not missing or not new:
        return {}
    parent = lambda p: p.rsplit("::", 1)[0] if "::" in p else ""
    last = lambda p: p.rsplit("::", 1)[-1]
    ren, taken = {}, set()
    for f in sorted(missing):
        same_sig = [g for g in new if g not in taken and _sig_text(sigs[g]) == known_sigs[f]]
        cands = [g for g in same_sig if parent(g) == parent(f)] or [g for g in same_sig if last(g) == last(f)]
        if len(cands) == 1:
            ren[cands[0]] = f
            taken.add(cands[0])
    if not ren:
        return {}

    def fix_path(p):
        if p in ren:
            return ren[p]
        for g, f in ren.items():
            if p.startswith(g + "::{closure"):
                return f + p[len(g):]
        return p
    for b in d["bodies"]:
        old_path = b["path"]
        b["path"] = fix_path(old_path)
        if old_path in ren:
            b["name"] = last(ren[old_path])
        if b.get("parent"):
            b["parent"] = fix_path(b["parent"])
        for blk in b["blocks"]:
            t = blk["term"]
            if t["t"] in ("call", "tailcall"):
                for k in ("callee", "resolved"):
                    if t.get(k) in ren:
                        t[k] = ren[t[k]]
                        if k == "callee":
                            t["callee_name"] = last(t[k])
            for st in blk["stmts"]:
                if st.get("s") == "assign" and st["rv"].get("r") == "aggregate" and st["rv"].get("closure"):
                    st["rv"]["closure"] = fix_path(st["rv"]["closure"])
    for s_ in d["sigs"]:
        s_["path"] = fix_path(s_["path"])
    return ren


class Facts:
    def __init__(self, path, known_functions=None, known_sigs=None):
        with open(path) as f:
            self.d = json.load(f)
        self.crate = self.d["crate"]
        self.inlined = []
        self.renamed = alias_renamed(self.d, set(known_functions), known_sigs) if known_functions and known_sigs else {}
        bodies = {b["path"]: b for b in self.d["bodies"]}
        if known_functions:
            import inline
            self.inlined, self.removed = inline.inline_new_helpers(bodies, set(known_functions))
        self.fns = {}
        for p_, b in bodies.items():
            self.fns[p_] = Fn(b)
        # a closure written inside a helper that was inlined away is now built inside the helper's caller: that is
        # where its captured variables have to be looked up
        if getattr(self, "removed", None):
            into = {}
            for (caller_, helper_) in self.inlined:
                into.setdefault(helper_, caller_)
            for fn_ in self.fns.values():
                par_ = getattr(fn_, "parent", None)
                hops_ = 0
                while fn_.kind == "closure" and par_ and par_ not in self.fns and par_ in into and hops_ < 8:
                    par_ = into[par_]
                    hops_ += 1
                if par_ != getattr(fn_, "parent", None):
                    fn_.parent = par_
        self.adts = {a["path"]: a for a in self.d["adts"]}
        self.sigs = {s["path"]: s for s in self.d["sigs"]}
        self.consts = {c["path"]: int(c["val"]) for c in self.d["consts"]}

    def find(self, suffix):
        """Functions whose path ends with the given suffix (generic params
        in paths make exact spelling awkward)."""
        return [f for p, f in self.fns.items() if p.endswith(suffix)]

    def one(self, suffix):
        r = self.find(suffix)
        if len(r) != 1:
            raise KeyError("expected exactly one function matching %r, found %d" % (suffix, len(r)))
        return r[0]


if __name__ == "__main__":
    import sys
    fx = Facts(sys.argv[1])
    for pat in sys.argv[2:]:
        for p, f in fx.fns.items():
            if pat in p:
                print(f.dump())
                print()
