"""Loading of the MIR facts dumped by cfbsa-driver, plus pretty printing."""
import json
import re


def fmt_place(p):
    s = "_%d" % p["local"]
    for e in p["proj"]:
        k = e["p"]
        if k == "deref":
            s = "(*%s)" % s
        elif k == "field":
            s = "%s.%s" % (s, e["name"])
        elif k == "index":
            s = "%s[_%d]" % (s, e["local"])
        elif k == "constindex":
            s = "%s[%s%d]" % (s, "-" if e["from_end"] else "", e["offset"])
        elif k == "subslice":
            s = "%s[%d..%s%d]" % (s, e["from"], "-" if e["from_end"] else "", e["to"])
        elif k == "downcast":
            s = "(%s as %s)" % (s, e["variant"])
        else:
            s = "%s.?" % s
    return s


def fmt_op(o):
    k = o["k"]
    if k in ("copy", "move"):
        return ("move " if k == "move" else "") + fmt_place(o["place"])
    if k == "const":
        if "fndef" in o:
            return "fn:" + o["fndef"]
        if "val" in o:
            n = o.get("named")
            return "const %s%s" % (o["val"], ("(%s)" % n) if n else "")
        if "valstr" in o:
            return "const " + o["valstr"]
        if "str" in o:
            return "const %r" % o["str"]
        if "variant" in o:
            return "const %s::%s" % (o["enum"], o["variant"])
        return "const{%s}" % o.get("repr", "?")
    return k


def fmt_rv(r):
    k = r["r"]
    if k == "use":
        return fmt_op(r["op"])
    if k == "ref":
        return ("&mut " if r["mut"] else "&") + fmt_place(r["place"])
    if k == "rawptr":
        return "&raw " + fmt_place(r["place"])
    if k == "cast":
        return "%s as %s (%s)" % (fmt_op(r["op"]), r["ty"], r["kind"])
    if k == "binop":
        return "%s(%s, %s)" % (r["op"], fmt_op(r["a"]), fmt_op(r["b"]))
    if k == "unop":
        return "%s(%s)" % (r["op"], fmt_op(r["a"]))
    if k == "discriminant":
        return "discriminant(%s)" % fmt_place(r["place"])
    if k == "aggregate":
        a = r["agg"]
        ops = ", ".join(fmt_op(x) for x in r["ops"])
        if a == "adt":
            return "%s::%s{%s}" % (r["adt"], r["variant"], ops)
        if a == "closure":
            return "closure %s[%s]" % (r["closure"], ops)
        return "%s(%s)" % (a, ops)
    if k == "repeat":
        return "[%s; %s]" % (fmt_op(r["op"]), r["count"])
    return "other{%s}" % r.get("repr", "")


def callee_name(t):
    """Best name for the function a call terminator invokes."""
    if t.get("callee_kind") != "direct":
        return None
    r = t.get("resolved")
    return r if r else t.get("callee")


def fmt_term(t):
    k = t["t"]
    if k == "goto":
        return "goto bb%d" % t["target"]
    if k == "switch":
        arms = ", ".join("%s: bb%d" % (v, b) for v, b in t["arms"])
        return "switch(%s) [%s, otherwise: bb%d]" % (fmt_op(t["discr"]), arms, t["otherwise"])
    if k == "call":
        tgt = ("bb%d" % t["target"]) if t["target"] is not None else "!"
        name = callee_name(t) or ("indirect " + fmt_op(t.get("func", {"k": "?"})))
        extra = ""
        if t.get("resolved") is None and t.get("callee_kind") == "direct":
            extra = " [unresolved self=%s]" % (t.get("callee_self", {}).get("s"))
        return "%s = %s(%s)%s -> %s" % (fmt_place(t["dest"]), name, ", ".join(fmt_op(a) for a in t["args"]), extra, tgt)
    if k == "drop":
        return "drop(%s) -> bb%d" % (fmt_place(t["place"]), t["target"])
    if k == "assert":
        return "assert(%s == %s, %s(%s)) -> bb%d" % (fmt_op(t["cond"]), t["expected"], t["kind"], ", ".join(fmt_op(a) for a in t["ops"]), t["target"])
    return k


class Fn:
    def __init__(self, d):
        self.d = d
        self.path = d["path"]
        self.kind = d["kind"]
        self.blocks = d["blocks"]
        self.locals = d["locals"]
        self.arg_count = d["arg_count"]
        self.span = d["span"]
        self.parent = d.get("parent")
        self._succ = None
        self._pred = None

    @property
    def file(self):
        return self.span["file"]

    def loc(self, span=None):
        sp = span or self.span
        return "%s:%d" % (sp["file"], sp["line"])

    def inlined_locals(self):
        """Locals that are variables of an inlined helper (fresh at every call of it)."""
        return {v["place"]["local"] for v in self.d["debug"] if v.get("inlined") and not v["place"]["proj"]}

    def debug_names(self):
        m = {}
        for v in self.d["debug"]:
            p = v["place"]
            if not p["proj"]:
                m.setdefault(p["local"], v["name"])
        return m

    def succ(self, bb, unwind=False):
        t = self.blocks[bb]["term"]
        k = t["t"]
        out = []
        if k == "goto":
            out = [t["target"]]
        elif k == "switch":
            out = [b for _, b in t["arms"]] + [t["otherwise"]]
        elif k in ("call", "drop", "assert"):
            if t.get("target") is not None:
                out = [t["target"]]
            if unwind and t.get("unwind") is not None:
                out.append(t["unwind"])
        return out

    def succs(self):
        if self._succ is None:
            self._succ = [self.succ(i) for i in range(len(self.blocks))]
        return self._succ

    def preds(self):
        if self._pred is None:
            p = [[] for _ in self.blocks]
            for i, ss in enumerate(self.succs()):
                for s in ss:
                    if i not in p[s]:
                        p[s].append(i)
            self._pred = p
        return self._pred

    def dump(self):
        names = self.debug_names()
        out = ["fn %s  [%s] %s" % (self.path, self.kind, self.loc())]
        for i, l in enumerate(self.locals):
            out.append("  let _%d: %s%s" % (i, l["s"], ("  // " + names[i]) if i in names else ""))
        for v in self.d["debug"]:
            if v["place"]["proj"]:
                out.append("  debug %s => %s" % (v["name"], fmt_place(v["place"])))
        for i, b in enumerate(self.blocks):
            out.append("  bb%d%s:" % (i, " (cleanup)" if b["cleanup"] else ""))
            for st in b["stmts"]:
                if st["s"] == "assign":
                    m = st["span"]["macros"]
                    out.append("    %s = %s    // L%d%s" % (fmt_place(st["place"]), fmt_rv(st["rv"]), st["span"]["line"], (" " + "!".join(m)) if m else ""))
                elif st["s"] == "setdiscr":
                    out.append("    discriminant(%s) = %d" % (fmt_place(st["place"]), st["vidx"]))
                else:
                    out.append("    " + st.get("repr", st["s"]))
            t = b["term"]
            m = t["span"]["macros"]
            out.append("    %s    // L%d%s" % (fmt_term(t), t["span"]["line"], (" " + "!".join(m)) if m else ""))
        return "\n".join(out)


def _sig_text(sg):
    return "(%s) -> %s" % (", ".join(i.get("s", "?") for i in sg.get("inputs", [])), sg.get("output", {}).get("s", "?"))


def body_fingerprint(b):
    """What a body calls (last path segment, with multiplicity) - enough to tell two same-signature siblings apart."""
    names = {}
    for blk in b["blocks"]:
        if blk.get("cleanup"):
            continue
        t = blk["term"]
        if t["t"] in ("call", "tailcall"):
            nm = (t.get("callee_name") or (t.get("callee") or "?").rsplit("::", 1)[-1])
            names[nm] = names.get(nm, 0) + 1
    return sorted("%s#%d" % (k, i) for k, v in names.items() for i in range(v))


def _similar(a, b):
    a, b = set(a), set(b)
    return len(a & b) / float(len(a | b) or 1)


def alias_renamed(d, known_functions, known_sigs, known_prints=None):
    """A function of the reference tree that is gone, and exactly one new function with the same signature beside it
    (same module / impl), or with the same name somewhere else: the function was renamed or moved.  The rule tables
    name functions by path; the new function is given the old path (in its body, its closures, its signature entry
    and at every call site) so that a rename does not look like `the anchor is gone` plus `an unknown helper`.
    Returns {new path: old path}."""
    bodies = {b["path"]: b for b in d["bodies"]}
    sigs = {s_["path"]: s_ for s_ in d["sigs"]}
    missing = [p for p in known_functions if p not in bodies and "{closure" not in p and p in known_sigs]
    new = [p for p, b in bodies.items() if b["kind"] in ("fn", "assocfn") and p not in known_functions and not b.get("impl_trait") and p in sigs]
    if not missing or not new:
        return {}
    parent = lambda p: p.rsplit("::", 1)[0] if "::" in p else ""
    last = lambda p: p.rsplit("::", 1)[-1]
    ren, taken = {}, set()
    pairs = []
    perm_of = {}

    def _permuted(g, f):
        """The parameter permutation (new position -> old position) when g's signature is f's with the parameters
        in another order - all parameter types distinct, so that the order is recoverable - else None."""
        m_ = re.match(r"^\((.*)\) -> (.*)$", known_sigs[f])
        if not m_:
            return None
        old_in = _split_sig(m_.group(1))
        new_in = [i.get("s", "?") for i in sigs[g].get("inputs", [])]
        if sigs[g].get("output", {}).get("s", "?") != m_.group(2) or len(old_in) != len(new_in) or old_in == new_in:
            return None
        if sorted(old_in) != sorted(new_in) or len(set(old_in)) != len(old_in):
            return None
        return [old_in.index(t_) for t_ in new_in]
    for f in sorted(missing):
        same_sig = [g for g in new if _sig_text(sigs[g]) == known_sigs[f]]
        if not same_sig:
            # the receiver's mutability relaxed or tightened (`&mut self` that only reads became `&self`)
            relax = lambda t_: re.sub(r"^\(&mut ", "(&", t_)
            same_sig = [g for g in new if relax(_sig_text(sigs[g])) == relax(known_sigs[f]) and _sig_text(sigs[g]) != known_sigs[f]]
        if not same_sig:
            for g in new:
                pm_ = _permuted(g, f)
                if pm_ is not None and (parent(g) == parent(f) or (known_prints and f in known_prints and _similar(body_fingerprint(bodies[g]), known_prints[f]) >= 0.8)):
                    same_sig.append(g)
                    perm_of[(g, f)] = pm_
        cands = [g for g in same_sig if parent(g) == parent(f)] or [g for g in same_sig if last(g) == last(f)]
        if not cands and known_prints and f in known_prints:
            # moved to another module AND renamed: the same signature and (nearly) the same calls in the body
            cands = [g for g in same_sig if _similar(body_fingerprint(bodies[g]), known_prints[f]) >= 0.8]
        for g in cands:
            sim = _similar(body_fingerprint(bodies[g]), (known_prints or {}).get(f, [])) if known_prints and f in known_prints else 0.0
            pairs.append((sim, f, g, len(cands)))
    # unambiguous candidates first, then the most similar bodies (several siblings with one signature renamed at once)
    done = set()
    for (sim, f, g, nc) in sorted(pairs, key=lambda x: (-(x[3] == 1), -x[0])):
        if f in done or g in taken:
            continue
        if nc > 1:
            rivals = [x[0] for x in pairs if (x[1] == f) != (x[2] == g) and x[1] not in done and x[2] not in taken]
            if sim < 0.3 or any(r_ >= sim - 0.05 for r_ in rivals if r_ > 0):
                continue
        ren[g] = f
        taken.add(g)
        done.add(f)
    if not ren:
        return {}
    # a renamed function whose parameters were also reordered: put them back in the reference order, in its body (the
    # parameter locals) and at every call site (the argument list)
    for g, f in ren.items():
        pm_ = perm_of.get((g, f))
        if not pm_:
            continue
        b = bodies[g]
        # new local (1 + i) becomes old local (1 + pm_[i])
        remap = {1 + i: 1 + pm_[i] for i in range(len(pm_)) if pm_[i] != i}
        _remap_locals(b, remap)
        locs = list(b["locals"])
        for i in range(len(pm_)):
            b["locals"][1 + pm_[i]] = locs[1 + i]
        sg = sigs[g]
        ins = list(sg.get("inputs", []))
        for i in range(len(pm_)):
            sg["inputs"][pm_[i]] = ins[i]
        for b2 in d["bodies"]:
            for blk in b2["blocks"]:
                t = blk["term"]
                if t["t"] in ("call", "tailcall") and (t.get("callee") == g or t.get("resolved") == g) and len(t["args"]) == len(pm_):
                    args = list(t["args"])
                    for i in range(len(pm_)):
                        t["args"][pm_[i]] = args[i]

    def fix_path(p):
        if p in ren:
            return ren[p]
        for g, f in ren.items():
            if p.startswith(g + "::{closure"):
                return f + p[len(g):]
        return p
    for b in d["bodies"]:
        old_path = b["path"]
        b["path"] = fix_path(old_path)
        if old_path in ren:
            b["name"] = last(ren[old_path])
        if b.get("parent"):
            b["parent"] = fix_path(b["parent"])
        for blk in b["blocks"]:
            t = blk["term"]
            if t["t"] in ("call", "tailcall"):
                for k in ("callee", "resolved"):
                    if t.get(k) in ren:
                        t[k] = ren[t[k]]
                        if k == "callee":
                            t["callee_name"] = last(t[k])
            for st in blk["stmts"]:
                if st.get("s") == "assign" and st["rv"].get("r") == "aggregate" and st["rv"].get("closure"):
                    st["rv"]["closure"] = fix_path(st["rv"]["closure"])
    for s_ in d["sigs"]:
        s_["path"] = fix_path(s_["path"])
    return ren



def _split_sig(s_):
    out, depth, cur = [], 0, ""
    for ch in s_:
        if ch in "(<[":
            depth += 1
        elif ch in ")>]":
            depth -= 1
        if ch == "," and depth == 0:
            out.append(cur.strip())
            cur = ""
        else:
            cur += ch
    if cur.strip():
        out.append(cur.strip())
    return out


def _remap_locals(body, remap):
    """Renumber locals of one body (places, operands, debug info) according to remap (a permutation)."""
    def walk(x):
        if isinstance(x, dict):
            if "local" in x and isinstance(x["local"], int) and x["local"] in remap and ("proj" in x or len(x) <= 3):
                x["local"] = remap[x["local"]]
            for k_, v_ in x.items():
                if k_ != "locals":
                    walk(v_)
        elif isinstance(x, list):
            for v_ in x:
                walk(v_)
    walk(body["blocks"])
    walk(body.get("debug", []))


def alias_renamed_fields(d, known_fields):
    """known_fields: adt path -> [[field name, type], ..] of the reference tree.  A struct of the crate that lost a
    field name and gained another of the same type (at the same position, or the only one of that type): the field
    was renamed.  Every projection and aggregate is given the old name again, so that `param:self.total_len` in a
    rule table still means that field.  Returns {(adt, new name): old name}."""
    ren = {}
    for a in d["adts"]:
        old = known_fields.get(a["path"])
        if not old or a["is_enum"] or not a["variants"]:
            continue
        cur = [(f["name"], f["ty"].get("s", "?")) for f in a["variants"][0]["fields"]]
        oldn, curn = {n for n, _ in old}, {n for n, _ in cur}
        gone = [(i, n, t) for i, (n, t) in enumerate(old) if n not in curn]
        fresh = [(i, n, t) for i, (n, t) in enumerate(cur) if n not in oldn]
        for (i, n, t) in gone:
            c = [x for x in fresh if x[0] == i and x[2] == t] or [x for x in fresh if x[2] == t]
            if len(c) == 1:
                ren[(a["path"], c[0][1])] = n
                fresh.remove(c[0])
    if not ren:
        return ren

    def walk(x):
        if isinstance(x, dict):
            if x.get("p") == "field" and (x.get("owner"), x.get("name")) in ren:
                x["name"] = ren[(x["owner"], x["name"])]
            if x.get("r") == "aggregate" and x.get("adt") and x.get("fields"):
                x["fields"] = [ren.get((x["adt"], n), n) for n in x["fields"]]
            for v in x.values():
                walk(v)
        elif isinstance(x, list):
            for v in x:
                walk(v)
    walk(d["bodies"])
    for a in d["adts"]:
        if not a["is_enum"] and a["variants"]:
            for f in a["variants"][0]["fields"]:
                f["name"] = ren.get((a["path"], f["name"]), f["name"])
    return ren


def alias_renamed_params(d, known_params):
    """known_params: function path -> [[parameter name, type], ..] of the reference tree.  A parameter whose name is
    not one of the function's known parameter names, at a position whose type is unchanged, gets the reference
    tree's name for that position (rule tables say `param:from`, `param:size`).  A reordering keeps the names and
    is left alone."""
    n = 0
    for b in d["bodies"]:
        kp = known_params.get(b["path"])
        if not kp or b.get("arg_count") != len(kp):
            continue
        names = {x[0] for x in kp}
        for v in b.get("debug", []):
            pl = v["place"]
            if pl["proj"] or not (1 <= pl["local"] <= b["arg_count"]):
                continue
            want, ty = kp[pl["local"] - 1]
            if v["name"] != want and v["name"] not in names and b["locals"][pl["local"]].get("s") == ty:
                v["name"] = want
                n += 1
    return n


def unname_new_consts(d, known_consts):
    """A named integer constant that the reference tree does not have (`const HEADER_OFFSET_MINIFAT: u64 = 60`) is a
    literal with a name: operands that mention it are given its value, which is what the rule tables spell."""
    n = [0]
    # a new constant with the name and the value of one the reference tree has (a private `const MINI_SECTOR_LEN: u64`
    # beside consts::MINI_SECTOR_LEN) is that constant
    cur = {c["path"]: c.get("val") for c in d.get("consts", [])}
    by_short = {}
    for kp in known_consts:
        if kp in cur:
            by_short.setdefault(kp.rsplit("::", 1)[-1], set()).add((kp, str(cur[kp])))

    def walk(x):
        if isinstance(x, dict):
            if x.get("k") == "const" and "named" in x and "val" in x and not x.get("promoted") and x["named"] not in known_consts:
                same = [kp for (kp, v) in by_short.get(x["named"].rsplit("::", 1)[-1], ()) if v == str(x["val"])]
                if len(same) == 1:
                    x["named"] = same[0]
                    x["repr"] = same[0]
                else:
                    del x["named"]
                    x["repr"] = str(x["val"])
                n[0] += 1
            for v in x.values():
                walk(v)
        elif isinstance(x, list):
            for v in x:
                walk(v)
    walk(d["bodies"])
    return n[0]


def alias_renamed_locals(d, known_locals):
    """known_locals: function path -> [[local variable name, type], ..] of the reference tree (parameters excluded).
    A variable name of the reference tree that is gone while exactly one new name of the same type appeared (or the
    new names of that type line up one to one, in declaration order, with the missing ones): the variable was renamed.
    A few rule-table rows name a local (`var:sector_ids`)."""
    n = 0
    for b in d["bodies"]:
        kl = known_locals.get(b["path"])
        if not kl:
            continue
        cur = []
        for v in b.get("debug", []):
            pl = v["place"]
            if pl["proj"] or pl["local"] <= b.get("arg_count", 0):
                continue
            ty = b["locals"][pl["local"]].get("s", "?")
            if (v["name"], ty) not in cur:
                cur.append((v["name"], ty))
        oldn, curn = {x[0] for x in kl}, {x[0] for x in cur}
        gone = [(nm, ty) for nm, ty in kl if nm not in curn]
        fresh = [(nm, ty) for nm, ty in cur if nm not in oldn]
        if not gone or not fresh:
            continue
        ren = {}
        for ty in {t for _, t in gone}:
            g_ = [nm for nm, t in gone if t == ty]
            f_ = [nm for nm, t in fresh if t == ty]
            if len(g_) == len(f_):
                ren.update(dict(zip(f_, g_)))
        if not ren:
            continue
        for v in b.get("debug", []):
            pl = v["place"]
            if not pl["proj"] and pl["local"] > b.get("arg_count", 0) and v["name"] in ren:
                v["name"] = ren[v["name"]]
                n += 1
    return n


def sroa_bundled_params(d, known_params, known_fields):
    """`Introduce parameter object`: a function of the reference tree now takes a new private struct by value where it
    took the struct's fields one by one (`fn f(a, id: u32, off: u64, buf)` -> `fn f(a, w: Window, buf)`), and every
    caller builds the struct right at the call.  When flattening the new struct parameters field by field gives the
    reference tree's parameter types back, the function and its call sites are rewritten to the flat form (the
    struct parameter is replaced by one parameter per field, with the reference tree's names): rule tables count
    arguments by position and name parameters.  Anything less regular (the struct used as a whole inside the callee, a
    caller that passes a struct it got from elsewhere) leaves the function as it is.  Returns the rewritten paths."""
    import copy as _copy
    adts = {a["path"]: a for a in d["adts"]}
    bodies = {b["path"]: b for b in d["bodies"]}
    done = []
    for path, kp in known_params.items():
        b = bodies.get(path)
        if b is None or b.get("arg_count", 0) >= len(kp) or b["kind"] not in ("fn", "assocfn"):
            continue
        flat = []
        for i in range(1, b["arg_count"] + 1):
            ty = b["locals"][i]
            a = adts.get(ty.get("adt")) if ty.get("k") == "adt" else None
            if a is not None and not a["is_enum"] and a["path"] not in known_fields and a["variants"] and a["variants"][0]["fields"]:
                for fi, fld in enumerate(a["variants"][0]["fields"]):
                    flat.append((i, fi, fld["ty"], a["path"]))
            else:
                flat.append((i, None, ty, None))
        if [x[2].get("s") for x in flat] != [t for _, t in kp]:
            continue
        bundled = {i: adt for (i, fi, _, adt) in flat if fi is not None}
        newidx = {(i, fi): j + 1 for j, (i, fi, _, _) in enumerate(flat)}
        delta = len(flat) - b["arg_count"]
        # 1. inside the callee the struct parameters are only ever read field by field
        ok = [True]

        def scan(x):
            if isinstance(x, dict):
                if "local" in x and x["local"] in bundled:
                    pj = x.get("proj")
                    if not pj or pj[0].get("p") != "field":
                        ok[0] = False
                for v in x.values():
                    scan(v)
            elif isinstance(x, list):
                for v in x:
                    scan(v)
        scan(b["blocks"])
        if not ok[0]:
            continue
        # 2. the call sites (each passes the struct as a place whose fields can be named one by one)
        sites = []
        for cb in d["bodies"]:
            for blk in cb["blocks"]:
                t = blk["term"]
                if t["t"] in ("call", "tailcall") and (t.get("resolved") == path or t.get("callee") == path):
                    for i in bundled:
                        a_ = t["args"][i - 1] if i - 1 < len(t["args"]) else None
                        if not a_ or a_["k"] not in ("move", "copy"):
                            ok[0] = False
                    sites.append(t)
        if not ok[0] or not sites:
            continue
        # 3. rewrite the callee
        def remap(x):
            if isinstance(x, dict):
                if "local" in x and isinstance(x["local"], int):
                    l = x["local"]
                    if l in bundled:
                        fi = x["proj"][0]["i"]
                        x["local"] = newidx[(l, fi)]
                        x["proj"] = x["proj"][1:]
                    elif 1 <= l <= b["arg_count"]:
                        x["local"] = newidx[(l, None)]
                    elif l > b["arg_count"]:
                        x["local"] = l + delta
                for k_, v in x.items():
                    if k_ != "local":
                        remap(v)
            elif isinstance(x, list):
                for v in x:
                    remap(v)
        b["debug"] = [v for v in b.get("debug", []) if not (v["place"]["local"] in bundled)]
        remap(b["blocks"])
        remap(b["debug"])
        b["locals"] = [b["locals"][0]] + [x[2] for x in flat] + b["locals"][b["arg_count"] + 1:]
        have = {v["place"]["local"] for v in b["debug"] if not v["place"]["proj"]}
        for j, (nm, ty) in enumerate(kp):
            if j + 1 not in have:
                b["debug"].append({"name": nm, "place": {"local": j + 1, "proj": [], "ty": ty}})
        b["arg_count"] = len(flat)
        # 4. rewrite the call sites: the struct operand becomes one operand per field
        for t in sites:
            args = []
            for i, a_ in enumerate(t["args"], start=1):
                if i in bundled:
                    flds = adts[bundled[i]]["variants"][0]["fields"]
                    for fi, fld in enumerate(flds):
                        pl = _copy.deepcopy(a_["place"])
                        pl["proj"] = list(pl["proj"]) + [{"p": "field", "i": fi, "name": fld["name"], "owner": bundled[i], "ty": fld["ty"].get("s", "?")}]
                        pl["ty"] = fld["ty"].get("s", "?")
                        args.append({"k": "copy", "place": pl})
                else:
                    args.append(a_)
            t["args"] = args
        for s_ in d["sigs"]:
            if s_["path"] == path:
                s_["inputs"] = [x[2] for x in flat]
        done.append(path)
    return done


class Facts:
    def __init__(self, path, known_functions=None, known_sigs=None, known_fields=None, known_params=None, known_prints=None, known_locals=None, known_consts=None):
        with open(path) as f:
            self.d = json.load(f)
        self.crate = self.d["crate"]
        self.inlined = []
        self.renamed = alias_renamed(self.d, set(known_functions), known_sigs, known_prints) if known_functions and known_sigs else {}
        self.renamed_fields = alias_renamed_fields(self.d, known_fields) if known_fields else {}
        self.renamed_params = alias_renamed_params(self.d, known_params) if known_params else 0
        self.flattened = sroa_bundled_params(self.d, known_params, known_fields or {}) if known_params else []
        self.renamed_locals = alias_renamed_locals(self.d, known_locals) if known_locals else 0
        self.unnamed_consts = unname_new_consts(self.d, set(known_consts)) if known_consts else 0
        bodies = {b["path"]: b for b in self.d["bodies"]}
        if known_functions:
            import inline
            inline.ADTS = {a["path"]: [v["name"] for v in a["variants"]] for a in self.d["adts"] if a["is_enum"]}
            self.inlined, self.removed = inline.inline_new_helpers(bodies, set(known_functions))
        self.fns = {}
        for p_, b in bodies.items():
            self.fns[p_] = Fn(b)
        # a closure written inside a helper that was inlined away is now built inside the helper's caller: that is
        # where its captured variables have to be looked up
        if getattr(self, "removed", None):
            into = {}
            for (caller_, helper_) in self.inlined:
                into.setdefault(helper_, caller_)
            for fn_ in self.fns.values():
                par_ = getattr(fn_, "parent", None)
                hops_ = 0
                while fn_.kind == "closure" and par_ and par_ not in self.fns and par_ in into and hops_ < 8:
                    par_ = into[par_]
                    hops_ += 1
                if par_ != getattr(fn_, "parent", None):
                    fn_.parent = par_
        self.adts = {a["path"]: a for a in self.d["adts"]}
        self.sigs = {s["path"]: s for s in self.d["sigs"]}
        self.consts = {c["path"]: int(c["val"]) for c in self.d["consts"]}

    def find(self, suffix):
        """Functions whose path ends with the given suffix (generic params
        in paths make exact spelling awkward)."""
        return [f for p, f in self.fns.items() if p.endswith(suffix)]

    def one(self, suffix):
        r = self.find(suffix)
        if len(r) != 1:
            raise KeyError("expected exactly one function matching %r, found %d" % (suffix, len(r)))
        return r[0]


if __name__ == "__main__":
    import sys
    fx = Facts(sys.argv[1])
    for pat in sys.argv[2:]:
        for p, f in fx.fns.items():
            if pat in p:
                print(f.dump())
                print()
