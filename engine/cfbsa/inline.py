"""Inlining of helper functions that are not anchors of any rule.

Rule tables name functions of the reference tree (anchors).  A function that
is NOT in the frozen list of reference-tree functions is, by construction, new
code - typically a private helper extracted during a refactoring.  Such helpers
are inlined into their callers before any analysis, so that every rule sees
the same shape it would see without the extraction (and a new helper that
contains a defect is analysed in the context of its callers)."""
import copy
import json
import re

MAX_BLOCKS = 400
MAX_DEPTH = 4


def _shift_place(p, off):
    p["local"] += off
    for e in p["proj"]:
        if e["p"] == "index":
            e["local"] += off


def _shift_op(o, off, promoted):
    if o["k"] in ("copy", "move"):
        _shift_place(o["place"], off)
    elif o["k"] == "const" and o.get("promoted") and promoted is not None and "promoted_val" not in o:
        # (an operand that already carries its value came from a helper inlined one level down: its index
        # refers to that helper's table, not to this one)
        rep = o.get("repr", "")
        try:
            idx = int(rep[rep.rindex("promoted[") + 9:rep.rindex("]")])
            o["promoted_val"] = promoted[idx]
        except (ValueError, IndexError):
            pass


def _shift_rv(rv, off, promoted):
    k = rv["r"]
    if k in ("use", "cast", "repeat"):
        _shift_op(rv["op"], off, promoted)
    elif k == "binop":
        _shift_op(rv["a"], off, promoted)
        _shift_op(rv["b"], off, promoted)
    elif k == "unop":
        _shift_op(rv["a"], off, promoted)
    elif k == "aggregate":
        for o in rv["ops"]:
            _shift_op(o, off, promoted)
    elif k in ("ref", "rawptr", "discriminant"):
        _shift_place(rv["place"], off)


def inline_call(fd, bb, gd):
    """Inline callee body gd at the call terminating block bb of caller body fd (both are facts dicts)."""
    blk = fd["blocks"][bb]
    t = blk["term"]
    off = len(fd["locals"])
    nb = len(fd["blocks"])
    g = copy.deepcopy(gd)
    fd["locals"].extend(g["locals"])
    prom = g.get("promoted")
    taken = {v["name"] for v in fd.get("debug", [])}
    for v in g.get("debug", []):
        _shift_place(v["place"], off)
        # a helper's local must not capture the name of one of the caller's variables (rules look variables up by name)
        if v["name"] in taken:
            k = 1
            while "%s__%d" % (v["name"], k) in taken:
                k += 1
            v["name"] = "%s__%d" % (v["name"], k)
        taken.add(v["name"])
        v["inlined"] = True
        fd["debug"].append(v)
    dest = t["dest"]
    target = t["target"]
    # a generic helper: its type parameters stand, in the inlined copy, for the types of this call site
    subst = {}
    gens = g.get("generics") or []
    targs = t.get("resolved_targs")
    if gens and targs and len(gens) == len(targs):
        subst = dict(zip(gens, targs))

    def _subst_ty(ty):
        if isinstance(ty, dict):
            if ty.get("k") == "param" and ty.get("name") in subst:
                return copy.deepcopy(subst[ty["name"]])
            return {k_: _subst_ty(v_) for k_, v_ in ty.items()}
        if isinstance(ty, list):
            return [_subst_ty(x_) for x_ in ty]
        return ty
    if subst:
        for gb in g["blocks"]:
            gt_ = gb["term"]
            for key_ in ("callee_targs", "callee_self", "resolved_targs"):
                if key_ in gt_ and gt_[key_] is not None:
                    gt_[key_] = _subst_ty(gt_[key_])
    for j, gb in enumerate(g["blocks"]):
        for st in gb["stmts"]:
            if st["s"] in ("assign", "setdiscr"):
                _shift_place(st["place"], off)
                if st["s"] == "assign":
                    _shift_rv(st["rv"], off, prom)
        gt = gb["term"]
        k = gt["t"]
        if k == "goto":
            gt["target"] += nb
        elif k == "switch":
            _shift_op(gt["discr"], off, prom)
            gt["arms"] = [[v, b + nb] for v, b in gt["arms"]]
            gt["otherwise"] += nb
        elif k in ("call", "tailcall"):
            for a in gt["args"]:
                _shift_op(a, off, prom)
            if "func" in gt:
                _shift_op(gt["func"], off, prom)
            if k == "call":
                _shift_place(gt["dest"], off)
                if gt["target"] is not None:
                    gt["target"] += nb
                if gt.get("unwind") is not None:
                    gt["unwind"] += nb
        elif k == "drop":
            _shift_place(gt["place"], off)
            gt["target"] += nb
            if gt.get("unwind") is not None:
                gt["unwind"] += nb
        elif k == "assert":
            _shift_op(gt["cond"], off, prom)
            for a in gt["ops"]:
                _shift_op(a, off, prom)
            gt["target"] += nb
            if gt.get("unwind") is not None:
                gt["unwind"] += nb
        elif k == "return":
            if target is None:
                gb["term"] = {"t": "unreachable", "span": gt["span"]}
            else:
                gb["stmts"].append({"s": "assign", "place": copy.deepcopy(dest),
                                    "rv": {"r": "use", "op": {"k": "move", "place": {"local": off, "proj": [], "ty": g["locals"][0]["s"]}}},
                                    "span": gt["span"]})
                gb["term"] = {"t": "goto", "target": target, "span": gt["span"]}
    # arguments -> parameters
    for i, a in enumerate(t["args"]):
        if i + 1 <= g["arg_count"]:
            blk["stmts"].append({"s": "assign", "place": {"local": off + 1 + i, "proj": [], "ty": g["locals"][1 + i]["s"]},
                                 "rv": {"r": "use", "op": copy.deepcopy(a)}, "span": t["span"]})
    blk["term"] = {"t": "goto", "target": nb, "span": t["span"]}
    fd["blocks"].extend(g["blocks"])
    _tag_error_returns(fd, nb, off, dest)
    _thread_error_returns(fd, nb, off, dest, target)
    _thread_variant_returns(fd, nb, off, dest, target)


def _succs_of(term):
    k = term["t"]
    if k == "goto":
        return [term["target"]]
    if k == "switch":
        return [b for _, b in term["arms"]] + [term["otherwise"]]
    if k in ("call", "drop", "assert"):
        return [term["target"]] if term.get("target") is not None else []
    return []


def _retarget(term, mapping):
    k = term["t"]
    if k == "goto":
        term["target"] = mapping.get(term["target"], term["target"])
    elif k == "switch":
        term["arms"] = [[v, mapping.get(b, b)] for v, b in term["arms"]]
        term["otherwise"] = mapping.get(term["otherwise"], term["otherwise"])
    elif k in ("call", "drop", "assert"):
        if term.get("target") is not None:
            term["target"] = mapping.get(term["target"], term["target"])


def _tag_error_returns(fd, nb, off, dest):
    """When the caller hands the inlined call's result on as its own return value (`let r = helper(); ..; r`),
    the helper's error returns are error exits of the caller: record them for FnView.all_err_nodes."""
    if dest["proj"]:
        return
    returned = False
    for b in fd["blocks"][:nb]:
        for st in b["stmts"]:
            if st["s"] == "assign" and st["place"]["local"] == 0 and not st["place"]["proj"] and st["rv"]["r"] == "use" \
                    and st["rv"]["op"]["k"] in ("move", "copy") and st["rv"]["op"]["place"]["local"] == dest["local"] and not st["rv"]["op"]["place"]["proj"]:
                returned = True
    if not returned:
        return
    tags = fd.setdefault("inlined_err", [])
    for j in range(nb, len(fd["blocks"])):
        b = fd["blocks"][j]
        if b["cleanup"]:
            continue
        for i, st in enumerate(b["stmts"]):
            if st["s"] == "assign" and st["place"]["local"] == off and not st["place"]["proj"] and st["rv"]["r"] == "aggregate" and st["rv"].get("variant") == "Err":
                tags.append(["s", j, i])
        tj = b["term"]
        if tj["t"] == "call" and not tj["dest"]["proj"] and tj["dest"]["local"] == off and "from_residual" in (tj.get("callee") or ""):
            tags.append(["t", j])


def _thread_error_returns(fd, nb, off, dest, target):
    """If the caller immediately applies `?` to the inlined call's result, send the callee's error
    returns straight to the caller's error arm: otherwise the joined CFG contains the infeasible
    path 'callee failed -> caller continues on its Ok arm'."""
    if target is None or dest["proj"]:
        return
    tb = fd["blocks"][target]
    tt = tb["term"]
    if tb["stmts"] or tt["t"] != "call" or not (tt.get("callee") or "").endswith("Try>::branch") and "Try>::branch" not in (tt.get("resolved") or tt.get("callee") or ""):
        return
    a0 = tt["args"][0] if tt["args"] else None
    if not a0 or a0["k"] not in ("move", "copy") or a0["place"]["local"] != dest["local"] or a0["place"]["proj"]:
        return
    t2 = tt.get("target")
    if t2 is None:
        return
    sw = fd["blocks"][t2]["term"]
    if sw["t"] != "switch":
        return
    arms = {int(v): b for v, b in sw["arms"]}
    if 1 not in arms:
        return
    err_bb = arms[1]
    end = len(fd["blocks"])
    starts = []
    for j in range(nb, end):
        b = fd["blocks"][j]
        if b["cleanup"]:
            continue
        is_err_stmt = any(st["s"] == "assign" and st["place"]["local"] == off and not st["place"]["proj"] and st["rv"]["r"] == "aggregate" and st["rv"].get("variant") == "Err" for st in b["stmts"])
        tj = b["term"]
        is_err_call = tj["t"] == "call" and not tj["dest"]["proj"] and tj["dest"]["local"] == off and "from_residual" in (tj.get("callee") or "")
        if is_err_stmt or is_err_call:
            starts.append(j)
    for j in starts:
        b = fd["blocks"][j]
        # clone everything reachable from j's successors inside the inlined region
        region = []
        st = [x for x in _succs_of(b["term"]) if nb <= x < end]
        seen = set()
        while st:
            x = st.pop()
            if x in seen or not (nb <= x < end):
                continue
            seen.add(x)
            region.append(x)
            st.extend(_succs_of(fd["blocks"][x]["term"]))
        if len(region) > 40:
            continue
        mapping = {}
        for x in region:
            mapping[x] = len(fd["blocks"])
            fd["blocks"].append(copy.deepcopy(fd["blocks"][x]))
            fd["blocks"][-1]["clone"] = True
        for x in region:
            cb = fd["blocks"][mapping[x]]
            _retarget(cb["term"], mapping)
            if cb["term"]["t"] == "goto" and cb["term"]["target"] == target:
                cb["term"]["target"] = err_bb
        _retarget(b["term"], mapping)
        if b["term"]["t"] == "goto" and b["term"]["target"] == target:
            b["term"]["target"] = err_bb


def touched_by_helpers(inlined):
    return {p for (p, _) in inlined}


def _closure_of(fd, op, hops=0):
    """(closure path, upvar operands) when operand op is - through plain moves and references - a closure value built
    in this very function; else None."""
    if hops > 6 or op["k"] not in ("move", "copy"):
        return None
    pl = op["place"]
    if any(e["p"] != "deref" for e in pl["proj"]):
        return None
    l = pl["local"]
    defs = [st for b in fd["blocks"] if not b["cleanup"] for st in b["stmts"] if st["s"] == "assign" and st["place"]["local"] == l and not st["place"]["proj"]]
    if len(defs) > 1:
        # threading copies blocks: the same statement in the original and in its copies is one definition
        first = json.dumps(defs[0]["rv"], sort_keys=True)
        if any(json.dumps(d_["rv"], sort_keys=True) != first for d_ in defs[1:]):
            return None
    elif len(defs) != 1:
        return None
    rv = defs[0]["rv"]
    if rv["r"] == "aggregate" and rv.get("agg") == "closure":
        return (rv["closure"], rv["ops"])
    if rv["r"] == "use":
        return _closure_of(fd, rv["op"], hops + 1)
    if rv["r"] == "ref" and all(e["p"] == "deref" for e in rv["place"]["proj"]):
        return _closure_of(fd, {"k": "copy", "place": {"local": rv["place"]["local"], "proj": []}}, hops + 1)
    return None


def inline_closure_calls(fd, by_path, self_path):
    """Inline `FnOnce::call_once / FnMut::call_mut / Fn::call` whose callee is a closure value built in this function
    (the situation an inlined closure-taking helper leaves behind).  The closure's environment parameter is replaced
    by the captured operands themselves, its other parameters by the fields of the argument tuple."""
    did = False
    bb = 0
    while bb < len(fd["blocks"]) and len(fd["blocks"]) < 4 * MAX_BLOCKS:
        blk = fd["blocks"][bb]
        t = blk["term"]
        bb += 1
        if blk["cleanup"] or t["t"] != "call" or t.get("callee") not in ("std::ops::FnOnce::call_once", "std::ops::FnMut::call_mut", "std::ops::Fn::call") or len(t["args"]) != 2:
            continue
        got = _closure_of(fd, t["args"][0])
        if got is None:
            continue
        cpath, upvars = got
        gd = by_path.get(cpath)
        if gd is None or cpath == self_path or len(gd["blocks"]) > MAX_BLOCKS or gd["kind"] != "closure":
            continue
        nparams = gd["arg_count"] - 1
        a1 = t["args"][1]
        spread = []
        if nparams:
            if a1["k"] not in ("move", "copy"):
                continue
            for k in range(nparams):
                pl = copy.deepcopy(a1["place"])
                pl["proj"] = list(pl["proj"]) + [{"p": "field", "i": k, "name": str(k), "owner": "tuple", "ty": gd["locals"][2 + k].get("s", "?")}]
                spread.append({"k": "move", "place": pl})
        off = len(fd["locals"])
        nb = len(fd["blocks"])
        t["args"] = [t["args"][0]] + spread
        t["resolved"] = cpath
        inline_call(fd, bb - 1, gd)
        # the environment: `(*_1).i` / `_1.i` is the i-th captured operand
        env = off + 1

        def fix(x):
            if isinstance(x, dict):
                if x.get("local") == env and isinstance(x.get("proj"), list):
                    pj = x["proj"]
                    j = 0
                    while j < len(pj) and pj[j]["p"] == "deref":
                        j += 1
                    if j < len(pj) and pj[j]["p"] == "field" and isinstance(pj[j].get("i"), int) and pj[j]["i"] < len(upvars):
                        op = upvars[pj[j]["i"]]
                        if op["k"] in ("move", "copy"):
                            x["local"] = op["place"]["local"]
                            x["proj"] = copy.deepcopy(op["place"]["proj"]) + pj[j + 1:]
                for k_, v in x.items():
                    fix(v)
            elif isinstance(x, list):
                for v in x:
                    fix(v)
        fix(fd["blocks"][nb:])
        gd["inlined_as_closure"] = True
        did = True
    return did


# ---- Option / Result combinators with a closure -----------------------------------------------------------
# `x.map(|v| ..)`, `r.and_then(|v| ..)`, `o.ok_or_else(|| ..)` ... are a two-armed match that calls the closure in one
# arm.  Written that way the closure call can be inlined like any other and the value's way through the match is
# visible to the rules (a `?` respelled as `.and_then(..)`, an `if let Some(x) = v.pop()` as `v.pop().map(|x| ..)`).

_COMB = {
    # (type, method): (number of args, [action for variant 0, action for variant 1]); variants: Option None/Some, Result Ok/Err
    # actions: ("call", arg index of the function, passes payload?, wrap variant or None) | ("keep",) | ("payload", wrap or None)
    #          | ("arg", arg index) | ("false",)
    ("Option", "map"): (2, [("keep",), ("call", 1, True, "Some")]),
    ("Option", "and_then"): (2, [("keep",), ("call", 1, True, None)]),
    ("Option", "map_or"): (3, [("arg", 1), ("call", 2, True, None)]),
    ("Option", "map_or_else"): (3, [("call", 1, False, None), ("call", 2, True, None)]),
    ("Option", "ok_or_else"): (2, [("call", 1, False, "Err"), ("payload", "Ok")]),
    ("Option", "unwrap_or_else"): (2, [("call", 1, False, None), ("payload", None)]),
    ("Option", "or_else"): (2, [("call", 1, False, None), ("keep",)]),
    ("Option", "is_some_and"): (2, [("false",), ("call", 1, True, None)]),
    ("Result", "map"): (2, [("call", 1, True, "Ok"), ("keep",)]),
    ("Result", "map_err"): (2, [("keep",), ("call", 1, True, "Err")]),
    ("Result", "and_then"): (2, [("call", 1, True, None), ("keep",)]),
    ("Result", "map_or"): (3, [("call", 2, True, None), ("arg", 1)]),
    ("Result", "map_or_else"): (3, [("call", 2, True, None), ("call", 1, True, None)]),
    ("Result", "unwrap_or_else"): (2, [("payload", None), ("call", 1, True, None)]),
    ("Result", "or_else"): (2, [("keep",), ("call", 1, True, None)]),
    ("Result", "is_ok_and"): (2, [("call", 1, True, None), ("false",)]),
    ("Result", "ok"): (1, [("payload", "Some"), ("none",)]),
}
_VARIANTS = {"Option": ("None", "Some"), "Result": ("Ok", "Err")}
_ADT = {"Option": "std::option::Option", "Result": "std::result::Result"}


def lower_combinators(fd):
    """Rewrite calls of the Option/Result combinators above whose function argument is a closure built in this
    function (or a plain function item) into discriminant test + arms.  Returns True when something was rewritten."""
    did = False
    for bb in range(len(fd["blocks"])):
        blk = fd["blocks"][bb]
        t = blk["term"]
        if blk["cleanup"] or t["t"] != "call" or t.get("target") is None or t["dest"]["proj"]:
            continue
        m = re.match(r"^std::(option::Option|result::Result)::<[^>]*(?:<[^>]*>[^>]*)*>::(\w+)$", t.get("callee") or "")
        if not m:
            continue
        ty = "Option" if "Option" in m.group(1) else "Result"
        spec = _COMB.get((ty, m.group(2)))
        if not spec or len(t["args"]) != spec[0]:
            continue
        x = t["args"][0]
        if x["k"] not in ("move", "copy") or x["place"]["proj"]:
            continue
        fargs = {a[1] for a in spec[1] if a[0] == "call"}
        if not all(_closure_of(fd, t["args"][i]) is not None for i in fargs):
            continue
        span, dest, target, unwind = t["span"], t["dest"], t["target"], t.get("unwind")

        def new_local(tys):
            fd["locals"].append({"s": tys})
            return len(fd["locals"]) - 1

        def new_block(stmts, term):
            fd["blocks"].append({"stmts": stmts, "term": term, "cleanup": False, "clone": False})
            return len(fd["blocks"]) - 1
        xl = x["place"]["local"]
        arms = []
        for vi, act in enumerate(spec[1]):
            vname = _VARIANTS[ty][vi]
            stmts = []
            pay = None
            if act[0] == "keep":
                # spelled out as the same variant built again (`Err(e) => Err(e)`), which is what rules about error
                # propagation recognise
                act = ("payload", vname) if not (ty == "Option" and vi == 0) else ("none",)
            needs_pay = act[0] == "payload" or (act[0] == "call" and act[2])
            has_pay = not (ty == "Option" and vi == 0)
            if needs_pay and has_pay:
                pay = new_local("?")
                stmts.append({"s": "assign", "place": {"local": pay, "proj": [], "ty": "?"}, "span": span,
                              "rv": {"r": "use", "op": {"k": "move", "place": {"local": xl, "proj": [{"p": "downcast", "variant": vname, "vidx": vi}, {"p": "field", "i": 0, "name": "0", "owner": _ADT[ty] + "::" + vname, "ty": "?"}], "ty": "?"}}}})

            def wrap(op, w):
                if w is None:
                    return {"r": "use", "op": op}
                adt = "Result" if w in ("Ok", "Err") else "Option"
                return {"r": "aggregate", "agg": "adt", "adt": _ADT[adt], "variant": w, "fields": ["0"], "ops": [op]}
            if act[0] == "none":
                stmts.append({"s": "assign", "place": copy.deepcopy(dest), "span": span, "rv": {"r": "aggregate", "agg": "adt", "adt": _ADT["Option"], "variant": "None", "fields": [], "ops": []}})
                arms.append(new_block(stmts, {"t": "goto", "target": target, "span": span}))
            elif act[0] == "payload":
                stmts.append({"s": "assign", "place": copy.deepcopy(dest), "span": span, "rv": wrap({"k": "move", "place": {"local": pay, "proj": [], "ty": "?"}}, act[1])})
                arms.append(new_block(stmts, {"t": "goto", "target": target, "span": span}))
            elif act[0] == "arg":
                stmts.append({"s": "assign", "place": copy.deepcopy(dest), "span": span, "rv": {"r": "use", "op": copy.deepcopy(t["args"][act[1]])}})
                arms.append(new_block(stmts, {"t": "goto", "target": target, "span": span}))
            elif act[0] == "false":
                stmts.append({"s": "assign", "place": copy.deepcopy(dest), "span": span, "rv": {"r": "use", "op": {"k": "const", "val": "false", "repr": "const false", "ty": "bool"}}})
                arms.append(new_block(stmts, {"t": "goto", "target": target, "span": span}))
            else:
                tup = new_local("?")
                stmts.append({"s": "assign", "place": {"local": tup, "proj": [], "ty": "?"}, "span": span,
                              "rv": {"r": "aggregate", "agg": "tuple", "ops": ([{"k": "move", "place": {"local": pay, "proj": [], "ty": "?"}}] if pay is not None else [])}})
                r = new_local("?")
                after = new_block([{"s": "assign", "place": copy.deepcopy(dest), "span": span, "rv": wrap({"k": "move", "place": {"local": r, "proj": [], "ty": "?"}}, act[3])}],
                                  {"t": "goto", "target": target, "span": span})
                call = {"t": "call", "callee_kind": "direct", "callee": "std::ops::FnOnce::call_once", "callee_name": "call_once", "callee_krate": "core", "resolved": None,
                        "args": [copy.deepcopy(t["args"][act[1]]), {"k": "move", "place": {"local": tup, "proj": [], "ty": "?"}}],
                        "dest": {"local": r, "proj": [], "ty": "?"}, "target": after, "unwind": unwind, "fn_span": t.get("fn_span", span), "span": span}
                arms.append(new_block(stmts, call))
        d = new_local("isize")
        blk["stmts"].append({"s": "assign", "place": {"local": d, "proj": [], "ty": "isize"}, "span": span,
                             "rv": {"r": "discriminant", "place": {"local": xl, "proj": [], "ty": x["place"].get("ty", "?")}}})
        dead = _dead_block(fd, span)
        blk["term"] = {"t": "switch", "discr": {"k": "move", "place": {"local": d, "proj": [], "ty": "isize"}}, "arms": [[0, arms[0]], [1, arms[1]]], "otherwise": dead, "span": span}
        did = True
    return did


def inline_new_helpers(bodies, known):
    """bodies: path -> facts dict.  Inline every call to a plain function that is not in `known`."""
    by_path = bodies
    inlined = []
    threaded = set()
    for p, fd in by_path.items():
        if fd.get("blocks") and thread_local_variants(fd):
            threaded.add(p)

    def inlinable(p):
        g = by_path.get(p)
        return g is not None and p not in known and g["kind"] in ("fn", "assocfn") and not g.get("impl_trait") and len(g["blocks"]) <= MAX_BLOCKS

    def calls_self(p, seen=()):
        g = by_path[p]
        for b in g["blocks"]:
            t = b["term"]
            if t["t"] == "call" and t.get("resolved") in by_path:
                r = t["resolved"]
                if r == p or r in seen:
                    return True
                if inlinable(r) and calls_self(r, seen + (p,)):
                    return True
        return False

    for depth in range(MAX_DEPTH):
        changed = False
        for p, fd in list(by_path.items()):
            bb = 0
            while bb < len(fd["blocks"]):
                t = fd["blocks"][bb]["term"]
                if t["t"] == "call" and not fd["blocks"][bb]["cleanup"]:
                    r = t.get("resolved")
                    if r and r != p and inlinable(r) and not calls_self(r) and len(fd["blocks"]) < 4 * MAX_BLOCKS:
                        inline_call(fd, bb, by_path[r])
                        inlined.append((p, r))
                        changed = True
                bb += 1
        # a generic helper that takes a closure (`fn with_read<R>(&self, f: impl FnOnce(&T) -> R) -> R`), once inlined,
        # leaves `FnOnce::call_once(f, (x,))` in the caller with `f` the caller's own closure: that call is inlined too
        for p, fd in list(by_path.items()):
            if lower_combinators(fd):
                inlined.append((p, p + "::{combinator}"))
                changed = True
        for p, fd in list(by_path.items()):
            if p in touched_by_helpers(inlined) and inline_closure_calls(fd, by_path, p):
                inlined.append((p, p + "::{closure}"))
                changed = True
        if not changed:
            break
    # threading leaves blocks behind that nothing leads to any more (the joined originals, undecided clones): blank
    # them, so that no rule reads a return or a store off a block that cannot execute
    # values that travel through several inlined levels (closure -> helper -> helper -> `?`) are copies from one return
    # place to the next: thread them once more now that the whole way is in one body
    for p in {p for (p, _) in inlined}:
        fd = by_path.get(p)
        if fd is not None:
            _prune_unreachable(fd)
            if thread_local_variants(fd):
                threaded.add(p)
    for p in {p for (p, _) in inlined} | threaded:
        fd = by_path.get(p)
        if fd is not None:
            _prune_unreachable(fd)
            _resolve_ref_stores(fd)
    # helpers whose every call site was inlined are gone from the program
    still_called = set()
    for p, fd in by_path.items():
        for b in fd["blocks"]:
            t = b["term"]
            if t["t"] in ("call", "tailcall") and t.get("resolved"):
                still_called.add(t["resolved"])
    removed = []
    for (_, r) in inlined:
        if r in by_path and r not in still_called:
            del by_path[r]
            removed.append(r)
    # a closure whose calls were all inlined is gone from the program too: no call anywhere still receives it
    if any(r.endswith("::{closure}") for (_, r) in inlined):
        built, passed = set(), set()
        for p, fd in by_path.items():
            for b in fd["blocks"]:
                for st in b["stmts"]:
                    if st["s"] == "assign" and st["rv"].get("r") == "aggregate" and st["rv"].get("agg") == "closure":
                        built.add(st["rv"]["closure"])
                t = b["term"]
                if t["t"] in ("call", "tailcall"):
                    for a in t["args"]:
                        got = _closure_of(fd, a) if a["k"] in ("move", "copy") else None
                        if got:
                            passed.add(got[0])
        for c in list(by_path):
            if by_path[c]["kind"] == "closure" and c in built and c not in passed and by_path[c].get("inlined_as_closure"):
                del by_path[c]
                removed.append(c)
    return inlined, removed


# ---- threading of constant-variant returns ---------------------------------------------------------------
# A helper that ends in `Ok(None)` on one path and `Ok(Some(x))` on another, inlined into `if let Some(..) =
# helper()? { .. }`, joins both values before the caller tests them; in the joined graph the caller's None arm is
# no longer dominated by the helper's "nothing found" edge.  Each return-value assignment whose variant is a
# constant gets its own copy of the path to the join and of the caller's decision chain, with the decisions
# already taken.

_DISCR = {"None": 0, "Some": 1, "Ok": 0, "Err": 1, "Continue": 0, "Break": 1}
ADTS = {}      # enum path -> [variant names], set by facts.Facts before inlining (fieldless enums of the crate)


def _discr_index(kv):
    if kv[0] == "__tuple__":
        return None
    if len(kv) > 3 and kv[3] is not None:
        return kv[3]
    return _DISCR.get(kv[0])


def _agg_variant(blk, upto, local):
    """(variant, payload) of the aggregate last assigned to `local` in blk before statement index upto."""
    for i in range(upto - 1, -1, -1):
        st = blk["stmts"][i]
        if st["s"] == "assign" and st["place"]["local"] == local and not st["place"]["proj"]:
            rv = st["rv"]
            if rv["r"] == "use" and rv["op"]["k"] == "const" and rv["op"].get("variant") and rv["op"].get("enum") in ADTS and rv["op"]["variant"] in ADTS[rv["op"]["enum"]]:
                # a constant of a fieldless enum (`Link::Child`): the variant, hence every later `match` on it, is known
                return (rv["op"]["variant"], None, None, ADTS[rv["op"]["enum"]].index(rv["op"]["variant"]))
            if rv["r"] == "aggregate" and rv.get("agg") == "adt" and rv.get("adt") in ADTS and rv.get("variant") in ADTS[rv["adt"]]:
                # a variant of one of the crate's own enums, with or without a payload (`HeaderField::DifatEntry(i)`)
                op = None
                if len(rv.get("ops") or []) == 1 and (rv["ops"][0]["k"] == "const" or (rv["ops"][0]["k"] in ("move", "copy") and not rv["ops"][0]["place"]["proj"])):
                    op = rv["ops"][0]
                    if op["k"] != "const":
                        for st2 in blk["stmts"][i + 1:]:
                            if st2["s"] == "assign" and st2["place"]["local"] == op["place"]["local"]:
                                op = None
                                break
                return (rv["variant"], None, op, ADTS[rv["adt"]].index(rv["variant"]))
            if rv["r"] == "aggregate" and rv.get("agg") == "adt" and rv.get("variant") in _DISCR:
                pay = None
                if rv["ops"] and rv["ops"][0]["k"] in ("move", "copy") and not rv["ops"][0]["place"]["proj"]:
                    pay = _agg_variant(blk, i, rv["ops"][0]["place"]["local"])
                op = None
                if len(rv["ops"]) == 1 and (rv["ops"][0]["k"] == "const" or (rv["ops"][0]["k"] in ("move", "copy") and not rv["ops"][0]["place"]["proj"])):
                    op = rv["ops"][0]
                    # the operand must still hold that value at the end of the block
                    if op["k"] != "const":
                        for st2 in blk["stmts"][i + 1:]:
                            if st2["s"] == "assign" and st2["place"]["local"] == op["place"]["local"]:
                                op = None
                                break
                return (rv["variant"], pay, op)
            return None
    return None


def _thread_variant_returns(fd, nb, off, dest, target):
    if target is None or dest["proj"]:
        return
    end = len(fd["blocks"])
    sites = []
    for j in range(nb, end):
        b = fd["blocks"][j]
        if b["cleanup"]:
            continue
        last = None
        for i, st in enumerate(b["stmts"]):
            if st["s"] == "assign" and st["place"]["local"] == off and not st["place"]["proj"]:
                last = i
        if last is not None:
            kv = _agg_variant(b, last + 1, off)
            if kv is not None:
                sites.append((j, kv))
    if len(sites) < 2 and not (len(sites) == 1):
        return
    for (j, kv) in sites:
        b = fd["blocks"][j]
        if b["term"]["t"] != "goto":
            continue
        # 1. clone the callee's way from the assignment to its return (drops, storage markers)
        region, st_, seen = [], [b["term"]["target"]], set()
        while st_:
            x = st_.pop()
            if x in seen or not (nb <= x < end):
                continue
            seen.add(x)
            region.append(x)
            st_.extend(_succs_of(fd["blocks"][x]["term"]))
        if len(region) > 30:
            continue
        if any(fd["blocks"][x]["term"]["t"] in ("switch", "call") for x in region):
            continue   # only straight-line epilogues are threaded
        mapping = {}
        for x in region:
            mapping[x] = len(fd["blocks"])
            fd["blocks"].append(copy.deepcopy(fd["blocks"][x]))
            fd["blocks"][-1]["clone"] = True
        exits = []
        for x in region:
            cb = fd["blocks"][mapping[x]]
            _retarget(cb["term"], mapping)
            if cb["term"]["t"] == "goto" and cb["term"]["target"] == target:
                exits.append(mapping[x])
        if not exits:
            continue
        # 2. the caller's decision chain with the value known
        chain_head = _clone_chain(fd, target, {dest["local"]: kv})
        if chain_head is None:
            # nothing was decided: undo nothing (the clones are simply unreachable)
            continue
        for e in exits:
            fd["blocks"][e]["term"]["target"] = chain_head
        b["term"]["target"] = mapping[b["term"]["target"]]


def _clone_chain(fd, start, known, avoid=None, assigned=None, arm=False, calls=0):
    """Clone blocks from `start` while every decision is determined by `known` (local -> (variant, payload, operand)).
    Returns the index of the first cloned block, or None if no switch could be decided.  Blocks in `avoid` (loop
    headers) are never cloned: peeling a header's test gives the loop a second entry."""
    known = dict(known)
    consts = {}
    head = None
    prev = None
    decided = 0
    cur = start
    assigned = set(assigned or ())
    subst = 0
    trail = []
    for _ in range(24):
        if avoid and cur in avoid:
            break
        blk = fd["blocks"][cur]
        nbk = copy.deepcopy(blk)
        nbk["clone"] = True
        idx = len(fd["blocks"])
        fd["blocks"].append(nbk)
        if head is None:
            head = idx
        if prev is not None:
            pt = fd["blocks"][prev]["term"]
            pt["target"] = idx
        trail.append([idx, cur, prev, subst])
        for st in nbk["stmts"]:
            if st["s"] != "assign" or st["place"]["proj"]:
                continue
            x = st["place"]["local"]
            rv = st["rv"]
            known.pop(x, None)
            consts.pop(x, None)
            assigned.add(x)
            if rv["r"] == "discriminant" and not rv["place"]["proj"] and rv["place"]["local"] in known:
                di_ = _discr_index(known[rv["place"]["local"]])
                if di_ is not None:
                    consts[x] = di_
            elif rv["r"] == "aggregate" and rv.get("agg") == "adt" and rv.get("variant") in _DISCR:
                # a value re-wrapped on the way (`Ok(v) => Ok(v)`): the new local's variant is known as well
                op = rv["ops"][0] if len(rv.get("ops", [])) == 1 and (rv["ops"][0]["k"] == "const" or not rv["ops"][0]["place"]["proj"]) else None
                pay = known.get(op["place"]["local"]) if op is not None and op["k"] != "const" else None
                known[x] = (rv["variant"], pay, op)
            elif rv["r"] == "use" and rv["op"]["k"] in ("move", "copy"):
                pl = rv["op"]["place"]
                if not pl["proj"] and pl["local"] in known:
                    known[x] = known[pl["local"]]
                elif not pl["proj"] and pl["local"] in consts:
                    consts[x] = consts[pl["local"]]
                elif len(pl["proj"]) == 1 and pl["proj"][0]["p"] == "field" and pl["local"] in known and known[pl["local"]][0] == "__tuple__":
                    fk = known[pl["local"]][1].get(str(pl["proj"][0].get("name")))
                    if fk is not None:
                        known[x] = fk
                elif len(pl["proj"]) == 2 and pl["proj"][0]["p"] == "downcast" and pl["proj"][1]["p"] == "field" and pl["proj"][1].get("name") == "0" and pl["local"] in known:
                    kv = known[pl["local"]]
                    if kv[0] == pl["proj"][0]["variant"] and kv[1] is not None:
                        known[x] = kv[1]
                    # the payload itself, when the value was built from a plain operand that still holds it
                    if kv[0] == pl["proj"][0]["variant"] and len(kv) > 2 and kv[2] is not None:
                        op = kv[2]
                        if op["k"] == "const":
                            rv["op"] = copy.deepcopy(op)
                            subst += 1
                        elif op["place"]["local"] not in assigned or op["place"]["local"] == x:
                            rv["op"] = {"k": "copy", "place": copy.deepcopy(op["place"])}
                            subst += 1
        t = nbk["term"]
        if t["t"] == "goto" or (t["t"] == "drop" and t.get("target") is not None):
            # (a drop on the way - the guard of a helper that was inlined - is executed once on every path, copy or not)
            prev = idx
            cur = t["target"]
            continue
        if t["t"] == "call" and calls > 0 and t.get("target") is not None and not (_is_branch(t) and t["args"] and t["args"][0]["k"] in ("move", "copy") and not t["args"][0]["place"]["proj"] and t["args"][0]["place"]["local"] in known):
            # the value is a constant of one of the crate's own fieldless enums (`Link::Left` handed to a helper that
            # was inlined here): the test of it lies behind a few ordinary calls of that helper (seek, write); the way
            # there is copied through them, so that the helper's `match` is decided per caller's arm
            calls -= 1
            if not t["dest"]["proj"]:
                known.pop(t["dest"]["local"], None)
                consts.pop(t["dest"]["local"], None)
                assigned.add(t["dest"]["local"])
            prev = idx
            cur = t["target"]
            continue
        if t["t"] == "call" and _is_branch(t) and t["args"] and t["args"][0]["k"] in ("move", "copy") and not t["args"][0]["place"]["proj"] \
                and t["args"][0]["place"]["local"] in known and t.get("target") is not None and not t["dest"]["proj"]:
            kv = known[t["args"][0]["place"]["local"]]
            known[t["dest"]["local"]] = ("Continue", kv[1], kv[2] if len(kv) > 2 else None) if kv[0] in ("Ok", "Some") else ("Break", None, None)
            assigned.add(t["dest"]["local"])
            prev = idx
            cur = t["target"]
            continue
        if t["t"] == "switch" and t["discr"]["k"] in ("move", "copy") and not t["discr"]["place"]["proj"] and t["discr"]["place"]["local"] in consts:
            val = consts[t["discr"]["place"]["local"]]
            arms = {int(v): bb for v, bb in t["arms"]}
            tgt = arms.get(val, t["otherwise"])
            # keep the switch (rules read conditions off it) but make the impossible arms unreachable
            nbk["term"] = {"t": "switch", "discr": t["discr"], "arms": [[val, tgt]] if val in arms else [], "otherwise": tgt if val not in arms else _dead_block(fd, t["span"]), "span": t["span"]}
            decided += 1
            # stop after the decision unless the arm is again a pure decision block
            nxt = fd["blocks"][tgt]
            if nxt["term"]["t"] in ("switch", "goto", "drop") or (nxt["term"]["t"] == "call" and (_is_branch(nxt["term"]) or calls > 0)):
                # continue threading through the chosen arm
                prev_switch = idx
                cur = tgt
                sub = _clone_chain(fd, cur, known, avoid, assigned, arm=True, calls=calls)
                if sub is not None:
                    if val in arms:
                        nbk["term"]["arms"] = [[val, sub]]
                    else:
                        nbk["term"]["otherwise"] = sub
            return head if decided else None
        break
    if decided:
        return head
    if not arm:
        return None
    # the arm a decision led to: its own copy is worth keeping as far as the payload it unpacks became a plain operand
    # there; trailing copies without a substitution - and any copy that would duplicate a test or a call site - are
    # given back (the path rejoins the original there)
    while trail:
        idx, orig, pv, before = trail[-1]
        tk = fd["blocks"][idx]["term"]["t"]
        if subst > before and tk in ("goto", "return", "drop"):
            break
        subst = before
        trail.pop()
        if pv is not None:
            fd["blocks"][pv]["term"]["target"] = orig
    return head if trail else None


def _loop_headers(fd):
    """Targets of retreating edges of a depth-first walk from the entry."""
    heads, state = set(), {}
    stack = [(0, iter(_succs_of(fd["blocks"][0]["term"])))]
    state[0] = 1
    while stack:
        x, it = stack[-1]
        nxt = next(it, None)
        if nxt is None:
            state[x] = 2
            stack.pop()
            continue
        if state.get(nxt) == 1:
            heads.add(nxt)
        elif nxt not in state:
            state[nxt] = 1
            stack.append((nxt, iter(_succs_of(fd["blocks"][nxt]["term"]))))
    return heads


def _split_payload_prefixes(fd):
    """A block that unpacks a payload (`x = (r as Ok).0`, then plain copies of x) and goes on to compute and test
    something is split after the copies: the unpacking can then get its own copy per known value while the test
    stays single."""
    def is_payload(st):
        if st["s"] != "assign" or st["place"]["proj"] or st["rv"]["r"] != "use" or st["rv"]["op"]["k"] not in ("copy", "move"):
            return False
        pj = st["rv"]["op"]["place"]["proj"]
        return len(pj) == 2 and pj[0]["p"] == "downcast" and pj[1]["p"] == "field" and pj[1].get("name") == "0"
    for j in range(len(fd["blocks"])):
        b = fd["blocks"][j]
        if b["cleanup"] or b["term"]["t"] in ("goto", "return", "unreachable"):
            continue
        k, tainted, seen_payload = 0, set(), False
        for i, st in enumerate(b["stmts"]):
            if st["s"] != "assign":
                if seen_payload:
                    k = i + 1 if k == i else k
                continue
            if not seen_payload:
                if is_payload(st):
                    seen_payload = True
                    tainted.add(st["place"]["local"])
                    k = i + 1
                    continue
                break
            rv = st["rv"]
            if not st["place"]["proj"] and rv["r"] in ("use", "cast") and rv["op"]["k"] in ("copy", "move") and not rv["op"]["place"]["proj"] and rv["op"]["place"]["local"] in tainted:
                tainted.add(st["place"]["local"])
                k = i + 1
                continue
            break
        if not seen_payload or k >= len(b["stmts"]) and b["term"]["t"] not in ("switch",):
            continue
        rest = {"stmts": b["stmts"][k:], "term": b["term"], "cleanup": False}
        fd["blocks"].append(rest)
        b["stmts"] = b["stmts"][:k]
        b["term"] = {"t": "goto", "target": len(fd["blocks"]) - 1, "span": rest["term"]["span"]}


def thread_local_variants(fd):
    """Jump threading inside one function: `let r = if c { Ok(a) } else { Err(b) }; match r { Ok(v) => .., Err(e) => .. }`
    joins both values before it tests them; in the joined graph the Ok arm is not dominated by `c`.  Every block that
    assigns a constant variant to a local and goes on to a test of that local gets its own copy of the way there,
    with the decision already taken.  Returns True when something was threaded."""
    _split_payload_prefixes(fd)
    n0 = len(fd["blocks"])
    heads = _loop_headers(fd)
    did = False
    # locals that hold, through their only definition in the whole body, a constant of one of the crate's own
    # fieldless enums (an argument `Link::Left` bound to an inlined helper's parameter): a copy of such a local made
    # anywhere later is that constant too
    ndefs, cdef = {}, {}
    for b_ in fd["blocks"]:
        if b_.get("cleanup"):
            continue
        for st_ in b_["stmts"]:
            if st_["s"] == "assign" and not st_["place"]["proj"]:
                l_ = st_["place"]["local"]
                ndefs[l_] = ndefs.get(l_, 0) + 1
                rv_ = st_["rv"]
                if rv_["r"] == "use" and rv_["op"]["k"] == "const" and rv_["op"].get("variant") and rv_["op"].get("enum") in ADTS and rv_["op"]["variant"] in ADTS[rv_["op"]["enum"]]:
                    cdef[l_] = (rv_["op"]["variant"], None, None, ADTS[rv_["op"]["enum"]].index(rv_["op"]["variant"]))
                elif rv_["r"] == "aggregate" and rv_.get("agg") == "adt" and rv_.get("adt") in ADTS and rv_.get("variant") in ADTS[rv_["adt"]] and not rv_.get("ops"):
                    cdef[l_] = (rv_["variant"], None, None, ADTS[rv_["adt"]].index(rv_["variant"]))
        t_ = b_["term"]
        if t_["t"] == "call" and not t_["dest"]["proj"]:
            ndefs[t_["dest"]["local"]] = ndefs.get(t_["dest"]["local"], 0) + 1
    single_const = {l_: kv_ for l_, kv_ in cdef.items() if ndefs.get(l_) == 1 and l_ > fd.get("arg_count", 0)}
    changed_ = True
    while changed_:
        changed_ = False
        for b_ in fd["blocks"]:
            if b_.get("cleanup"):
                continue
            for st_ in b_["stmts"]:
                if st_["s"] == "assign" and not st_["place"]["proj"] and st_["rv"]["r"] == "use" and st_["rv"]["op"]["k"] in ("copy", "move") and not st_["rv"]["op"]["place"]["proj"]:
                    a_, s_ = st_["place"]["local"], st_["rv"]["op"]["place"]["local"]
                    if s_ in single_const and a_ not in single_const and ndefs.get(a_) == 1 and a_ > fd.get("arg_count", 0):
                        single_const[a_] = single_const[s_]
                        changed_ = True
    for j in range(n0):
        b = fd["blocks"][j]
        if b["cleanup"] or b["term"]["t"] != "goto" or len(fd["blocks"]) > 3 * n0 + 100:
            continue
        cands = {}
        for i, st in enumerate(b["stmts"]):
            if st["s"] == "assign" and not st["place"]["proj"]:
                rv = st["rv"]
                if rv["r"] == "aggregate" and rv.get("agg") == "adt" and rv.get("variant") in _DISCR and st["place"]["local"] != 0:
                    cands[st["place"]["local"]] = i
                elif rv["r"] == "use" and rv["op"]["k"] == "const" and rv["op"].get("variant") and rv["op"].get("enum") in ADTS and st["place"]["local"] != 0:
                    cands[st["place"]["local"]] = i
                elif rv["r"] == "aggregate" and rv.get("agg") == "adt" and rv.get("adt") in ADTS and st["place"]["local"] != 0:
                    cands[st["place"]["local"]] = i
                elif rv["r"] == "use" and rv["op"]["k"] in ("copy", "move") and not rv["op"]["place"]["proj"] and rv["op"]["place"]["local"] in single_const and st["place"]["local"] != 0 and not b.get("clone"):
                    cands[st["place"]["local"]] = i
                elif rv["r"] == "aggregate" and rv.get("agg") == "tuple" and st["place"]["local"] != 0 and not b.get("clone") and len(rv.get("ops", [])) <= 4:
                    cands[st["place"]["local"]] = i
                else:
                    cands.pop(st["place"]["local"], None)
        for L, i in cands.items():
            kv = _agg_variant(b, i + 1, L)
            if kv is None:
                rv_i = b["stmts"][i]["rv"]
                if rv_i["r"] == "aggregate" and rv_i.get("agg") == "tuple" and all(not (st2["s"] == "assign" and st2["place"]["local"] == L) for st2 in b["stmts"][i + 1:]):
                    fields_ = {}
                    for k_, o_ in enumerate(rv_i.get("ops", [])):
                        if o_["k"] == "const" and o_.get("variant") and o_.get("enum") in ADTS and o_["variant"] in ADTS[o_["enum"]]:
                            fields_[str(k_)] = (o_["variant"], None, None, ADTS[o_["enum"]].index(o_["variant"]))
                        elif o_["k"] in ("copy", "move") and not o_["place"]["proj"]:
                            fk_ = _agg_variant(b, i, o_["place"]["local"]) or single_const.get(o_["place"]["local"])
                            if fk_ is not None and len(fk_) > 3 and fk_[0] != "__tuple__":
                                fields_[str(k_)] = fk_
                    if fields_:
                        kv = ("__tuple__", fields_, None, None)
                if kv is None and rv_i["r"] == "use" and rv_i["op"]["k"] in ("copy", "move") and not rv_i["op"]["place"]["proj"] and rv_i["op"]["place"]["local"] in single_const and all(not (st2["s"] == "assign" and st2["place"]["local"] == L) for st2 in b["stmts"][i + 1:]):
                    kv = single_const[rv_i["op"]["place"]["local"]]
            if kv is None:
                continue
            later = {st["place"]["local"] for st in b["stmts"][i + 1:] if st["s"] == "assign"}
            # plain copies of the value made later in the same block (an argument moved into an inlined helper's
            # parameter) hold it as well
            kn = {L: kv}
            for st in b["stmts"][i + 1:]:
                if st["s"] == "assign" and not st["place"]["proj"]:
                    rv = st["rv"]
                    if rv["r"] == "use" and rv["op"]["k"] in ("move", "copy") and not rv["op"]["place"]["proj"] and rv["op"]["place"]["local"] in kn:
                        kn[st["place"]["local"]] = kn[rv["op"]["place"]["local"]]
                    else:
                        kn.pop(st["place"]["local"], None)
            if L not in kn:
                kn[L] = kv
            own_enum = len(kv) > 3
            head = _clone_chain(fd, b["term"]["target"], kn, heads, later, calls=(10 if own_enum else 0))
            if head is not None:
                b["term"]["target"] = head
                did = True
                break
    return did


def _prune_unreachable(fd):
    seen, work = set(), [0]
    while work:
        x = work.pop()
        if x in seen:
            continue
        seen.add(x)
        t = fd["blocks"][x]["term"]
        work.extend(_succs_of(t))
        if isinstance(t.get("unwind"), int):
            work.append(t["unwind"])
    for i, b in enumerate(fd["blocks"]):
        if i not in seen and not b["cleanup"]:
            b["stmts"] = []
            b["term"] = {"t": "unreachable", "span": b["term"]["span"]}


def _dead_block(fd, span):
    fd["blocks"].append({"stmts": [], "term": {"t": "unreachable", "span": span}, "cleanup": False})
    return len(fd["blocks"]) - 1


def _is_branch(t):
    c = (t.get("callee") or "") + " " + (t.get("resolved") or "")
    return "Try>::branch" in c or "Try::branch" in c


def _resolve_ref_stores(fd):
    """`*helper_that_returns_a_field(&mut entry) = v`, once the helper is inlined and its arm decided, reads
    `_r = &mut (*e).left_sibling; (*_r) = v`.  A store through a reference that is built in the same block (or that
    has a single definition in the whole body) from a place is a store to that place: rewrite it, so that the rules
    that look for stores to a field see it."""
    defs = {}
    for b, blk in enumerate(fd["blocks"]):
        if blk.get("cleanup"):
            continue
        for i, st in enumerate(blk["stmts"]):
            if st["s"] == "assign" and not st["place"]["proj"]:
                defs.setdefault(st["place"]["local"], []).append((b, i, st))
        t = blk["term"]
        if t["t"] == "call" and not t["dest"]["proj"]:
            defs.setdefault(t["dest"]["local"], []).append((b, "t", t))
    done = 0
    for b, blk in enumerate(fd["blocks"]):
        if blk.get("cleanup"):
            continue
        for i, st in enumerate(blk["stmts"]):
            if st["s"] != "assign":
                continue
            pl = st["place"]
            if not pl["proj"] or pl["proj"][0]["p"] != "deref" or len(pl["proj"]) != 1:
                continue
            cur = pl["local"]
            src = None
            for _ in range(6):
                # the definition in the same block before the store, else the only definition in the body
                cand = [d for d in defs.get(cur, []) if d[0] == b and d[1] != "t" and d[1] < i]
                d = cand[-1] if cand else (defs.get(cur, [None])[0] if len(defs.get(cur, [])) == 1 else None)
                if d is None or d[1] == "t":
                    break
                rv = d[2]["rv"]
                if rv["r"] == "ref" and rv.get("mut"):
                    if len(rv["place"]["proj"]) == 1 and rv["place"]["proj"][0]["p"] == "deref":
                        cur = rv["place"]["local"]          # a re-borrow `&mut *r`
                        continue
                    src = rv["place"]
                    break
                if rv["r"] == "use" and rv["op"]["k"] in ("move", "copy") and not rv["op"]["place"]["proj"]:
                    cur = rv["op"]["place"]["local"]
                    continue
                break
            if src is not None and any(e["p"] == "field" for e in src["proj"]):
                st["place"] = copy.deepcopy(src)
                st["via_ref"] = True
                done += 1
    return done
