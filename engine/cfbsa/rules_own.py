"""R-OWN: who-may-call rules for the allocation protocol.  A sector (mini sector,
directory slot) changes owner only through the allocator's own entry points, with
the argument shapes of the protocol; everything else would let two chains share a sector."""
import re

from core import Finding, RuleResult, view
from prov import Prov, expand_var


def make(pid):
    def run(ctx):
        tbl = ctx.table("own")
        res = RuleResult("R-OWN(%s)" % pid, "sectors, mini sectors and free-list entries change state only inside the allocator's protocol functions and with the protocol's argument shapes (exclusive ownership of sectors by chains depends on it)")
        n = 0
        for row in tbl.get("rows", []):
            if pid not in row.get("properties", [pid]):
                continue
            rx = re.compile(row["callee"])
            recv = row.get("receiver")
            for f in ctx.fx.fns.values():
                pr = None
                for c in ctx.cg.calls[f.path]:
                    if c.kind != "call" or not rx.search(c.name):
                        continue
                    pr = pr or Prov(f)
                    args = [pr.operand(a) for a in c.term["args"]]
                    if recv and not (args and re.search(recv, args[0])):
                        continue
                    n += 1
                    allowed = [a for a in row["allowed"] if a["caller"] == f.path]
                    if not allowed and f.kind == "closure":
                        # a closure belongs to the function it is written in (an iterator adaptor's body, say)
                        owner = re.sub(r"(::\{closure#\d+\})+$", "", f.path)
                        allowed = [dict(a, args={}) for a in row["allowed"] if a["caller"] == owner and not a.get("args")]
                    key = "R-OWN(%s)/%s/%s" % (pid, row["id"], f.path)
                    if not allowed:
                        res.fail(Finding(res.rule, key + "/unlisted-caller", "%s is called from %s, which is not one of the allocator's protocol functions for it (%s): %s" % (
                            c.name.split("::")[-1], f.path, ", ".join(a["caller"].split("::")[-1] for a in row["allowed"]), row["why"]), f, c.term["span"]))
                        continue
                    ok = False
                    for a in allowed:
                        if all(int(i) < len(args) and all(re.search(rxa, x) for x in expand_var(f, args[int(i)], pr)) for i, rxa in a.get("args", {}).items()):
                            ok = True
                    if ok:
                        res.ok({"row": row["id"], "caller": f.path, "args": [x[:50] for x in args[1:3]]}, nontrivial=True)
                    else:
                        res.fail(Finding(res.rule, key + "/unlisted-argument-shape", "%s(%s) in %s does not have one of the protocol's argument shapes: %s" % (
                            c.name.split("::")[-1], ", ".join(x[:50] for x in args[1:]), f.path.split("::")[-1], row["why"]), f, c.term["span"]))
        res.floor("protocol call sites", n, ctx.table("floors").get("own_sites_" + pid, 0))
        return res
    return run


def stateset(pid):
    """R-STATESET: the mutable state of the live object is the audited set of tables and counters (the cached FAT,
    DIFAT and MiniFAT, the free lists, the directory entries, the sector count, a handle's window and position ...),
    each of which some rule ties to the file (R-WT, R-HDR, R-FREELIST, R-POSKEEP ...).  A state type that acquires
    one more field that is written after construction has acquired state no rule knows: a remembered chain tail, a
    last-lookup cache, a cached position - right until something else changes what it was computed from.  Decided by
    count per type, so that renaming a field is not an alarm."""
    import json as _json
    MUT = ("push", "pop", "insert", "remove", "truncate", "clear", "retain", "extend", "extend_from_slice", "append", "take", "replace", "resize", "swap_remove", "drain", "get_or_insert", "get_or_insert_with", "insert_with")
    TYPES = ("internal::alloc::Allocator", "internal::minialloc::MiniAllocator", "internal::directory::Directory", "internal::sector::Sectors", "internal::chain::Chain", "internal::minichain::MiniChain", "internal::stream::Stream", "internal::stream_buffer::StreamBuffer", "CompoundFile")

    def mutated(ctx):
        out = {}
        for f in ctx.fx.fns.values():
            if f.d.get("is_test") or "::tests::" in f.path:
                continue
            pr = None
            for blk in f.blocks:
                if blk["cleanup"]:
                    continue
                for st in blk["stmts"]:
                    if st["s"] != "assign":
                        continue
                    fl = [e for e in st["place"]["proj"] if e["p"] == "field"]
                    if fl and fl[0].get("owner") in TYPES and any(e["p"] == "deref" for e in st["place"]["proj"]):
                        out.setdefault(fl[0]["owner"], {}).setdefault(fl[0]["name"], f.path)
                t = blk["term"]
                if t["t"] == "call" and t.get("args"):
                    from facts import callee_name
                    nm = callee_name(t) or ""
                    if nm.split("::")[-1] in MUT:
                        a0 = t["args"][0]
                        pl = None
                        if a0.get("k") in ("copy", "move"):
                            # `&mut self.field` taken just before the call
                            l0 = a0["place"]["local"]
                            for st in blk["stmts"]:
                                if st["s"] == "assign" and st["place"]["local"] == l0 and not st["place"]["proj"] and st["rv"]["r"] == "ref":
                                    pl = st["rv"]["place"]
                        if pl is not None:
                            fl = [e for e in pl["proj"] if e["p"] == "field"]
                            if fl and fl[0].get("owner") in TYPES:
                                out.setdefault(fl[0]["owner"], {}).setdefault(fl[0]["name"], f.path)
        return out

    def run(ctx):
        res = RuleResult("R-STATESET(%s)" % pid, "no state type (Allocator, MiniAllocator, Directory, Sectors, Chain, MiniChain, Stream, StreamBuffer, CompoundFile) has more fields written after construction than the audited set in rules/stateset.json")
        tbl = ctx.table("stateset") if "stateset" in getattr(ctx, "tables", {}) else {}
        frozen = tbl.get("mutated_fields", {})
        m = mutated(ctx)
        n = 0
        for ty in TYPES:
            now = m.get(ty, {})
            was = frozen.get(ty)
            if was is None:
                continue
            n += 1
            new = sorted(set(now) - set(was))
            if len(now) > len(was) and new:
                res.fail(Finding(res.rule, "R-STATESET/%s/new-mutable-field" % ty, "%s has a field written after construction that is not in the audited set: `%s` (written in %s) - state that no write-through, header, free-list or position rule ties to the file or to the tables it was computed from" % (ty.split("::")[-1], new[0], now[new[0]].split("::")[-1]), None))
            else:
                res.ok({"type": ty, "mutable_fields": sorted(now)}, nontrivial=True)
        res.floor("state types with an audited field set", n, ctx.table("floors").get("stateset_types", 0))
        return res
    run.mutated = mutated
    return run
