"""R-OWN: who-may-call rules for the allocation protocol.  A sector (mini sector,
directory slot) changes owner only through the allocator's own entry points, with
the argument shapes of the protocol; everything else would let two chains share a sector."""
import re

from core import Finding, RuleResult, view
from prov import Prov, expand_var


def make(pid):
    def run(ctx):
        tbl = ctx.table("own")
        res = RuleResult("R-OWN(%s)" % pid, "sectors, mini sectors and free-list entries change state only inside the allocator's protocol functions and with the protocol's argument shapes (exclusive ownership of sectors by chains depends on it)")
        n = 0
        for row in tbl.get("rows", []):
            if pid not in row.get("properties", [pid]):
                continue
            rx = re.compile(row["callee"])
            recv = row.get("receiver")
            for f in ctx.fx.fns.values():
                pr = None
                for c in ctx.cg.calls[f.path]:
                    if c.kind != "call" or not rx.search(c.name):
                        continue
                    pr = pr or Prov(f)
                    args = [pr.operand(a) for a in c.term["args"]]
                    if recv and not (args and re.search(recv, args[0])):
                        continue
                    n += 1
                    allowed = [a for a in row["allowed"] if a["caller"] == f.path]
                    if not allowed and f.kind == "closure":
                        # a closure belongs to the function it is written in (an iterator adaptor's body, say)
                        owner = re.sub(r"(::\{closure#\d+\})+$", "", f.path)
                        allowed = [dict(a, args={}) for a in row["allowed"] if a["caller"] == owner and not a.get("args")]
                    key = "R-OWN(%s)/%s/%s" % (pid, row["id"], f.path)
                    if not allowed:
                        res.fail(Finding(res.rule, key + "/unlisted-caller", "%s is called from %s, which is not one of the allocator's protocol functions for it (%s): %s" % (
                            c.name.split("::")[-1], f.path, ", ".join(a["caller"].split("::")[-1] for a in row["allowed"]), row["why"]), f, c.term["span"]))
                        continue
                    ok = False
                    for a in allowed:
                        if all(int(i) < len(args) and all(re.search(rxa, x) for x in expand_var(f, args[int(i)], pr)) for i, rxa in a.get("args", {}).items()):
                            ok = True
                    if ok:
                        res.ok({"row": row["id"], "caller": f.path, "args": [x[:50] for x in args[1:3]]}, nontrivial=True)
                    else:
                        res.fail(Finding(res.rule, key + "/unlisted-argument-shape", "%s(%s) in %s does not have one of the protocol's argument shapes: %s" % (
                            c.name.split("::")[-1], ", ".join(x[:50] for x in args[1:]), f.path.split("::")[-1], row["why"]), f, c.term["span"]))
        res.floor("protocol call sites", n, ctx.table("floors").get("own_sites_" + pid, 0))
        return res
    return run
