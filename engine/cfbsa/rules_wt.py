"""R-WT (C02, C17): write-through pairing of every mutation of an in-memory
mirror of on-disk state with a file write of the same datum in the same
operation.  Store sites are enumerated automatically from MIR."""
import re

from cg import op_local, peel
from core import Finding, RuleResult, view
from dataflow import rv_places
from prov import Prov

READERS = ("len", "iter", "last", "first", "get", "is_empty", "contains", "as_slice", "deref", "index", "capacity", "binary_search", "starts_with", "ends_with", "to_vec", "clone", "eq", "ne", "fmt")


def _field_of(place, mirrors):
    """(adt short name, field) if the place designates a mirror field reached through a reference."""
    if not any(e["p"] == "deref" for e in place["proj"]):
        return None
    for e in place["proj"]:
        if e["p"] == "field":
            owner = e.get("owner", "")
            for adt, fields in mirrors.items():
                if owner == adt and e["name"] in fields:
                    return (adt, e["name"])
    return None


def sites(ctx, f, mirrors, entry_adt, entry_accessors):
    """Enumerate mirror store sites of f: dicts with node, field, op, value operand, index operand."""
    out = []
    v = view(ctx, f)
    pr = Prov(f)
    # (1) &mut borrows of a mirror field, consumed by a call
    borrows = {}
    for bb, blk in enumerate(f.blocks):
        if blk["cleanup"]:
            continue
        for i, st in enumerate(blk["stmts"]):
            if st["s"] != "assign":
                continue
            rv = st["rv"]
            if rv["r"] == "ref" and rv["mut"] and not st["place"]["proj"]:
                mf = _field_of(rv["place"], mirrors)
                if mf and rv["place"]["proj"][-1]["p"] == "field":
                    borrows[st["place"]["local"]] = (mf, ("s", bb, i))
            # (3) direct store to a scalar mirror field
            mf = _field_of(st["place"], mirrors)
            if mf and st["place"]["proj"][-1]["p"] == "field" and st["place"]["proj"][-1]["name"] == mf[1]:
                val = rv_places(rv)
                out.append({"node": ("s", bb, i), "field": "%s.%s" % (mf[0].split("::")[-1], mf[1]), "op": "assign", "value": pr._def((bb, i, st), 0, ()), "index": None, "span": st["span"]})
    for bb, c in v.calls.items():
        t = c.term
        if not t["args"]:
            continue
        l = op_local(t["args"][0])
        if l in borrows:
            mf, _ = borrows[l]
            short = c.name.split("::")[-1]
            if short in READERS:
                continue
            site = {"node": ("t", bb), "field": "%s.%s" % (mf[0].split("::")[-1], mf[1]), "op": short, "value": None, "index": None, "span": t["span"], "call": c}
            if short == "push" and len(t["args"]) > 1:
                site["value"] = pr.operand(t["args"][1])
            elif short == "insert" and len(t["args"]) > 2:
                site["index"] = pr.operand(t["args"][1])
                site["value"] = pr.operand(t["args"][2])
            elif short in ("index_mut", "get_mut", "last_mut", "first_mut", "iter_mut"):
                if len(t["args"]) > 1:
                    site["index"] = pr.operand(t["args"][1])
                # find the store through the returned reference
                d = t["dest"]["local"]
                stores, passed = _stores_through(f, d)
                site["op"] = "index_mut"
                if stores:
                    st = stores[0]
                    site["value"] = pr._def((st[0], st[1], st[2]), 0, ())
                    site["node"] = ("s", st[0], st[1])
                    fl = [e["name"] for e in st[2]["place"]["proj"] if e["p"] == "field"]
                    site["subfield"] = fl[-1] if fl else None
                elif passed:
                    site["op"] = "index_mut->passed"
                    site["node"] = ("t", passed[0])
            out.append(site)
    # (2) entry accessors handing out &mut DirEntry
    for bb, c in v.calls.items():
        if c.name in entry_accessors:
            t = c.term
            idx = pr.operand(t["args"][1]) if len(t["args"]) > 1 else None
            d = t["dest"]["local"]
            stores, passed = _stores_through(f, d)
            for st in stores:
                fl = [e["name"] for e in st[2]["place"]["proj"] if e["p"] == "field"]
                out.append({"node": ("s", st[0], st[1]), "field": "Directory.dir_entries", "op": "entry-store", "subfield": fl[-1] if fl else None,
                            "value": pr._def((st[0], st[1], st[2]), 0, ()), "index": idx, "span": st[2]["span"]})
            for pb in passed:
                out.append({"node": ("t", pb), "field": "Directory.dir_entries", "op": "index_mut->passed", "value": None, "index": idx, "span": f.blocks[pb]["term"]["span"]})
    return out


def _stores_through(f, ref_local):
    """Stores `(*r)... = v` through a reference local (following copies/reborrows), and calls the reference is passed to."""
    from dataflow import forward_taint
    refs = forward_taint(f, {ref_local}, through_refs=True)
    stores = []
    passed = []
    for bb, blk in enumerate(f.blocks):
        if blk["cleanup"]:
            continue
        for i, st in enumerate(blk["stmts"]):
            if st["s"] == "assign" and st["place"]["local"] in refs and any(e["p"] == "deref" for e in st["place"]["proj"]):
                stores.append((bb, i, st))
        t = blk["term"]
        if t["t"] == "call" and bb != -1:
            if any(a["k"] in ("copy", "move") and a["place"]["local"] in refs and a["place"]["local"] != ref_local for a in t["args"]):
                nm = t.get("callee_name") or ""
                if nm in ("call_once", "call_mut", "call"):
                    passed.append(bb)
    return stores, passed


def _writes(ctx, f):
    v = view(ctx, f)
    rx = ctx.table("wt").get("writer_callees", "write")
    return [c for c in v.calls.values() if "io_write" in ctx.cg.call_effects(c) and re.search(rx, c.name)]


def run(ctx):
    res = RuleResult("R-WT", "every store to an in-memory mirror of file state is paired, in the same function, with a file write of the same datum (before the store, or on every Ok path after it)")
    tbl = ctx.table("wt")
    mirrors = tbl.get("mirrors", {})
    exceptions = tbl.get("exceptions", {})
    accessors = tbl.get("entry_accessors", [])
    offsets = tbl.get("entry_field_offsets", {})
    skip = set(tbl.get("constructors", []))
    n = 0
    for f in ctx.fx.fns.values():
        if f.path in skip:
            continue
        ss = sites(ctx, f, mirrors, None, accessors)
        if not ss:
            continue
        v = view(ctx, f)
        pg = v.pg
        pr = Prov(f)
        writes = _writes(ctx, f)
        err_all = set(v.all_err_nodes())
        for s in ss:
            n += 1
            key = "R-WT/%s/%s/%s" % (f.path, s["field"], s["op"] + (("." + s["subfield"]) if s.get("subfield") else ""))
            ex = exceptions.get("%s|%s|%s" % (f.path, s["field"], s["op"]))
            if ex:
                # listed exception; optional required companion call
                req = ex.get("requires_call")
                if req and not any(re.search(req, c.name) for c in v.calls.values()):
                    res.fail(Finding("R-WT", key + "/exception-companion-missing", "listed exception (%s) requires a call matching %s in the same function, which is gone" % (ex["reason"], req), f, s["span"]))
                else:
                    res.ok({"function": f.path, "store": s["field"] + " " + s["op"], "pairing": "P3 listed: " + ex["reason"]})
                continue
            # candidate writes: an argument equals the stored value, or is a load of the stored container/place
            cands = []
            wrong_offset = []
            fieldname = s["field"].split(".")[-1]
            for c in writes:
                if c.bb == (s["node"][1] if s["node"][0] == "t" else -1):
                    continue
                argps = [pr.operand(a) for a in c.term["args"]]
                hit = None
                if s["field"] != "Directory.dir_entries" and s["value"] is not None and any(a == s["value"] for a in argps):
                    hit = "same value"
                elif s["field"] != "Directory.dir_entries" and any((re.search(r"param:self\.%s\b" % re.escape(fieldname), a) if not (s["op"] == "push" and s["value"] is not None) else re.match(r"^(cast\()?(deref\()?(ok\()?(param:self\.%s\b|Index<I>::index\(param:self\.%s,|<impl \[T\]>::last\(param:self\.%s\))" % ((re.escape(fieldname),) * 3), a)) for a in argps):
                    # (for a push, only the element itself read back from the table counts: the table's LENGTH, or an expression
                    # that merely mentions the table, is another datum)
                    hit = "load of the stored field"
                elif s["field"] == "Directory.dir_entries":
                    if re.search(r"write_dir_entry$", c.name) and s["index"] is not None and len(argps) > 1 and argps[1] == s["index"]:
                        hit = "write_dir_entry(same id)"
                    elif re.search(r"DirEntry::write_to$", c.name) and s["value"] is not None and argps and argps[0] == s["value"] and s["index"] is not None and any(s["index"] in a and "seek_to_dir_entry" in a for a in argps[1:]):
                        hit = "entry.write_to(seek_to_dir_entry(same id))"
                    elif re.search(r"write_le_u32$", c.name) and s.get("subfield") and s["value"] is not None and len(argps) > 1 and argps[1] == s["value"]:
                        m = re.search(r"seek_within_dir_entry\(param:self,(.*),const:(\d+)\)", argps[0])
                        if m and m.group(1) == s["index"]:
                            want = offsets.get(s["subfield"])
                            if want is not None and int(m.group(2)) != want:
                                wrong_offset.append((c, m.group(2), want))
                            else:
                                hit = "seek_within_dir_entry(same id, %s) + write_le_u32(same value)" % m.group(2)
                if hit:
                    cands.append((c, hit))
            if s["op"] == "index_mut->passed":
                # a closure mutates the slot; the same function must write that slot back
                for c in writes:
                    argps = [pr.operand(a) for a in c.term["args"]]
                    if re.search(r"write_dir_entry$", c.name) and len(argps) > 1 and argps[1] == s["index"]:
                        cands.append((c, "write_dir_entry(same id) after the closure"))
            if not cands and wrong_offset:
                c, got, want = wrong_offset[0]
                res.fail(Finding("R-WT", key + "/wrong-offset", "the in-place write for field %s seeks to offset %s within the entry, the field lives at %d" % (s["subfield"], got, want), f, c.term["span"]))
                continue
            if not cands:
                res.fail(Finding("R-WT", key + "/no-paired-write", "mirror %s is changed (%s%s) and no file write of the same datum exists in this function: the bytes on disk would reopen to a different state" % (
                    s["field"], s["op"], (" := " + s["value"][:60]) if s["value"] else ""), f, s["span"]))
                continue
            oks = set()
            for c, _ in cands:
                oks.update(v.ok_nodes(c.bb) or [("t", c.bb)])
            before = s["node"] not in pg.reach([pg.entry()], oks)
            after_reach = pg.reach_after(s["node"], oks | err_all)
            after = not any(r in after_reach for r in pg.returns())
            res.__dict__.setdefault("orders", []).append({"function": f.path, "field": s["field"], "op": s["op"] + (("." + s["subfield"]) if s.get("subfield") else ""), "order": "precedes" if before else ("follows" if after else "unpaired"), "span": s["span"], "fn": f})
            if before or after:
                res.ok({"function": f.path, "store": "%s %s" % (s["field"], s["op"] + (("." + s["subfield"]) if s.get("subfield") else "")), "pairing": cands[0][1], "write": cands[0][0].name.split("::")[-1], "order": "write precedes" if before else "write follows on every Ok path"}, nontrivial=True)
            else:
                p = pg.path(s["node"], [r for r in pg.returns() if r in after_reach], oks | err_all)
                res.fail(Finding("R-WT", key + "/write-not-on-all-paths", "mirror %s is changed (%s) but an Ok path reaches return without the paired write (%s)" % (s["field"], s["op"], cands[0][1]), f, s["span"], path=pg.fmt_path(p) if p else None))
    res.floor("mirror store sites", n, ctx.table("floors").get("wt_sites", 0))
    return res


def order(ctx):
    """R-WTORDER (C13): cells of the FAT / MiniFAT (and the MiniFAT start) are written to the file only when they
    change, and a retried operation walks the chains through the in-memory tables.  A cell updated in memory
    before its file write would, after a failed write, never be written again - so the file write comes first."""
    base = ctx.__dict__.get("_wt_result")
    if base is None:
        base = ctx.__dict__["_wt_result"] = run(ctx)
    tbl = ctx.table("wt")
    first = tbl.get("disk_first", {})
    res = RuleResult("R-WTORDER", "for tables whose cells are written only on change (FAT, MiniFAT, MiniFAT start) the file write precedes the in-memory update at every store site: a failed write leaves memory no further than the file, so a retried flush writes the cell again")
    n = 0
    for o in getattr(base, "orders", []):
        why_ = first.get(o["field"])
        if why_ is None and re.search(r"\.(left_sibling|right_sibling|child)$", o["op"]):
            why_ = first.get("%s@%s" % (o["field"], o["function"]))      # link stores of one listed function
        if why_ is None:
            continue
        n += 1
        key = "R-WTORDER/%s/%s/%s" % (o["function"], o["field"], o["op"])
        if o["order"] == "precedes":
            res.ok({"function": o["function"], "store": o["field"] + " " + o["op"], "order": "file write first"}, nontrivial=True)
        else:
            res.fail(Finding("R-WTORDER", key + "/memory-updated-before-file", "%s is updated in memory (%s) before the matching file write: if that write fails the call reports the error, but a retry finds the cell already set in memory and never writes it, so a later flush returns Ok for data the file does not link (%s)" % (o["field"], o["op"], why_), o["fn"], o["span"]))
    res.floor("write-on-change store sites", n, ctx.table("floors").get("wtorder_sites", 0))
    return res


def reverse(pid):
    """R-TW (the converse of R-WT for the directory links): a link field that is patched in the FILE in place
    (seek_within_dir_entry(id, 68 / 72 / 76) + write_le_u32(v)) gets the same value in the cached entry, in the same
    function.  A file patch without the cache update leaves the live object walking the old link (into a slot that is
    about to be released) while the file says something else - and the next whole-entry rewrite of that entry puts the
    stale link back into the file."""
    from dataflow import forward_taint

    def run(ctx):
        res = RuleResult("R-TW(%s)" % pid, "every in-place file patch of a sibling / child link in the directory layer is accompanied, in the same function, by the store of the same value into the cached entry's same link")
        offsets = {68: "left_sibling", 72: "right_sibling", 76: "child"}
        accessors = ctx.table("reloc").get("entry_accessors", [])
        n = 0
        for f in ctx.fx.fns.values():
            if not f.path.startswith("internal::directory::"):
                continue
            v = view(ctx, f)
            pg = v.pg
            pr = Prov(f)
            stores = []
            for a in [c for c in v.calls.values() if c.name in accessors and c.name.endswith("_mut") and len(c.term["args"]) > 1]:
                refs = forward_taint(f, {a.term["dest"]["local"]})
                for bb, blk in enumerate(f.blocks):
                    if blk["cleanup"]:
                        continue
                    for i, st in enumerate(blk["stmts"]):
                        if st["s"] == "assign" and st["place"]["local"] in refs and st["place"]["proj"] and st["place"]["proj"][-1].get("p") == "field" and st["place"]["proj"][-1].get("name") in offsets.values():
                            stores.append((pr.operand(a.term["args"][1]), st["place"]["proj"][-1]["name"], pr._def((bb, i, st), 0, ()), ("s", bb, i)))
            err_all = set(v.all_err_nodes())
            for bb, c in sorted(v.calls.items()):
                if not c.name.endswith("write_le_u32") or len(c.term["args"]) < 2:
                    continue
                m = re.search(r"seek_within_dir_entry\(param:self,(.*),const:(\d+)\)", pr.operand(c.term["args"][0]))
                if not m or int(m.group(2)) not in offsets:
                    continue
                n += 1
                idv, fld, val = m.group(1), offsets[int(m.group(2))], pr.operand(c.term["args"][1])
                cands = {nd for (i2, f2, v2, nd) in stores if i2 == idv and f2 == fld and v2 == val}
                key = "R-TW/%s/%s" % (f.path, fld)
                if not cands:
                    res.fail(Finding(res.rule, key + "/file-patched-cache-not", "%s patches the %s link of entry %s in the file (line %d) and never stores the same value into the cached entry: the live object keeps following the old link" % (f.path.split("::")[-1], fld.split("_")[0], idv[:40], c.line), f, c.term["span"]))
                    continue
                before = ("t", bb) not in pg.reach([pg.entry()], cands)
                after_reach = pg.reach_after(("t", bb), cands | err_all)
                after = not any(r in after_reach for r in pg.returns())
                if before or after:
                    res.ok({"function": f.path, "link": fld, "entry": idv[:40], "cache_store": "precedes" if before else "follows on every Ok path"}, nontrivial=True)
                else:
                    res.fail(Finding(res.rule, key + "/cache-store-not-on-all-paths", "%s patches the %s link of entry %s in the file (line %d); the matching store into the cached entry is not on every path" % (f.path.split("::")[-1], fld.split("_")[0], idv[:40], c.line), f, c.term["span"]))
            # whole entries: an entry VALUE written over a slot of the file (entry.write_to(seek_to_dir_entry(id))) is
            # also stored into the cached table at that slot
            for bb, c in sorted(v.calls.items()):
                if not c.name.endswith("DirEntry::write_to") or len(c.term["args"]) < 2:
                    continue
                a0 = pr.operand(c.term["args"][0])
                m = re.search(r"seek_to_dir_entry\(param:self,(.*?)\)\)*$", pr.operand(c.term["args"][1]))
                if not m or re.search(r"param:self\.dir_entries", a0):
                    continue        # the cached entry itself is being written back
                n += 1
                idv = m.group(1)
                wstores = set()
                for a in [x for x in v.calls.values() if x.name in accessors and x.name.endswith("_mut") and len(x.term["args"]) > 1 and pr.operand(x.term["args"][1]) == idv]:
                    refs = forward_taint(f, {a.term["dest"]["local"]})
                    for bb2, blk2 in enumerate(f.blocks):
                        if blk2["cleanup"]:
                            continue
                        for i2, st2 in enumerate(blk2["stmts"]):
                            if st2["s"] == "assign" and st2["place"]["local"] in refs and [e["p"] for e in st2["place"]["proj"]] == ["deref"] and pr._def((bb2, i2, st2), 0, ()) == a0:
                                wstores.add(("s", bb2, i2))
                key = "R-TW/%s/whole-entry" % f.path
                after_reach = pg.reach_after(("t", bb), wstores | err_all)
                if wstores and (("t", bb) not in pg.reach([pg.entry()], wstores) or not any(r in after_reach for r in pg.returns())):
                    res.ok({"function": f.path, "entry_value": a0[:50], "slot": idv[:40], "cache_store": True}, nontrivial=True)
                else:
                    res.fail(Finding(res.rule, key + "/file-written-cache-not", "%s writes the entry value %s over slot %s of the file (line %d) but does not store it into the cached table on every path: the live object still sees the old entry in that slot (a released slot stays 'allocated' and is never reused)" % (f.path.split("::")[-1], a0[:50], idv[:40], c.line), f, c.term["span"]))
        res.floor("in-place link patches", n, ctx.table("floors").get("tw_sites", 0))
        return res
    return run
