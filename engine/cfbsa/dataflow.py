"""Small intraprocedural dataflow helpers over the reduced MIR."""


def rv_operands(rv):
    k = rv["r"]
    if k in ("use", "cast", "repeat"):
        return [rv["op"]]
    if k == "binop":
        return [rv["a"], rv["b"]]
    if k == "unop":
        return [rv["a"]]
    if k == "aggregate":
        return list(rv["ops"])
    return []


def rv_places(rv):
    """Places read by an rvalue (operands, borrowed place, discriminant place)."""
    out = [o["place"] for o in rv_operands(rv) if o["k"] in ("copy", "move")]
    if rv["r"] in ("ref", "rawptr", "discriminant"):
        out.append(rv["place"])
    return out


def forward_taint(fn, seeds, through_calls=False, through_refs=True):
    """Flow-insensitive forward closure: locals whose value is computed from
    a seed local by assignments (use/cast/binop/unop/aggregate/ref) and,
    optionally, by calls that take a tainted argument."""
    t = set(seeds)
    changed = True
    while changed:
        changed = False
        for blk in fn.blocks:
            if blk["cleanup"]:
                continue
            for st in blk["stmts"]:
                if st["s"] != "assign":
                    continue
                rv = st["rv"]
                if rv["r"] in ("ref", "rawptr") and not through_refs:
                    continue
                src = [p["local"] for p in rv_places(rv)]
                if any(l in t for l in src):
                    d = st["place"]["local"]
                    if d not in t:
                        t.add(d)
                        changed = True
            term = blk["term"]
            if through_calls and term["t"] == "call":
                if any(a["k"] in ("copy", "move") and a["place"]["local"] in t for a in term["args"]):
                    d = term["dest"]["local"]
                    if d not in t:
                        t.add(d)
                        changed = True
    return t


def forward_taint_fields(fn, seeds, through_calls=True):
    """forward_taint that keeps the parts of tuples / structs / Ok(..) values apart: returns the set of locals that hold
    (as a whole, or in the part that is read from them) a value computed from a seed.  `let (a, b) = helper()?` where
    the helper returns `Ok((x, y))`: a is tainted by x only."""
    T = {l: {()} for l in seeds}

    def fields_of(proj):
        out, var = [], None
        for e in proj:
            if e.get("p") == "downcast":
                var = e.get("variant")
            elif e.get("p") == "field" and isinstance(e.get("i"), int):
                out.append((var, e["i"]))
                var = None
        return tuple(out)

    def read(place):
        """Paths (relative to the value read) under which the place is tainted; None if it is not."""
        ps = T.get(place["local"])
        if not ps:
            return None
        fp = fields_of(place["proj"])
        out = set()
        for p in ps:
            if p[:len(fp)] == fp:
                out.add(p[len(fp):])
            elif fp[:len(p)] == p:
                out.add(())
        return out or None

    def add(l, paths):
        cur = T.setdefault(l, set())
        n = len(cur)
        cur |= paths
        if () in cur and len(cur) > 1:
            cur.intersection_update({()})
            cur.add(())
        return len(cur) != n
    changed = True
    while changed:
        changed = False
        for blk in fn.blocks:
            if blk["cleanup"]:
                continue
            for st in blk["stmts"]:
                if st["s"] != "assign":
                    continue
                rv = st["rv"]
                d = st["place"]["local"]
                dfp = fields_of(st["place"]["proj"])
                if rv["r"] in ("use", "cast") and rv["op"]["k"] in ("copy", "move"):
                    r = read(rv["op"]["place"])
                    if r:
                        changed |= add(d, {dfp + p for p in r})
                elif rv["r"] in ("ref", "rawptr"):
                    r = read(rv["place"])
                    if r:
                        changed |= add(d, {dfp + p for p in r})
                elif rv["r"] == "aggregate":
                    for i, o in enumerate(rv.get("ops", [])):
                        if o["k"] in ("copy", "move"):
                            r = read(o["place"])
                            if r:
                                var = rv.get("variant") if rv.get("agg") == "adt" and rv.get("variant") in ("Ok", "Err", "Some", "None", "Continue", "Break") else None
                                changed |= add(d, {dfp + ((var, i),) + p for p in r})
                else:
                    if any(read(pl) for pl in rv_places(rv)):
                        changed |= add(d, {dfp})
            t = blk["term"]
            if t["t"] == "call" and through_calls:
                nm = (t.get("callee") or "") + " " + (t.get("resolved") or "")
                if ("Try>::branch" in nm or "Try::branch" in nm) and t["args"] and t["args"][0]["k"] in ("copy", "move"):
                    r = read(t["args"][0]["place"])      # Ok(v) -> Continue(v): the payload keeps its place
                    if r:
                        conv = set()
                        for p in r:
                            if p and p[0][0] in ("Ok", "Some"):
                                conv.add((("Continue", p[0][1]),) + p[1:])
                            elif p and p[0][0] in ("Err", "None"):
                                conv.add((("Break", 0),))
                            else:
                                conv.add(p)
                        changed |= add(t["dest"]["local"], conv)
                elif "from_residual" in nm:
                    if any(a["k"] in ("copy", "move") and read(a["place"]) for a in t["args"]):
                        changed |= add(t["dest"]["local"], {fields_of(t["dest"]["proj"]) + (("Err", 0),)})       # the residual of a `?` is an Err
                elif any(a["k"] in ("copy", "move") and read(a["place"]) for a in t["args"]):
                    changed |= add(t["dest"]["local"], {fields_of(t["dest"]["proj"])})
    return set(T)


def assigned_locals(fn):
    """local -> list of (bb, idx|'t', stmt-or-term) definitions."""
    defs = {}
    for bb, blk in enumerate(fn.blocks):
        if blk["cleanup"]:
            continue
        for i, st in enumerate(blk["stmts"]):
            if st["s"] == "assign" and not st["place"]["proj"]:
                defs.setdefault(st["place"]["local"], []).append((bb, i, st))
        t = blk["term"]
        if t["t"] == "call" and not t["dest"]["proj"]:
            defs.setdefault(t["dest"]["local"], []).append((bb, "t", t))
    return defs
