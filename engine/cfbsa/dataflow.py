"""Small intraprocedural dataflow helpers over the reduced MIR."""


def rv_operands(rv):
    k = rv["r"]
    if k in ("use", "cast", "repeat"):
        return [rv["op"]]
    if k == "binop":
        return [rv["a"], rv["b"]]
    if k == "unop":
        return [rv["a"]]
    if k == "aggregate":
        return list(rv["ops"])
    return []


def rv_places(rv):
    """Places read by an rvalue (operands, borrowed place, discriminant place)."""
    out = [o["place"] for o in rv_operands(rv) if o["k"] in ("copy", "move")]
    if rv["r"] in ("ref", "rawptr", "discriminant"):
        out.append(rv["place"])
    return out


def forward_taint(fn, seeds, through_calls=False, through_refs=True):
    """Flow-insensitive forward closure: locals whose value is computed from
    a seed local by assignments (use/cast/binop/unop/aggregate/ref) and,
    optionally, by calls that take a tainted argument."""
    t = set(seeds)
    changed = True
    while changed:
        changed = False
        for blk in fn.blocks:
            if blk["cleanup"]:
                continue
            for st in blk["stmts"]:
                if st["s"] != "assign":
                    continue
                rv = st["rv"]
                if rv["r"] in ("ref", "rawptr") and not through_refs:
                    continue
                src = [p["local"] for p in rv_places(rv)]
                if any(l in t for l in src):
                    d = st["place"]["local"]
                    if d not in t:
                        t.add(d)
                        changed = True
            term = blk["term"]
            if through_calls and term["t"] == "call":
                if any(a["k"] in ("copy", "move") and a["place"]["local"] in t for a in term["args"]):
                    d = term["dest"]["local"]
                    if d not in t:
                        t.add(d)
                        changed = True
    return t


def assigned_locals(fn):
    """local -> list of (bb, idx|'t', stmt-or-term) definitions."""
    defs = {}
    for bb, blk in enumerate(fn.blocks):
        if blk["cleanup"]:
            continue
        for i, st in enumerate(blk["stmts"]):
            if st["s"] == "assign" and not st["place"]["proj"]:
                defs.setdefault(st["place"]["local"], []).append((bb, i, st))
        t = blk["term"]
        if t["t"] == "call" and not t["dest"]["proj"]:
            defs.setdefault(t["dest"]["local"], []).append((bb, "t", t))
    return defs
