"""Structural agreement rules added after the second round of seeded changes.

R-CUTOFF  (C03, C07)  every comparison with MINI_STREAM_CUTOFF has the same sense (len < CUTOFF <=> mini stream)
R-UNIT    (C03, C09)  the length key of compare_names is counted in UTF-16 code units (or bytes under an is_ascii guard)
R-FRESHID (C02, C03)  two sector ids taken from the length of the same table are separated by a growth of that table
"""
import re

from cg import op_local, peel
from core import Finding, RuleResult, view, numeric
from prov import Prov


def _guards(ctx, f):
    from rules_sink import guards
    return guards(ctx, f)


def _edges(f):
    from rules_sink import _edge_label
    for b, blk in enumerate(f.blocks):
        if blk["cleanup"] or blk["term"]["t"] != "switch":
            continue
        for k, tgt in enumerate(f.succ(b)):
            val, vals = _edge_label(f, b, k)
            yield b, k, val, vals


# ---------------------------------------------------------------------------
def cutoff(ctx):
    res = RuleResult("R-CUTOFF", "every test against MINI_STREAM_CUTOFF reads `len < CUTOFF` (mini stream) or `len >= CUTOFF` (regular chain): all sites classify a stream of exactly CUTOFF bytes the same way")
    C = "const:MINI_STREAM_CUTOFF"
    n = 0
    flagged = set()
    for f in ctx.fx.fns.values():
        g = None
        for b, k, val, vals in _edges(f):
            g = g or _guards(ctx, f)
            atoms = g.describe_all(b, val, vals)
            rel = [a for a in atoms if C in a and re.match(r"^\((Lt|Le|Gt|Ge)\(", a)]
            if not rel:
                continue
            n += 1
            bad = [a for a in rel if re.match(r"^\((Le|Gt)\(.*,%s\)\)$" % re.escape(C), a) or re.match(r"^\((Lt|Ge)\(%s,.*\)\)$" % re.escape(C), a)]
            key = "R-CUTOFF/%s/%s" % (f.path, "off-by-one-at-cutoff")
            if bad and (f.path, b) in flagged:
                continue
            if bad:
                flagged.add((f.path, b))
                res.fail(Finding("R-CUTOFF", key, "test %s puts a stream of exactly MINI_STREAM_CUTOFF bytes on the mini-stream side, every other site puts it in a regular chain (`<` / `>=`); the stream's start sector would be read as the other kind of id" % bad[0][:140], f, f.blocks[b]["term"]["span"]))
            else:
                res.ok({"function": f.path, "line": f.blocks[b]["term"]["span"]["line"], "test": rel[0][:120]}, nontrivial=True)
    res.floor("cutoff tests", n, ctx.table("floors").get("cutoff_sites", 0))
    return res


# ---------------------------------------------------------------------------
def unit(ctx):
    res = RuleResult("R-UNIT", "compare_names orders by length in UTF-16 code units: every usize length key it compares is a count over encode_utf16() (or a sum of char::len_utf16), or a byte length taken under is_ascii() of both names")
    f = ctx.fx.fns.get(ctx.table("orient").get("comparator", "internal::path::compare_names"))
    n = 0
    if f is None:
        res.gone.append("compare_names")
        res.floor("length-key comparisons", 0, ctx.table("floors").get("unit_sites", 0))
        return res
    v = view(ctx, f)
    pr = Prov(f)
    g = _guards(ctx, f)
    for bb, c in sorted(v.calls.items()):
        if not re.search(r"Ord for usize>::cmp$|PartialOrd for usize>::partial_cmp$", c.name):
            continue
        n += 1
        ops = [pr.operand(a) for a in c.term["args"][:2]]
        atoms = g.atoms_at(("t", bb))
        bad = None
        for o in ops:
            if "encode_utf16(" in o or re.search(r"sum\(.*map\(.*chars\(.*len_utf16", o):
                continue
            m = re.match(r"^len\((param:\w+)\)$", o)
            if m and any(re.search(r"is_ascii\(%s\)" % re.escape(m.group(1)), a) and " is not " not in a and not a.startswith("(Not") and "is false" not in a for a in atoms):
                continue
            bad = o
        key = "R-UNIT/%s/length-key" % f.path
        if bad:
            res.fail(Finding("R-UNIT", key, "length key %s is not a number of UTF-16 code units (a supplementary-plane character is one char but two units): sibling order differs from MS-CFB order" % bad[:120], f, c.term["span"]))
        else:
            res.ok({"function": f.path, "line": c.line, "keys": [o[:80] for o in ops]}, nontrivial=True)
    # integer relations on lengths (a rewritten comparison): same requirement
    for b, k, val, vals in _edges(f):
        for a in g.describe_all(b, val, vals):
            m = re.match(r"^\((Lt|Le|Gt|Ge|Eq|Ne)\((.*)\)\)$", a)
            if m and ("count(" in a or "len(" in a) and "chars(" in a and "encode_utf16(" not in a and "len_utf16" not in a:
                n += 1
                res.fail(Finding("R-UNIT", "R-UNIT/%s/length-key" % f.path, "length test %s counts characters, not UTF-16 code units" % a[:120], f, f.blocks[b]["term"]["span"]))
    # the order among names of equal length: MS-CFB 2.6.4 compares upper-cased UTF-16 code units.  A sequence of chars
    # (scalar values) orders differently as soon as a supplementary-plane character (a surrogate pair, 0xD800..0xDFFF)
    # meets a character in U+E000..U+FFFF.  Positive evidence only: both operands of a sequence comparison are the
    # chars() of a name passed through map(..) steps and nothing else.
    nk = 0
    for bb, c in sorted(v.calls.items()):
        seq = re.search(r"iter::Iterator::(cmp|partial_cmp|lt|le|gt|ge|eq|ne|cmp_by)$", c.name)
        one = re.search(r"Ord for char>::cmp$|PartialOrd for char>::partial_cmp$", c.name)
        if not (seq or one):
            continue
        ops = [pr.operand(a) for a in c.term["args"][:2]]
        atoms = g.atoms_at(("t", bb))
        if any(re.search(r"is_ascii\(param:\w+\)", a) and " is not " not in a and not a.startswith("(Not") and "is false" not in a for a in atoms):
            continue
        nk += 1
        chars_only = r"^(Iterator::map\()*<impl str>::chars\(param:\w+\)(,[^(),]+\))*$"
        key = "R-UNIT/%s/order-key" % f.path
        if seq and all(re.match(chars_only, o) for o in ops):
            res.fail(Finding("R-UNIT", key, "names of equal length are ordered by comparing their chars (%s): MS-CFB orders by upper-cased UTF-16 code UNITS, and a character outside the BMP (a surrogate pair, 0xD800..0xDFFF) sorts before U+E000..U+FFFF there but after them as a scalar value - listings come out in the wrong order and a sibling tree ordered as the specification says is refused as 'name ordering'" % ops[0][:100], f, c.term["span"]))
        elif one and not any("encode_utf16" in o or "utf16" in o for o in ops):
            res.fail(Finding("R-UNIT", key, "names of equal length are ordered by comparing chars one by one (%s): MS-CFB orders by upper-cased UTF-16 code units" % ops[0][:100], f, c.term["span"]))
        else:
            verdict = "code units" if all(("utf16" in o) for o in ops) else "no verdict (not a plain sequence of chars)"
            res.ok({"function": f.path, "line": c.line, "order_keys": [o[:100] for o in ops], "verdict": verdict}, nontrivial=True)
    res.floor("length-key comparisons", n, ctx.table("floors").get("unit_sites", 0))
    res.floor("order-key comparisons outside the ASCII path", nk, ctx.table("floors").get("unit_order_sites", 0))
    return res


# ---------------------------------------------------------------------------
def freshid(ctx):
    """R-FRESHID: `self.fat.len()` is the id of the sector appended next.  Two ids taken that way must be
    separated by the growth of the table caused by entering the first one (set_fat(id, ..) pushes when id == len)."""
    from dataflow import forward_taint
    res = RuleResult("R-FRESHID", "a sector id taken as the current length of the FAT (or MiniFAT) is entered in that table before another id is taken the same way: two live objects never get the same sector")
    tables = {"fat": r"(set_fat|Vec::<T, A>::push)$", "minifat": r"(set_minifat|Vec::<T, A>::push)$"}
    users = r"(init_sector|set_fat|set_minifat|append_mini_sector|Vec::<T, A>::push)$"
    n = 0
    for f in ctx.fx.fns.values():
        v = view(ctx, f)
        pr = None
        takes = []
        for bb, c in sorted(v.calls.items()):
            if not c.name.endswith("Vec::<T, A>::len") or not c.term["args"]:
                continue
            pr = pr or Prov(f)
            m = re.match(r"^param:self\.(fat|minifat)$", pr.operand(c.term["args"][0]))
            if not m or c.term["dest"]["proj"]:
                continue
            taint = forward_taint(f, {c.term["dest"]["local"]}, through_refs=False)
            uses = []
            for b2, c2 in v.calls.items():
                if re.search(users, c2.name):
                    for i, a in enumerate(c2.term["args"][1:], 1):
                        if a["k"] in ("copy", "move") and not a["place"]["proj"] and a["place"]["local"] in taint:
                            uses.append((b2, c2, i))
            if uses:
                takes.append((bb, c, m.group(1), taint, uses))
        for (bb1, c1, tab1, taint1, uses1) in takes:
            n += 1
            growers = set()
            for b2, c2 in v.calls.items():
                if re.search(tables[tab1], c2.name) and c2.term["args"]:
                    a0 = (pr.operand(c2.term["args"][0]))
                    if c2.name.endswith("push"):
                        if a0 == "param:self." + tab1:
                            growers.add(("t", b2))
                    elif len(c2.term["args"]) > 1 and c2.term["args"][1]["k"] in ("copy", "move") and c2.term["args"][1]["place"]["local"] in taint1:
                        growers.add(("t", b2))
            after = v.pg.reach_after(("t", bb1), avoid=growers)
            clash = [t for t in takes if t[2] == tab1 and ("t", t[0]) in after]
            key = "R-FRESHID/%s/%s" % (f.path, tab1)
            # one length read names one new sector: two init_sector calls fed by the same read, one after the other,
            # initialise the same sector twice (the second `new` sector takes the number the first was just given)
            inits = [(b2, c2) for (b2, c2, i) in uses1 if c2.name.endswith("init_sector")]
            twice = [(x, y) for x in inits for y in inits if x[0] != y[0] and ("t", y[0]) in v.pg.reach_after(("t", x[0]))]
            if twice:
                res.fail(Finding("R-FRESHID", key + "/one-id-two-new-sectors", "the id taken from self.%s.len() at line %d is given to init_sector at line %d and again at line %d: the second new sector gets the number the first one was just given, so one sector has two owners" % (tab1, c1.line, twice[0][0][1].line, twice[0][1][1].line), f, twice[0][1][1].term["span"]))
                continue
            if clash:
                t2 = clash[0]
                res.fail(Finding("R-FRESHID", key + "/second-id-before-first-entered",
                                 "the id taken from self.%s.len() at line %d (used by %s) is not yet entered in the table when self.%s.len() is read again at line %d (used by %s): both objects get the same sector id" % (
                                     tab1, c1.line, uses1[0][1].name.split("::")[-1], tab1, t2[1].line, t2[4][0][1].name.split("::")[-1]), f, t2[1].term["span"]))
            else:
                res.ok({"function": f.path, "table": tab1, "line": c1.line, "entered_by": sorted(f.blocks[g[1]]["term"]["span"]["line"] for g in growers)[:3]}, nontrivial=True)
    res.floor("fresh-id sites", n, ctx.table("floors").get("freshid_sites", 0))
    return res


# ---------------------------------------------------------------------------
def freelist(ctx):
    """R-FREELIST: allocate_(mini_)sector indexes the table with ids popped from the free list without a bounds
    test, relying on `every free-list id < table.len()`.  Whoever shortens the table must re-establish that."""
    res = RuleResult("R-FREELIST", "after the cached FAT / MiniFAT is shortened (pop, truncate, ...) the matching free list is filtered or rebuilt (retain / clear) before the function returns: no free-list id is left pointing past the end of the table")
    pairs = {"minifat": "free_mini_sectors", "fat": "free_sectors"}
    shrink = ("pop", "truncate", "clear", "remove", "swap_remove", "drain", "split_off", "retain", "resize", "dedup")
    n = 0
    for f in ctx.fx.fns.values():
        v = view(ctx, f)
        pr = None
        for bb, c in sorted(v.calls.items()):
            short = c.name.split("::")[-1]
            if short not in shrink or not c.name.startswith("std::vec::Vec") and "Vec::<" not in c.name:
                continue
            if not c.term["args"]:
                continue
            pr = pr or Prov(f)
            m = re.match(r"^param:self\.(fat|minifat)$", pr.operand(c.term["args"][0]))
            if not m:
                continue
            n += 1
            fl = pairs[m.group(1)]
            fixes = set()
            for b2, c2 in v.calls.items():
                if c2.name.split("::")[-1] in ("retain", "clear") and c2.term["args"] and pr.operand(c2.term["args"][0]) == "param:self." + fl:
                    fixes.add(("t", b2))
                # `let old = mem::take(&mut self.list); for id in old { if id < len { self.list.push(id) } }`: the list is
                # emptied, what goes back on it is judged where it is pushed (R-OWN)
                if c2.name.split("::")[-1] in ("take", "replace") and "mem::" in c2.name and c2.term["args"] and pr.operand(c2.term["args"][0]) == "param:self." + fl:
                    fixes.add(("t", b2))
            after = v.pg.reach_after(("t", bb), avoid=fixes | set(v.all_err_nodes()))
            rets = [x for x in after if x[0] == "t" and f.blocks[x[1]]["term"]["t"] == "return"]
            key = "R-FREELIST/%s/%s-%s" % (f.path, m.group(1), short)
            if rets and short == "truncate" and len(c.term["args"]) > 1:
                # roll-back to a length snapshot: the table returns to the length it had at a dominating
                # `len()` call, and nothing executed in between can have put an id on the free list
                snap = _snapshot_rollback(ctx, f, v, pr, c, m.group(1), fl)
                if snap:
                    res.ok({"function": f.path, "shrink": "%s.truncate line %d" % (m.group(1), c.line), "rollback_to_snapshot_at_line": snap}, nontrivial=True)
                    continue
            if not rets:
                # an error exit taken between the shrink and the filter leaves the same stale id behind, for the next
                # call to trip over
                after_e = v.pg.reach_after(("t", bb), avoid=fixes)
                rets_e = [x for x in after_e if x[0] == "t" and f.blocks[x[1]]["term"]["t"] == "return"]
                if rets_e and not _only_from_constructors(ctx, f) and not (short == "truncate" and len(c.term["args"]) > 1 and _snapshot_rollback(ctx, f, v, pr, c, m.group(1), fl)):
                    res.fail(Finding("R-FREELIST", key + "/free-list-not-refiltered-on-error-exit", "self.%s.%s() shortens the table and an error exit can leave the function before retain()/clear() on self.%s: after the failed call an id left in the free list indexes past the end of the table at the next allocation (index out of bounds)" % (m.group(1), short, fl), f, c.term["span"]))
                    continue
            if rets:
                res.fail(Finding("R-FREELIST", key + "/free-list-not-refiltered", "self.%s.%s() shortens the table and the function can return without retain()/clear() on self.%s: an id left in the free list indexes past the end of the table at the next allocation (index out of bounds)" % (m.group(1), short, fl), f, c.term["span"]))
            else:
                res.ok({"function": f.path, "shrink": "%s.%s line %d" % (m.group(1), short, c.line), "refiltered_at": sorted(f.blocks[x[1]]["term"]["span"]["line"] for x in fixes)}, nontrivial=True)
    res.floor("table shrink sites", n, ctx.table("floors").get("freelist_sites", 0))
    return res


def _only_from_constructors(ctx, f):
    """Every caller of f builds the object f works on (it returns Result<Self, _>): when f fails, the object is
    never handed out, so what an error exit leaves behind in it is seen by nobody."""
    adt = peel(f.d.get("impl_self", {})).get("adt")
    callers = [g for g in ctx.fx.fns.values() if any(f in c.targets for c in ctx.cg.calls[g.path])]
    if not adt or not callers:
        return False
    for g in callers:
        r = g.locals[0]
        if not (r.get("adt") == "std::result::Result" and r.get("args") and isinstance(r["args"][0], dict) and r["args"][0].get("adt") == adt):
            return False
    return True


def _pushes_free_list(ctx, fl):
    """Functions that (transitively) push onto the named free list."""
    cache = ctx.__dict__.setdefault("_fl_pushers", {})
    if fl in cache:
        return cache[fl]
    direct = set()
    for f in ctx.fx.fns.values():
        v = view(ctx, f)
        pr = None
        for c in v.calls.values():
            if c.name.split("::")[-1] in ("push", "insert", "extend", "extend_from_slice", "append") and c.term["args"]:
                pr = pr or Prov(f)
                if pr.operand(c.term["args"][0]).endswith("." + fl):
                    direct.add(f.path)
    out = set(direct)
    changed = True
    while changed:
        changed = False
        for p, f in ctx.fx.fns.items():
            if p in out:
                continue
            for c in ctx.cg.calls[p]:
                if any(g.path in out for g in c.all_targets()):
                    out.add(p)
                    changed = True
                    break
    cache[fl] = out
    return out


def _snapshot_rollback(ctx, f, v, pr, trunc, table, fl):
    a = trunc.term["args"][1]
    if a["k"] not in ("copy", "move"):
        return None
    # (a projected place is a value captured by a closure that was lowered into this function: judged by its base)
    from dataflow import forward_taint
    pushers = _pushes_free_list(ctx, fl)
    for bb, c in v.calls.items():
        if c.name.endswith("Vec::<T, A>::len") and c.term["args"] and pr.operand(c.term["args"][0]) == "param:self." + table and not c.term["dest"]["proj"]:
            d = c.term["dest"]["local"]
            # the truncate argument is exactly that snapshot (copies only, no arithmetic)
            # (a snapshot captured by reference by a closure that was lowered into this function is read through
            # the reference: the provenance already says it is the bare length)
            if pr.operand(a) != "len(param:self.%s)" % table or (a["place"]["local"] not in forward_taint(f, {d}, through_refs=False) and a["place"]["local"] not in forward_taint(f, {d}, through_refs=True)):
                continue
            # the snapshot dominates the truncate
            if ("t", trunc.bb) in v.pg.reach([v.pg.entry()], avoid={("t", bb)}):
                continue
            # between snapshot and truncate: no call that can push onto the free list
            between = v.pg.reach_after(("t", bb), avoid={("t", trunc.bb)})
            dirty = False
            for b2, c2 in v.calls.items():
                if ("t", b2) in between and (any(g.path in pushers for g in ctx.cg_call(f, b2).all_targets()) if hasattr(ctx, "cg_call") else _call_pushes(ctx, f, b2, pushers)):
                    dirty = True
            if not dirty:
                return c.line
    return None


def _call_pushes(ctx, f, bb, pushers):
    for c in ctx.cg.calls[f.path]:
        if c.bb == bb:
            return any(g.path in pushers for g in c.all_targets())
    return False


# ---------------------------------------------------------------------------
def hdrcount(pid):
    """R-HDRCOUNT: the header counts the sectors of the MiniFAT chain (word 64) and, in V4, of the directory chain
    (word 40).  Whoever changes the length of one of those chains - in whatever function - rewrites the count."""
    def run(ctx):
        res = RuleResult("R-HDRCOUNT(%s)" % pid, "every call that lengthens or shortens a chain whose sector count is kept in the header (MiniFAT chain, directory chain) is followed, on every Ok path of the same function, by the rewrite of that header word")
        tbl = ctx.table("follow").get("counted_chains", [])
        resizers = r"(::extend_chain|::free_chain|::free_chain_after|Chain::<'a, F>::set_len|Chain::<'a, F>::free)$"
        n = 0
        for f in ctx.fx.fns.values():
            if f.path.startswith("internal::chain::") or f.path.startswith("internal::alloc::"):
                continue
            v = view(ctx, f)
            pr = None
            for bb, c in sorted(v.calls.items()):
                if not re.search(resizers, c.name) or "MiniChain" in c.name:
                    continue
                pr = pr or Prov(f)
                args = [pr.operand(a) for a in c.term["args"]]
                for row in tbl:
                    if not any(row["start"] in a for a in args):
                        continue
                    n += 1
                    fixes = []
                    if "header_word" in row:
                        fixes += [c2 for c2 in v.calls.values() if c2.name.endswith("seek_within_header") and len(c2.term["args"]) > 1 and pr.operand(c2.term["args"][1]) == "const:%d" % row["header_word"]]
                    if "via" in row:
                        fixes += [c2 for c2 in v.calls.values() if re.search(row["via"], c2.name)]
                    oks = set()
                    for c2 in fixes:
                        oks.update(v.ok_nodes(c2.bb) or [("t", c2.bb)])
                    if row.get("exempt_when"):
                        # the format version that has no such header word
                        g = _guards(ctx, f)
                        for b_, blk_ in enumerate(f.blocks):
                            if blk_["cleanup"] or blk_["term"]["t"] != "switch":
                                continue
                            tt = blk_["term"]
                            vals_ = [str(x) for x, _ in tt["arms"]] + ["otherwise"]
                            tg_ = [b for _, b in tt["arms"]] + [tt["otherwise"]]
                            for val_, tgt_ in zip(vals_, tg_):
                                if any(re.search(row["exempt_when"], a_) for a_ in g.describe_all(b_, val_, vals_)):
                                    oks.update(v.pg.edge_node(b_, tgt_))
                    starts = v.ok_nodes(bb) or list(v.pg.succ[("t", bb)])
                    reach = v.pg.reach(starts, oks | set(v.all_err_nodes()))
                    key = "R-HDRCOUNT/%s/%s/%s" % (f.path, row["what"], c.name.split("::")[-1])
                    if any(r in reach for r in v.pg.returns()):
                        res.fail(Finding(res.rule, key + "/count-not-rewritten", "%s changes the length of the %s chain and the function can return Ok without rewriting the header's %s count (%s): the byte image no longer reopens in strict mode" % (
                            c.name.split("::")[-1], row["what"], row["what"], row["via"].rstrip("$") if "via" in row else ("header word %d" % row["header_word"])), f, c.term["span"]))
                    else:
                        res.ok({"function": f.path, "chain": row["what"], "resized_by": c.name.split("::")[-1], "line": c.line, "count_rewritten_at": sorted(x.line for x in fixes)}, nontrivial=True)
        res.floor("counted-chain resize sites", n, ctx.table("floors").get("hdrcount_sites", 0))
        return res
    return run


# ---------------------------------------------------------------------------
def unlink(pid):
    """R-UNLINK: a directory slot is released (free_dir_entry) only for a node whose two sibling links were
    examined since the variable naming it last changed: a node released with unexamined links takes its
    subtree out of the sibling tree."""
    def run(ctx):
        res = RuleResult("R-UNLINK(%s)" % pid, "between the last assignment of the id that is handed to free_dir_entry and that call, both sibling links of that node are compared with NO_STREAM on every path (the node is released only once it is known to be a leaf, or its only child has been taken as the replacement)")
        n = 0
        for f in ctx.fx.fns.values():
            v = view(ctx, f)
            pr = None
            for bb, c in sorted(v.calls.items()):
                if not c.name.endswith("Directory::<F>::free_dir_entry") or len(c.term["args"]) < 2:
                    continue
                pr = pr or Prov(f)
                m = re.match(r"^var:(\w+)$", pr.operand(c.term["args"][1]))
                if not m:
                    continue
                var = m.group(1)
                names = {nm: l for l, nm in f.debug_names().items()}
                l = names.get(var)
                if l is None:
                    continue
                g = _guards(ctx, f)
                defs = [("t", d[0]) if d[1] == "t" else ("s", d[0], d[1]) for d in pr.defs.get(l, [])]
                for link in ("left_sibling", "right_sibling"):
                    n += 1
                    rx = re.compile(r"^\((Eq|Ne)\(Directory::dir_entry\(param:self,var:%s\)\.%s,const:(consts::)?NO_STREAM\)\)$" % (re.escape(var), link))
                    tested = set()
                    for b, k, val, vals in _edges(f):
                        if any(rx.match(a) for a in g.describe_all(b, val, vals)):
                            tested.update(v.pg.edge_node(b, f.succ(b)[k]))
                    # ... or handed on: the link's value is copied into what is then written into the parent's
                    # link (`replacement = node.right_sibling`): the subtree below it stays in the tree whatever it is
                    tested |= _link_handed_on(f, v, pr, var, link)
                    # the other link's tests are tracked so that `l != NO .. else if l == NO` is not walked as a path
                    other = "right_sibling" if link == "left_sibling" else "left_sibling"
                    rxo = re.compile(r"^\((Eq|Ne)\(Directory::dir_entry\(param:self,var:%s\)\.%s,const:(consts::)?NO_STREAM\)\)$" % (re.escape(var), other))
                    facts = {}
                    for b, k, val, vals in _edges(f):
                        for a in g.describe_all(b, val, vals):
                            mo = rxo.match(a)
                            if mo:
                                for en in v.pg.edge_node(b, f.succ(b)[k]):
                                    facts[en] = mo.group(1)
                    bad = None
                    for d in defs:
                        if _reach_consistent(v.pg, d, ("t", bb), tested | (set(defs) - {d}), facts):
                            bad = d
                            break
                    key = "R-UNLINK/%s/%s" % (f.path, link)
                    if bad is not None:
                        line = f.blocks[bad[1]]["stmts"][bad[2]]["span"]["line"] if bad[0] == "s" else f.blocks[bad[1]]["term"]["span"]["line"]
                        res.fail(Finding(res.rule, key + "/released-with-unexamined-link", "the node named by `%s` (assigned at line %d) can reach free_dir_entry (line %d) without its %s having been compared with NO_STREAM: whatever hangs below that link is cut out of the sibling tree (unreachable by name, missing from listings)" % (var, line, c.line, link), f, c.term["span"]))
                    else:
                        res.ok({"function": f.path, "released": var, "link": link, "definitions": len(defs)}, nontrivial=True)
        res.floor("release sites x links", n, ctx.table("floors").get("unlink_sites", 0))
        return res
    return run


def _reach_consistent(pg, src, dst, avoid, facts):
    """Is dst reachable strictly after src, avoiding `avoid`, along a path that never takes two edges carrying
    contradictory facts about one tracked predicate (facts: edge node -> 'Eq' | 'Ne')?"""
    from collections import deque
    seen = set()
    dq = deque((m, None) for m in pg.succ.get(src, ()) if m not in avoid)
    while dq:
        n, st = dq.popleft()
        if n in facts:
            if st is not None and st != facts[n]:
                continue
            st = facts[n]
        if (n, st) in seen:
            continue
        seen.add((n, st))
        if n == dst:
            return True
        for m in pg.succ.get(n, ()):
            if m not in avoid:
                dq.append((m, st))
    return False


# ---------------------------------------------------------------------------
def blankown(pid):
    """R-BLANKOWN: a blank (unallocated) entry enters the in-memory directory table only where a slot is
    released after it was unlinked (free_dir_entry, which also writes the file) or a new slot is appended
    (allocate_dir_entry).  Blanking a slot anywhere else wipes the links of a node that is still in the tree."""
    from dataflow import forward_taint

    def run(ctx):
        res = RuleResult("R-BLANKOWN(%s)" % pid, "DirEntry::unallocated() values reach the in-memory directory table only in free_dir_entry and allocate_dir_entry")
        allowed = set(ctx.table("reloc").get("blank_writers", ["internal::directory::Directory::<F>::free_dir_entry", "internal::directory::Directory::<F>::allocate_dir_entry"]))
        n = 0
        for f in ctx.fx.fns.values():
            v = view(ctx, f)
            blanks = [c for c in v.calls.values() if c.name.endswith("DirEntry::unallocated") and not c.term["dest"]["proj"]]
            if not blanks:
                continue
            pr = Prov(f)
            # locals that are (references into) the table
            slots = set()
            for c in v.calls.values():
                if c.name.endswith("Directory::<F>::dir_entry_mut") or (c.name.split("::")[-1] in ("index_mut", "get_mut", "last_mut", "first_mut", "iter_mut") and c.term["args"] and pr.operand(c.term["args"][0]).endswith(".dir_entries")):
                    slots |= forward_taint(f, {c.term["dest"]["local"]})
            for blk in f.blocks:
                for st in blk["stmts"]:
                    if st["s"] == "assign" and st["rv"]["r"] == "ref" and any(e["p"] == "field" and e["name"] == "dir_entries" for e in st["rv"]["place"]["proj"]):
                        slots |= forward_taint(f, {st["place"]["local"]})
            for b in blanks:
                t = forward_taint(f, {b.term["dest"]["local"]}, through_refs=False)
                hits = []
                for bb, blk in enumerate(f.blocks):
                    if blk["cleanup"]:
                        continue
                    for st in blk["stmts"]:
                        if st["s"] == "assign" and st["place"]["local"] in slots and st["place"]["proj"] and st["rv"]["r"] == "use" and st["rv"]["op"]["k"] in ("move", "copy") and st["rv"]["op"]["place"]["local"] in t:
                            hits.append(("whole-entry store", st["span"]))
                for c in v.calls.values():
                    args = c.term["args"]
                    if any(a["k"] in ("move", "copy") and a["place"]["local"] in t for a in args) and any(a["k"] in ("move", "copy") and a["place"]["local"] in slots for a in args):
                        hits.append((c.name.split("::")[-1], c.term["span"]))
                for (what, span) in hits:
                    n += 1
                    key = "R-BLANKOWN/%s/%s" % (f.path, what)
                    if f.path in allowed:
                        res.ok({"function": f.path, "blank_enters_table_by": what, "line": span["line"]}, nontrivial=True)
                    else:
                        res.fail(Finding(res.rule, key + "/slot-blanked-outside-release", "%s puts DirEntry::unallocated() into a slot of the directory table (%s): outside free_dir_entry/allocate_dir_entry the slot still belongs to a node of the sibling tree, whose links are wiped (its subtree becomes unreachable by name)" % (f.path.split("::")[-1], what), f, span))
        res.floor("blank-entry stores", n, ctx.table("floors").get("blankown_sites", 0))
        return res
    return run


# ---------------------------------------------------------------------------
def parenttype(pid):
    """R-PARENT: only storages have children.  Every creation path tests that the entry it is about to give a
    child to is not a stream, either at the API call site or inside insert_dir_entry before anything is allocated
    (defect D18: a child below a stream produces a file no reader accepts)."""
    def run(ctx):
        res = RuleResult("R-PARENT(%s)" % pid, "every call that inserts a directory entry below a parent is dominated by a test that the parent is not a stream (at the call site, or inside insert_dir_entry before allocation)")
        n = 0
        inner = ctx.fx.fns.get("internal::directory::Directory::<F>::insert_dir_entry")
        inner_ok = False
        if inner is not None:
            v = view(ctx, inner)
            g = _guards(ctx, inner)
            for bb, c in v.calls.items():
                if c.name.endswith("allocate_dir_entry"):
                    if any(re.search(r"dir_entry\(param:self,param:\w+\)\.obj_type is (not ObjType::Stream|ObjType::(Storage|Root))$", a) for a in g.atoms_at(("t", bb))):
                        inner_ok = True
        for f in ctx.fx.fns.values():
            if f.path.startswith("internal::"):
                continue
            v = view(ctx, f)
            pr = None
            for bb, c in sorted(v.calls.items()):
                if not c.name.endswith("MiniAllocator::<F>::insert_dir_entry") or len(c.term["args"]) < 2:
                    continue
                n += 1
                pr = pr or Prov(f)
                parent = pr.operand(c.term["args"][1])
                atoms = _guards(ctx, f).atoms_at(("t", bb))
                # (a provenance cut off at the depth limit shows `_` for an argument: it stands for anything)
                prx = re.sub(r"(?<=[(,])_(?=\\?[),])", ".*", re.escape(parent))
                rx = re.compile(r"dir_entry\(.*,%s\)\.obj_type is (not ObjType::Stream|ObjType::(Storage|Root))$" % prx)
                key = "R-PARENT/%s" % f.path
                if inner_ok or any(rx.search(a) for a in atoms):
                    res.ok({"function": f.path, "line": c.line, "parent": parent[:80], "tested": "inside insert_dir_entry" if inner_ok else "at the call site"}, nontrivial=True)
                else:
                    res.fail(Finding(res.rule, key + "/parent-type-not-tested", "insert_dir_entry is called with parent %s, which no dominating test shows not to be a stream: creating an object below a stream gives the stream a child and the file can no longer be opened" % parent[:100], f, c.term["span"]))
        res.floor("creation call sites", n, ctx.table("floors").get("parent_sites", 0))
        return res
    return run


# ---------------------------------------------------------------------------
def initkind(pid):
    """R-INITKIND: a chain object initialises every sector it adds with the SectorInit it was opened with.  The
    directory chain must therefore always be handled with SectorInit::Dir (new sectors hold blank entries, not
    zeros) and the MiniFAT chain with SectorInit::Fat (new cells are FREE, not 0 = 'points to mini sector 0')."""
    def run(ctx):
        res = RuleResult("R-INITKIND(%s)" % pid, "every open_chain / extend_chain on the directory chain carries SectorInit::Dir and every one on the MiniFAT chain carries SectorInit::Fat")
        typed = ctx.table("follow").get("typed_chains", [])
        n = 0
        for f in ctx.fx.fns.values():
            v = view(ctx, f)
            pr = None
            for bb, c in sorted(v.calls.items()):
                if not re.search(r"::(open_chain|extend_chain)$", c.name) or len(c.term["args"]) < 3:
                    continue
                pr = pr or Prov(f)
                start = pr.operand(c.term["args"][1])
                init = pr.operand(c.term["args"][2])
                for row in typed:
                    if not re.search(row["start"], start):
                        continue
                    n += 1
                    key = "R-INITKIND/%s/%s" % (f.path, row["what"])
                    # (a unit variant is spelled `SectorInit::Dir()` as an aggregate and `const:SectorInit::Dir` as a
                    # constant - named or not)
                    if init == row["init"] or re.sub(r"^const:", "", init) + "()" == row["init"]:
                        res.ok({"function": f.path, "chain": row["what"], "call": c.name.split("::")[-1], "init": init}, nontrivial=True)
                    else:
                        res.fail(Finding(res.rule, key + "/wrong-initialiser", "the %s chain is handled with %s in %s (line %d); sectors added through this chain object would be initialised as %s instead of %s (%s)" % (row["what"], init, c.name.split("::")[-1], c.line, init, row["init"], row["why"]), f, c.term["span"]))
        # stream data chains: whatever the stream layer opens holds stream bytes, and a sector added to it must
        # read as zeros until written (SectorInit::Fat fills with 0xFF, SectorInit::Dir with blank entries)
        ns = 0
        for f in ctx.fx.fns.values():
            if not f.path.startswith("internal::stream::") and "<internal::stream::" not in f.path:
                continue
            v = view(ctx, f)
            pr = None
            for bb, c in sorted(v.calls.items()):
                if not re.search(r"MiniAllocator::<F>::open_chain$", c.name) or len(c.term["args"]) < 3:
                    continue
                pr = pr or Prov(f)
                init = pr.operand(c.term["args"][2])
                ns += 1
                if init == "SectorInit::Zero()":
                    res.ok({"function": f.path, "chain": "stream data", "init": init, "line": c.line})
                else:
                    res.fail(Finding(res.rule, "R-INITKIND/%s/stream-data/wrong-initialiser" % f.path, "a stream's data chain is opened with %s in %s (line %d): sectors added to it are not zero-filled, so bytes gained by growing the stream (or the slack of a new last sector) read as that pattern" % (init, f.path.split("::")[-1], c.line), f, c.term["span"]))
        res.floor("stream data chains opened in the stream layer", ns, ctx.table("floors").get("initkind_stream_sites", 0))
        res.floor("typed-chain calls", n, ctx.table("floors").get("initkind_sites", 0))
        return res
    return run


# ---------------------------------------------------------------------------
def killread(pid):
    """R-KILLREAD: the link stored in a FAT (MiniFAT) cell is read before the cell is overwritten with
    END_OF_CHAIN / FREE_SECTOR.  Reading it afterwards yields the marker, so the rest of the chain is neither
    walked nor freed."""
    def run(ctx):
        res = RuleResult("R-KILLREAD(%s)" % pid, "no chain link is read from a FAT / MiniFAT cell after the same cell was overwritten with END_OF_CHAIN or FREE_SECTOR in the same function")
        pairs = ((r"Allocator::<F>::set_fat$", r"Allocator::<F>::next$"), (r"MiniAllocator::<F>::set_minifat$", r"MiniAllocator::<F>::next_mini_sector$"))
        n = 0
        for f in ctx.fx.fns.values():
            v = view(ctx, f)
            pr = None
            for (wrx, rrx) in pairs:
                writes = [c for c in v.calls.values() if re.search(wrx, c.name) and len(c.term["args"]) > 2]
                reads = [c for c in v.calls.values() if re.search(rrx, c.name) and len(c.term["args"]) > 1]
                if not writes or not reads:
                    continue
                pr = pr or Prov(f)
                names = {nm: l for l, nm in f.debug_names().items()}
                for w in writes:
                    val = pr.operand(w.term["args"][2])
                    if not re.match(r"^const:(consts::)?(END_OF_CHAIN|FREE_SECTOR)$", val):
                        continue
                    n += 1
                    cell = pr.operand(w.term["args"][1])
                    redef = set()
                    m = re.match(r"^var:(\w+)$", cell)
                    if m and m.group(1) in names:
                        redef = {("t", d[0]) if d[1] == "t" else ("s", d[0], d[1]) for d in pr.defs.get(names[m.group(1)], [])}
                    after = v.pg.reach(v.ok_nodes(w.bb) or list(v.pg.succ[("t", w.bb)]), avoid=redef)
                    late = [r for r in reads if pr.operand(r.term["args"][1]) == cell and ("t", r.bb) in after]
                    key = "R-KILLREAD/%s/%s" % (f.path, cell[:60])
                    if late:
                        res.fail(Finding(res.rule, key + "/link-read-after-overwrite", "cell %s is overwritten with %s (line %d) and its link is read afterwards (line %d): the read returns the marker just written, so the remainder of the chain is lost - never walked, never freed" % (cell[:60], val.split(":")[-1], w.line, late[0].line), f, late[0].term["span"]))
                    else:
                        res.ok({"function": f.path, "cell": cell[:60], "overwritten_at": w.line, "marker": val.split(":")[-1]}, nontrivial=True)
        res.floor("cell overwrites with a marker", n, ctx.table("floors").get("killread_sites", 0))
        return res
    return run


# ---------------------------------------------------------------------------
def sibflag(pid):
    """R-SIBFLAG: a tree walk that pushes (left sibling, flag) and (right sibling, flag) of the same node onto its
    work stack pushes the same flag for both: the two siblings hang off the same parent (sibling agreement; in
    Directory::validate the flag is 'my parent is red', which decides the adjacent-red-nodes deviation)."""
    from prov import _split_top

    def run(ctx):
        res = RuleResult("R-SIBFLAG(%s)" % pid, "wherever a walk pushes both sibling links of a node together with a per-parent flag, the left and the right push carry the same flag expression")
        n = 0
        for f in ctx.fx.fns.values():
            v = view(ctx, f)
            pr = None
            pushes = {}
            for bb, c in v.calls.items():
                if not c.name.endswith("Vec::<T, A>::push") or len(c.term["args"]) < 2:
                    continue
                pr = pr or Prov(f)
                val = pr.operand(c.term["args"][1])
                if not (val.startswith("tuple(") and val.endswith(")")):
                    continue
                parts = _split_top(val[6:-1])
                m = re.match(r"^(.*)\.(left_sibling|right_sibling)$", parts[0]) if parts else None
                if not m or len(parts) < 2:
                    continue
                pushes.setdefault((pr.operand(c.term["args"][0]), m.group(1)), {})[m.group(2)] = (parts[1:], c)
            for (cont, node), d in pushes.items():
                if "left_sibling" in d and "right_sibling" in d:
                    n += 1
                    lf, lc = d["left_sibling"]
                    rf, rc = d["right_sibling"]
                    key = "R-SIBFLAG/%s" % f.path
                    if lf != rf:
                        res.fail(Finding(res.rule, key + "/siblings-disagree", "the left sibling is pushed with %s (line %d) but the right sibling with %s (line %d): both hang off the same node, so what the walk records about their parent must be the same (here: whether the parent is red - the adjacent-red-nodes check misses or misfires on right edges)" % ("; ".join(x[:60] for x in lf), lc.line, "; ".join(x[:60] for x in rf), rc.line), f, rc.term["span"]))
                    else:
                        res.ok({"function": f.path, "node": node[-50:], "flag": [x[:80] for x in lf]}, nontrivial=True)
        res.floor("sibling push pairs", n, ctx.table("floors").get("sibflag_sites", 0))
        return res
    return run


# ---------------------------------------------------------------------------
def fold(pid):
    """R-FOLD: the case-folding function used by compare_names returns, on every path, the result of an
    upper-casing operation applied to its argument - never the argument itself.  'This class of characters has no
    uppercase form' is a statement about Unicode that no guard in the code can establish (titlecase letters are
    not lowercase and still have an uppercase mapping), so an unfolded early return is reported."""
    def run(ctx):
        res = RuleResult("R-FOLD(%s)" % pid, "every value returned by the comparator's case-folding function is the result of an upper-casing call on its argument")
        path = ctx.table("orient").get("fold_function", "internal::path::cfb_uppercase_char")
        f = ctx.fx.fns.get(path)
        n = 0
        if f is None:
            res.gone.append(path)
        else:
            pr = Prov(f)
            rets = []
            for bb, blk in enumerate(f.blocks):
                if blk["cleanup"]:
                    continue
                for i, st in enumerate(blk["stmts"]):
                    if st["s"] == "assign" and st["place"]["local"] == 0 and not st["place"]["proj"]:
                        rets.append((pr._def((bb, i, st), 0, ()), st["span"]))
                t = blk["term"]
                if t["t"] == "call" and not t["dest"]["proj"] and t["dest"]["local"] == 0:
                    from cg import callee_name
                    rets.append(("%s(%s)" % ((callee_name(t) or "?").split("::")[-1], ",".join(pr.operand(a) for a in t["args"])), t["span"]))
            for (p, span) in rets:
                alts = p[4:-1].split("|") if p.startswith("phi(") and p.endswith(")") else [p]
                for a in alts:
                    n += 1
                    if re.search(r"upper", a, re.I) and "param:" in a:
                        res.ok({"function": path, "returns": a[:90]}, nontrivial=True)
                    else:
                        res.fail(Finding(res.rule, "R-FOLD/%s/unfolded-return" % path, "the folding function can return %s, which is not the result of an upper-casing call: characters on that path are compared without case folding (names that differ only by case are then distinct, or sorted apart)" % a[:80], f, span))
        # the order of names is defined on UPPER-case forms (MS-CFB 2.6.4): nothing in the name module folds to lower
        # case (between 'Z' and 'a' lie [ \\ ] ^ _ `, which sort on the other side of the letters then), and the
        # exception table is used as written (key -> upper-case form), not through a transforming adaptor
        nl = 0
        for g2 in ctx.fx.fns.values():
            if not g2.path.startswith("internal::path::"):
                continue
            v2 = view(ctx, g2)
            pr2 = None
            for bb2, c2 in sorted(v2.calls.items()):
                short = c2.name.split("::")[-1]
                if short in ("to_ascii_lowercase", "to_lowercase", "make_ascii_lowercase", "eq_ignore_ascii_case") and "compare" in g2.path:
                    nl += 1
                    res.fail(Finding(res.rule, "R-FOLD/%s/lower-case-folding" % g2.path, "%s folds with %s: the sibling order of MS-CFB is defined on upper-case forms, and for the characters between 'Z' and 'a' ([ \\ ] ^ _ `) the lower-case order differs" % (g2.path.split("::")[-1], short), g2, c2.term["span"]))
                if "CaseMapper" in g2.path and g2.path.endswith("::new") and short in ("map", "filter", "filter_map", "rev", "skip", "take", "zip", "flat_map"):
                    nl += 1
                    res.fail(Finding(res.rule, "R-FOLD/%s/table-transformed" % g2.path, "CaseMapper::new builds its map through .%s(..): the exception table is a list of (character, upper-case form) pairs and must be used as written" % short, g2, c2.term["span"]))
        # an ASCII-only fold (`to_ascii_uppercase` on a char) leaves every non-ASCII letter as it is; in the general
        # (non-ASCII) comparison path it may only be applied to a character found to be ASCII
        for g2 in ctx.fx.fns.values():
            if not (g2.path.startswith("internal::path::") and ("uppercase" in g2.path.lower() or "fold" in g2.path.lower() or "CaseMapper" in g2.path)):
                continue
            v2 = view(ctx, g2)
            gg = None
            for bb2, c2 in sorted(v2.calls.items()):
                if not re.search(r"<impl char>::(to_ascii_uppercase|make_ascii_uppercase|to_ascii_lowercase)$", c2.name):
                    continue
                gg = gg or _guards(ctx, g2)
                atoms = gg.atoms_at(("t", bb2))
                from core import numeric as _numeric
                ok_ = False
                for a in atoms:
                    if re.search(r"is_ascii\w*\(", a) and " is not " not in a and not a.startswith("!") and not a.startswith("(Not") and "is false" not in a:
                        ok_ = True
                    m_ = re.match(r"^\((Lt|Le)\((?:param|var):\w+(?: as u\d+)?,const:(\d+)\)\)$", _numeric(a))
                    if m_ and int(m_.group(2)) <= 128:
                        ok_ = True
                n += 1
                if ok_:
                    res.ok({"function": g2.path, "ascii_fold_behind": "a test that the character is ASCII"}, nontrivial=True)
                else:
                    res.fail(Finding(res.rule, "R-FOLD/%s/ascii-fold-of-non-ascii" % g2.path, "%s applies an ASCII-only case fold to a character that was not found to be ASCII (conditions: %s): non-ASCII letters on that path keep their case (U+00B5 MICRO SIGN upper-cases to U+039C), so names equal up to case become distinct" % (g2.path.split("::")[-1], "; ".join(x[:60] for x in atoms[:3]) or "none"), g2, c2.term["span"]))
        res.floor("folded returns", n, ctx.table("floors").get("fold_returns", 0))
        return res
    return run


def _link_handed_on(f, v, pr, var, link):
    from dataflow import forward_taint, rv_places
    loads = set()
    want = "Directory::dir_entry(param:self,var:%s).%s" % (var, link)
    for bb, blk in enumerate(f.blocks):
        for i, st in enumerate(blk["stmts"]):
            if st["s"] == "assign" and not st["place"]["proj"] and st["rv"]["r"] == "use" and st["rv"]["op"]["k"] in ("copy", "move") \
                    and st["rv"]["op"]["place"]["proj"] and pr.place(st["rv"]["op"]["place"]) == want:
                loads.add(st["place"]["local"])
    if not loads:
        return set()
    taint = forward_taint(f, loads, through_calls=True, through_refs=False)
    # sinks: values written as a link (write_le_u32 payload, stores to link fields)
    sink_locals = set()
    for c in v.calls.values():
        if c.name.endswith("write_le_u32") and len(c.term["args"]) > 1 and c.term["args"][1]["k"] in ("copy", "move"):
            sink_locals.add(c.term["args"][1]["place"]["local"])
    for blk in f.blocks:
        for st in blk["stmts"]:
            if st["s"] == "assign" and st["place"]["proj"] and st["place"]["proj"][-1].get("name") in ("left_sibling", "right_sibling", "child"):
                for p_ in rv_places(st["rv"]):
                    sink_locals.add(p_["local"])
    out = set()
    for bb, blk in enumerate(f.blocks):
        for i, st in enumerate(blk["stmts"]):
            if st["s"] == "assign" and not st["place"]["proj"] and st["place"]["local"] not in loads and any(p_["local"] in taint for p_ in rv_places(st["rv"])):
                d = st["place"]["local"]
                if forward_taint(f, {d}, through_calls=True, through_refs=False) & sink_locals:
                    out.add(("s", bb, i))
    return out


# ---------------------------------------------------------------------------
def linkkeep(pid):
    """R-LINKKEEP: links are conserved by tree surgery.  Whenever a sibling/child link of an existing entry is
    overwritten, what it pointed to is accounted for: it was tested to be empty, or it is the node being released,
    or its value was loaded and handed on into another link (or into the id that is released)."""
    from dataflow import forward_taint, rv_places
    LINKF = ("left_sibling", "right_sibling", "child")

    def run(ctx):
        res = RuleResult("R-LINKKEEP(%s)" % pid, "every overwrite of a sibling/child link of an existing directory entry is preceded by an account of the old link: tested against NO_STREAM, equal to the released node, or loaded and handed on to another link")
        accessors = ctx.table("reloc").get("entry_accessors", [])
        n = 0
        for f in ctx.fx.fns.values():
            if not f.path.startswith("internal::directory::"):
                continue
            v = view(ctx, f)
            accs = [c for c in v.calls.values() if c.name in accessors and len(c.term["args"]) > 1]
            if not accs:
                continue
            pr = Prov(f)
            g = _guards(ctx, f)
            names = {nm: l for l, nm in f.debug_names().items()}
            # sinks: a value that ends up in a link, on disk as a link, or released
            sinks = set()
            for c in v.calls.values():
                if c.name.endswith("write_le_u32") and len(c.term["args"]) > 1 and c.term["args"][1]["k"] in ("copy", "move"):
                    sinks.add(c.term["args"][1]["place"]["local"])
                if c.name.endswith("free_dir_entry") and len(c.term["args"]) > 1 and c.term["args"][1]["k"] in ("copy", "move"):
                    sinks.add(c.term["args"][1]["place"]["local"])
            link_stores = []
            for a in accs:
                refs = forward_taint(f, {a.term["dest"]["local"]})
                for bb, blk in enumerate(f.blocks):
                    if blk["cleanup"]:
                        continue
                    for i, st in enumerate(blk["stmts"]):
                        if st["s"] == "assign" and st["place"]["local"] in refs and st["place"]["proj"] and st["place"]["proj"][-1].get("p") == "field" and st["place"]["proj"][-1].get("name") in LINKF:
                            link_stores.append((a, bb, i, st))
                            for p_ in rv_places(st["rv"]):
                                sinks.add(p_["local"])

            def handed_on(local):
                return bool(forward_taint(f, {local}, through_refs=False) & sinks)

            def released_or_handed(varname):
                l = names.get(varname)
                return l is not None and handed_on(l)

            for (a, bb, i, st) in link_stores:
                n += 1
                fld = st["place"]["proj"][-1]["name"]
                e = pr.operand(a.term["args"][1])
                vs = {e}
                m = re.match(r"^var:(\w+)$", e)
                if m and m.group(1) in names:
                    for d in pr.defs.get(names[m.group(1)], []):
                        dp = pr._def(d, 1, (names[m.group(1)],))
                        if re.match(r"^(var|param):\w+$", dp):
                            vs.add(dp)
                atoms = g.atoms_at(("s", bb, i))
                why = None
                for vv in vs:
                    o = "Directory::dir_entry(param:self,%s).%s" % (vv, fld)
                    if any(a_ in ("(Eq(%s,const:NO_STREAM))" % o, "(Eq(%s,const:consts::NO_STREAM))" % o) for a_ in atoms):
                        why = "old link tested empty"
                    for a_ in atoms:
                        m2 = re.match(r"^\(Eq\(%s,var:(\w+)\)\)$" % re.escape(o), a_) or re.match(r"^\(Eq\(var:(\w+),%s\)\)$" % re.escape(o), a_)
                        if m2 and released_or_handed(m2.group(1)):
                            why = "old link is the node `%s`, which is released or re-linked" % m2.group(1)
                        other = "left_sibling" if fld == "right_sibling" else ("right_sibling" if fld == "left_sibling" else None)
                        if other:
                            o2 = "Directory::dir_entry(param:self,%s).%s" % (vv, other)
                            m3 = re.match(r"^\(Ne\(%s,var:(\w+)\)\)$" % re.escape(o2), a_) or re.match(r"^\(Ne\(var:(\w+),%s\)\)$" % re.escape(o2), a_)
                            if m3 and released_or_handed(m3.group(1)):
                                why = "the descent came through this entry and its other link is not `%s`" % m3.group(1)
                        m4 = re.match(r"^\(Eq\(var:(\w+),const:(consts::)?NO_STREAM\)\)$", a_)
                        if m4 and m4.group(1) in names:
                            for d in pr.defs.get(names[m4.group(1)], []):
                                dp = pr._def(d, 1, (names[m4.group(1)],))
                                alts = dp[4:-1].split("|") if dp.startswith("phi(") and dp.endswith(")") else [dp]
                                if any(x.startswith("Directory::dir_entry(param:self,%s)." % vv) and x.split(".")[-1] in LINKF for x in alts):
                                    why = "the walk variable `%s`, loaded from this entry's link, was tested empty" % m4.group(1)
                    # (c) old value loaded and handed on
                    for b2, blk2 in enumerate(f.blocks):
                        for st2 in blk2["stmts"]:
                            if st2["s"] == "assign" and not st2["place"]["proj"] and st2["rv"]["r"] == "use" and st2["rv"]["op"]["k"] in ("copy", "move") \
                                    and st2["rv"]["op"]["place"]["proj"] and pr.place(st2["rv"]["op"]["place"]) == o and handed_on(st2["place"]["local"]):
                                why = why or "old link loaded and handed on"
                key = "R-LINKKEEP/%s/%s.%s" % (f.path, wildname(e), fld)
                if why:
                    res.ok({"function": f.path, "entry": e[:50], "link": fld, "old_link": why}, nontrivial=True)
                else:
                    res.fail(Finding(res.rule, key + "/old-link-dropped", "%s of entry %s is overwritten (line %d) and nothing accounts for what it pointed to: it is not tested against NO_STREAM, not known to be the released node, and its value is never loaded and handed on to another link - the subtree below it leaves the sibling tree" % (fld, e[:60], st["span"]["line"]), f, st["span"]))
        res.floor("link overwrites", n, ctx.table("floors").get("linkkeep_sites", 0))
        return res
    return run


def wildname(p):
    return re.sub(r"(var|param):\w+", r"\1:*", p)[:60]


# ---------------------------------------------------------------------------
def chainpos(pid):
    """R-CHAINPOS: Chain / MiniChain / Sector keep `position <= length`; their read and write index the sector list
    with position / sector_len and subtract position from length without a test of their own (R-SINK entries of
    class internal-invariant).  The invariant is established where the position is set: every store to the position
    field in a seek implementation is dominated by `new position <= len()`."""
    def run(ctx):
        res = RuleResult("R-CHAINPOS(%s)" % pid, "every position stored by Chain::seek / MiniChain::seek / Sector::seek is dominated by a comparison `position <= len(self)`")
        n = 0
        for f in ctx.fx.fns.values():
            if f.d.get("impl_trait") != "std::io::Seek" or f.d["name"] != "seek" or not re.search(r"internal::(chain|minichain|sector)::", f.path):
                continue
            v = view(ctx, f)
            pr = Prov(f)
            g = _guards(ctx, f)
            for fld in ("offset_from_start", "offset_within_sector"):
                for node in v.stores_to_field(fld):
                    n += 1
                    st = f.blocks[node[1]]["stmts"][node[2]]
                    val = pr._def((node[1], node[2], st), 0, ())
                    atoms = g.atoms_at(node)
                    ok = any(re.match(r"^\((Le|Lt)\((.*),(Chain|MiniChain|Sector)::len\(param:self\)\)\)$", a) and (val in a or wildname(val) in wildname(a) or re.sub(r"^cast\((.*)\)$", r"\1", val) in a) for a in atoms)
                    key = "R-CHAINPOS/%s/%s" % (f.path, fld)
                    if ok:
                        res.ok({"function": f.path, "position": val[:60], "bounded_by": "len(self)"}, nontrivial=True)
                    else:
                        res.fail(Finding(res.rule, key + "/position-not-bounded", "seek stores %s as the position with no dominating `<= len(self)` test: a position past the end makes the next read/write subtract it from the length or index the sector list out of range (panic on a file whose stream length exceeds its chain)" % val[:80], f, st["span"]))
        res.floor("position stores in seek", n, ctx.table("floors").get("chainpos_sites", 0))
        return res
    return run


# ---------------------------------------------------------------------------
def ceil(pid):
    """R-CEIL: `x / y + 1` as the number of y-sized units needed for x bytes is one too many whenever x is a
    multiple of y, unless the remainder was tested.  In the chain layer the surplus unit is a sector that is kept
    with its old contents on shrink (and later exposed by a grow), or counted in the header although it is not
    in the chain."""
    def run(ctx):
        res = RuleResult("R-CEIL(%s)" % pid, "no sector / entry count in the chain, allocator or stream layer is computed as floor(x / y) + 1 without a dominating test of x %% y")
        n = 0
        for f in ctx.fx.fns.values():
            if not re.search(r"internal::(chain|minichain|alloc|minialloc|stream|directory|sector)::", f.path):
                continue
            pr = None
            g = None
            for bb, blk in enumerate(f.blocks):
                if blk["cleanup"]:
                    continue
                for i, st in enumerate(blk["stmts"]):
                    if st["s"] != "assign" or st["rv"]["r"] != "binop" or not (st["rv"]["op"].startswith("Add") or st["rv"]["op"].startswith("Sub") or st["rv"]["op"].startswith("Div")):
                        continue
                    if st["span"].get("macros"):
                        continue
                    pr = pr or Prov(f)
                    p = pr._def((bb, i, st), 0, ())
                    if st["rv"]["op"].startswith("Div"):
                        # (x + y) / y is floor(x / y) + 1 in disguise (the rounding-up idiom is (x + y - 1) / y)
                        from prov import _split_top as _st3
                        md = re.match(r"^Div\((.*)\)$", p)
                        pd = _st3(md.group(1)) if md else []
                        ma = re.match(r"^Add\((.*)\)$", pd[0]) if len(pd) == 2 else None
                        pa = _st3(ma.group(1)) if ma else []
                        if len(pa) == 2 and pd[1] in pa and not re.match(r"^const:[01]$", pd[1]):
                            x = pa[0] if pa[1] == pd[1] else pa[1]
                            y = pd[1]
                            n += 1
                            g = g or _guards(ctx, f)
                            atoms = g.atoms_at(("s", bb, i))
                            if any(re.match(r"^\((Ne|Gt|Eq)\(Rem\(%s,%s\),const:0\)\)$" % (re.escape(x), re.escape(y)), a) for a in atoms):
                                res.ok({"function": f.path, "expression": p[:80], "remainder_tested": True}, nontrivial=True)
                            else:
                                res.fail(Finding(res.rule, "R-CEIL/%s/sum-over-divisor" % f.path, "%s counts units as (%s + %s) / %s: that is floor(x / y) + 1, one unit too many for an exact multiple (rounding up is (x + y - 1) / y)" % (f.path.split("::")[-1], x[:40], y[:40], y[:40]), f, st["span"]))
                        continue
                    if st["rv"]["op"].startswith("Sub"):
                        # `y - x % y` as "what is left of the last unit": a whole unit, not nothing, when x is a multiple
                        m2 = re.match(r"^Sub\((.*)\)$", p)
                        from prov import _split_top as _st2
                        ps = _st2(m2.group(1)) if m2 else []
                        if len(ps) != 2:
                            continue
                        # `(x | (y - 1)) - from` as a length: x | (y - 1) is the LAST offset of the unit holding x, an
                        # inclusive end; as an exclusive end it is one short (unless 1 is added first)
                        mm = re.search(r"BitOr\(([^()]|\((?:[^()]|\([^()]*\))*\))*,Sub\((?:[^()]|\((?:[^()]|\([^()]*\))*\))*,const:1\)\)", ps[0])
                        if mm and not re.search(r"Add\(" + re.escape(mm.group(0)) + r",const:1\)|Add\(const:1," + re.escape(mm.group(0)) + r"\)", ps[0]):
                            n += 1
                            res.fail(Finding(res.rule, "R-CEIL/%s/inclusive-end-as-length" % f.path, "%s takes %s as an exclusive end (a length is computed by subtracting an offset from it): x | (unit - 1) is the last offset INSIDE the unit, so the range stops one byte short of the unit's end" % (f.path.split("::")[-1], mm.group(0)[:80]), f, st["span"]))
                            continue
                        m3 = re.match(r"^(?:cast\()?Rem\((.*)\)\)?$", ps[1])
                        qs = _st2(m3.group(1)) if m3 else []
                        if len(qs) != 2 or qs[1] != ps[0]:
                            continue
                        n += 1
                        g = g or _guards(ctx, f)
                        atoms = g.atoms_at(("s", bb, i))
                        x, y = qs
                        tested = any(re.match(r"^\((Ne|Gt|Eq)\(Rem\(%s,%s\),const:0\)\)$" % (re.escape(x), re.escape(y)), a) for a in atoms)
                        # ... or the result is reduced modulo y again where it is used
                        dl = st["place"]["local"] if not st["place"]["proj"] else None
                        reduced = False
                        if dl is not None:
                            # the value and its copies (the `.0` of an overflow-checked subtraction, a moved temporary)
                            holders = {dl}
                            for _ in range(3):
                                for blk2 in f.blocks:
                                    for st2 in blk2["stmts"]:
                                        if st2["s"] == "assign" and not st2["place"]["proj"] and st2["rv"]["r"] == "use" and st2["rv"]["op"].get("k") in ("copy", "move") and st2["rv"]["op"]["place"]["local"] in holders:
                                            holders.add(st2["place"]["local"])
                            for bb2, blk2 in enumerate(f.blocks):
                                for st2 in blk2["stmts"]:
                                    if st2["s"] == "assign" and st2["rv"]["r"] == "binop" and st2["rv"]["op"].startswith("Rem") and st2["rv"]["a"].get("place", {}).get("local") in holders:
                                        reduced = True
                        if tested or reduced:
                            res.ok({"function": f.path, "expression": p[:80], "remainder_tested": True}, nontrivial=True)
                        else:
                            res.fail(Finding(res.rule, "R-CEIL/%s/complement-of-remainder" % f.path, "%s takes %s - %s %% %s as the rest of the last unit with no test of the remainder: for an exact multiple that is a whole unit, not nothing (a write of that many bytes at the end of the chain appends a sector the length does not call for)" % (f.path.split("::")[-1], y[:40], x[:40], y[:40]), f, st["span"]))
                        continue
                    m = re.match(r"^Add\((?:cast\()?Div\((.*)\)\)?,const:1\)$", p) or re.match(r"^Add\(const:1,(?:cast\()?Div\((.*)\)\)?\)$", p)
                    if not m:
                        continue
                    from prov import _split_top
                    parts = _split_top(m.group(1))
                    if len(parts) != 2:
                        continue
                    n += 1
                    g = g or _guards(ctx, f)
                    atoms = g.atoms_at(("s", bb, i))
                    x, y = parts
                    tested = any(re.match(r"^\((Ne|Gt|Eq)\(Rem\(%s,%s\),const:0\)\)$" % (re.escape(x), re.escape(y)), a) for a in atoms)
                    key = "R-CEIL/%s" % f.path
                    if tested:
                        res.ok({"function": f.path, "expression": p[:80], "remainder_tested": True}, nontrivial=True)
                    else:
                        res.fail(Finding(res.rule, key + "/floor-plus-one", "%s counts units as floor(%s / %s) + 1 with no test of the remainder: for an exact multiple this is one unit too many (a sector kept with its old bytes after a shrink, or a header count that disagrees with the chain)" % (f.path.split("::")[-1], x[:50], y[:40]), f, st["span"]))
        res.floor("floor+1 expressions", n, 0)
        res.notes.append("expected count on the reference tree: 0; positive examples: kept seeds C08-5 (Chain::set_len) and C02-5")
        return res
    return run


# ---------------------------------------------------------------------------
def dirlen(pid):
    """R-DIRLEN: the in-memory entry table has exactly one element per slot of the directory chain; allocate_dir_entry
    decides from `dir_entries.len() % entries_per_sector` whether the chain needs another sector, and slot ids are
    indices into both.  Nothing ever shortens the table."""
    def run(ctx):
        res = RuleResult("R-DIRLEN(%s)" % pid, "self.dir_entries is never shortened (pop, truncate, clear, remove, swap_remove, drain, split_off, retain)")
        n = 0
        shrink = ("pop", "truncate", "clear", "remove", "swap_remove", "drain", "split_off", "retain", "dedup")
        for f in ctx.fx.fns.values():
            v = view(ctx, f)
            pr = None
            for bb, c in sorted(v.calls.items()):
                short = c.name.split("::")[-1]
                if short not in shrink or "Vec" not in c.name or not c.term["args"]:
                    continue
                pr = pr or Prov(f)
                a0_ = pr.operand(c.term["args"][0])
                # ... nor the vector that is about to become the table (what open_internal read from the chain, one
                # element per slot, and hands to Directory::new)
                handed = set()
                for c9 in v.calls.values():
                    if c9.name.endswith("Directory::<F>::new"):
                        handed |= {pr.operand(a9) for a9 in c9.term["args"] if re.match(r"^var:\w+$", pr.operand(a9))}
                if not a0_.endswith(".dir_entries") and a0_ not in handed:
                    continue
                n += 1
                res.fail(Finding(res.rule, "R-DIRLEN/%s/%s" % (f.path, short), "%s shortens the entry table with Vec::%s: the table no longer has one element per slot of the directory chain, so allocate_dir_entry extends the chain although it has room (a sector is appended per cycle) or slot ids stop matching file offsets" % (f.path.split("::")[-1], short), f, c.term["span"]))
        res.floor("table shortenings", n, 0)
        res.notes.append("expected count on the reference tree: 0; positive example: kept seed C15-6")
        return res
    return run


def namelen(pid):
    """R-NAMELEN: reader/writer agreement on the name-length field: DirEntry::write_to stores (units + 1) * 2 for a
    name of up to MAX_NAME_LEN units, so the reader's 'too large' refusal must not start below (MAX_NAME_LEN + 1) * 2."""
    def run(ctx):
        res = RuleResult("R-NAMELEN(%s)" % pid, "DirEntry::read_from accepts every name-length value that DirEntry::write_to can produce for a valid name: its upper limit is at least (MAX_NAME_LEN + 1) * 2")
        f = ctx.fx.fns.get("internal::direntry::DirEntry::read_from")
        n = 0
        if f is None:
            res.gone.append("DirEntry::read_from")
            return res
        maxname = None
        for cp, cv in ctx.fx.consts.items():
            if cp.endswith("::MAX_NAME_LEN"):
                maxname = cv
        need = (maxname + 1) * 2 if maxname is not None else 64
        g = _guards(ctx, f)

        def ev(x):
            x = x.strip()
            m = re.match(r"^const:(\d+)$", x)
            if m:
                return int(m.group(1))
            m = re.match(r"^const:(?:\w+::)*(\w+)$", x)
            if m:
                for cp, cv in ctx.fx.consts.items():
                    if cp.split("::")[-1] == m.group(1):
                        return cv
                return None
            m = re.match(r"^(Mul|Add|Sub)\((.*)\)$", x)
            if m:
                from prov import _split_top
                parts = _split_top(m.group(2))
                if len(parts) == 2:
                    a, b = ev(parts[0]), ev(parts[1])
                    if a is not None and b is not None:
                        return a * b if m.group(1) == "Mul" else (a + b if m.group(1) == "Add" else a - b)
            m = re.match(r"^cast\((.*)\)$", x)
            if m:
                return ev(m.group(1))
            return None
        from rules_api import refusals
        for (c, kind) in refusals(ctx, f):
            for a in g.atoms_at(("t", c.bb)):
                m = re.match(r"^\(Gt\((?:cast\()?ok\(ReadLeNumber::read_le_u16\(param:reader\)\)\)?,(.*)\)\)$", a)
                if not m:
                    continue
                lim = ev(m.group(1))
                if lim is None:
                    continue
                n += 1
                key = "R-NAMELEN/%s" % f.path
                if lim >= need:
                    res.ok({"function": f.path, "refuses_above": lim, "writer_maximum": need}, nontrivial=True)
                else:
                    res.fail(Finding(res.rule, key + "/limit-below-writer-maximum", "the reader refuses name lengths above %d, but the writer stores (units + 1) * 2 = %d for a valid name of MAX_NAME_LEN = %s units: a file this library wrote itself can no longer be opened" % (lim, need, maxname), f, c.term["span"]))
                break
        res.floor("name-length limits", min(n, 1), ctx.table("floors").get("namelen_sites", 0))
        # the writer's side of the same field: the stored length is (units + 1) * 2 with `units` the number of UTF-16
        # code units that were written - not chars, not bytes (the reader cuts the name at that length)
        w = ctx.fx.fns.get("internal::direntry::DirEntry::write_to")
        nw = 0
        if w is not None:
            vw = view(ctx, w)
            prw = Prov(w)
            for bb, c in sorted(vw.calls.items()):
                if not c.name.endswith("write_le_u16") or len(c.term["args"]) < 2:
                    continue
                val = prw.operand(c.term["args"][1])
                PAT = (r"^Mul\(Add\((.*),const:1\),const:2\)$", r"^Mul\(const:2,Add\((.*),const:1\)\)$", r"^Add\(Mul\((.*),const:2\),const:2\)$", r"^Mul\(Add\(const:1,(.*)\),const:2\)$", r"^Mul\(const:2,Add\(const:1,(.*)\)\)$")
                alts = [(val, None)]
                al = op_local(c.term["args"][1])
                mv = re.match(r"^var:(\w+)$", val)
                if mv:
                    byname = [l_ for l_, nm_ in w.debug_names().items() if nm_ == mv.group(1)]
                    al = byname[0] if byname else al
                if al is not None and len(prw.defs.get(al, [])) > 1:
                    # `let n = if unallocated { 0 } else { (units + 1) * 2 }`: one verdict per definition
                    alts = [(prw._def(d, 1, (al,)), d) for d in prw.defs[al]]
                m = None
                zero_defs = []
                for (vv, d) in alts:
                    mm = None
                    for rx in PAT:
                        mm = mm or re.match(rx, vv)
                    if mm:
                        m, val = mm, vv
                    elif vv == "const:0" and d is not None:
                        zero_defs.append(d)
                if not m:
                    continue
                nw += 1
                # a blank (unallocated) entry has name length 0, and only a blank entry has
                gw = _guards(ctx, w)
                blank_ok = False
                for d in zero_defs:
                    node = ("t", d[0]) if d[1] == "t" else ("s", d[0], d[1])
                    if any(re.search(r"obj_type is ObjType::Unallocated$", a) for a in gw.atoms_at(node)):
                        blank_ok = True
                    else:
                        res.fail(Finding(res.rule, "R-NAMELEN/%s/zero-name-length-for-an-allocated-entry" % w.path, "write_to can store a name length of 0 for an entry that is not known to be unallocated: the reopened entry has an empty name", w, c.term["span"]))
                if not blank_ok:
                    res.fail(Finding(res.rule, "R-NAMELEN/%s/unallocated-entry-not-blank" % w.path, "write_to stores (units + 1) * 2 as the name length of every entry, so a free directory entry carries a name length of 2: MS-CFB 2.6.3 wants a free entry to be all zeroes except for its three links (defect D24)", w, c.term["span"]))
                units = m.group(1)
                if "encode_utf16(" in units or "len_utf16" in units:
                    res.ok({"function": w.path, "line": c.line, "stored_length": val[:100]}, nontrivial=True)
                elif "chars(" in units or re.search(r"len\(param:self\.name\)|as_bytes\(", units):
                    res.fail(Finding(res.rule, "R-NAMELEN/%s/stored-length-not-in-utf16-units" % w.path, "write_to stores the name length as (%s + 1) * 2, which does not count UTF-16 code units: for a name with a supplementary-plane character the stored length is too short, and the reopened entry has a cut-off (or undecodable) name" % units[:90], w, c.term["span"]))
                else:
                    res.ok({"function": w.path, "line": c.line, "stored_length": val[:100], "note": "way of counting not recognised: no verdict"})
        res.floor("name-length stores in write_to", nw, ctx.table("floors").get("namelen_writer_sites", 0))
        return res
    return run


def nameinv(pid):
    """R-NAMEINV (invariant I-NAMES): DirEntry::write_to asserts that the entry's name passes validate_name, and every
    metadata update, flush and re-link rewrites entries that came from the file.  So DirEntry::read_from must not
    return Ok with a name that did not pass validate_name in every mode - except the root's, which is either equal to
    the constant root name or replaced by it."""
    def run(ctx):
        res = RuleResult("R-NAMEINV(%s)" % pid, "every Ok return of DirEntry::read_from lies behind the Ok outcome of validate_name(name), a comparison that found the name equal to the constant root name, or its replacement by that constant")
        f = ctx.fx.fns.get("internal::direntry::DirEntry::read_from")
        if f is None:
            res.gone.append("DirEntry::read_from")
            return res
        v = view(ctx, f)
        pg = v.pg
        g = _guards(ctx, f)
        pr = Prov(f)
        barriers = set()
        nval = 0
        for bb, c in sorted(v.calls.items()):
            if re.search(r"path::validate_name$", c.name) and v.disp(bb)["kind"] in ("try", "matched"):
                barriers.update(v.ok_nodes(bb))
                nval += 1
            # `name = <constant>.to_string()` and the like: a call whose result is stored in `name` and whose
            # arguments are constants only
            t = c.term
            if c.kind == "call" and not t["dest"]["proj"] and re.match(r"^name(__\d+)?$", f.debug_names().get(t["dest"]["local"]) or "") and t["args"] and all(re.match(r"^const:", pr.operand(a)) for a in t["args"]):
                barriers.add(("t", bb))
        from rules_sink import _edge_label
        names = f.debug_names()
        for b, blk in enumerate(f.blocks):
            if blk["cleanup"]:
                continue
            for i, st in enumerate(blk["stmts"]):
                if st["s"] == "assign" and not st["place"]["proj"] and re.match(r"^name(__\d+)?$", names.get(st["place"]["local"]) or ""):
                    if re.match(r"^[^()]*\(const:[^()]*\)$", pr._def((b, i, st), 0, ())):
                        barriers.add(("s", b, i))
            if blk["term"]["t"] != "switch":
                continue
            for k, tgt in enumerate(f.succ(b)):
                val, vals = _edge_label(f, b, k)
                for a in g.describe_all(b, val, vals):
                    if re.match(r"^(!\(Ne|\(Eq)\(var:name(__\d+)?,const:(\w+::)*ROOT_DIR_NAME\)\)$", a):
                        barriers.update(pg.edge_node(b, tgt))
        oks = []
        for bb, blk in enumerate(f.blocks):
            if blk["cleanup"]:
                continue
            for i, st in enumerate(blk["stmts"]):
                if st["s"] == "assign" and st["place"]["local"] == 0 and not st["place"]["proj"] and st["rv"]["r"] == "aggregate" and st["rv"].get("variant") == "Ok":
                    oks.append((("s", bb, i), st))
        reach = pg.reach([pg.entry()], barriers)
        for (node, st) in oks:
            if node in reach:
                path = pg.path(pg.entry(), [node], barriers) or []
                lines = []
                for n in path:
                    if n[0] == "e":
                        ln = f.blocks[n[1]]["term"]["span"]["line"]
                        if not lines or lines[-1] != ln:
                            lines.append(ln)
                res.fail(Finding(res.rule, "R-NAMEINV/%s/ok-without-validated-name" % f.path, "read_from can return Ok with a name that neither passed validate_name nor is the constant root name (branch lines %s): DirEntry::write_to asserts validate_name(name).is_ok(), so the first metadata update, flush or re-link that rewrites this entry panics" % ", ".join(str(x) for x in [l_ for l_ in lines if l_ > 1][:10]), f, st["span"]))
            else:
                res.ok({"function": f.path, "ok_return_line": st["span"]["line"], "validate_name_calls": nval, "barrier_nodes": len(barriers)}, nontrivial=True)
        res.floor("Ok returns of read_from", len(oks), ctx.table("floors").get("nameinv_oks", 0))
        res.floor("validate_name calls in read_from", nval, ctx.table("floors").get("nameinv_validate", 0))
        return res
    return run


def lenbound(pid):
    """R-LENBOUND (invariant I-LENBOUND): the position arithmetic of a stream handle (window offset + buffered amount,
    offset + length of a write-back) and the mini allocator's `root length + 64` are plain u64 additions; they cannot
    overflow only because no entry of the table claims a length anywhere near u64::MAX.  DirEntry::read_from is where
    lengths enter the table from a file: every Ok return for an entry of type Stream or Root must lie behind a
    comparison that bounds the length it stores (by an expression built from MAX_REGULAR_SECTOR, or by a constant of
    at most 2^56), or behind the replacement of the length by a constant.  (Defect D14: a damaged version 4 entry with
    a length of u64::MAX - k was accepted by permissive open; seek(End(0)) + write panicked.)"""
    from rules_sink import _edge_label
    from core import numeric as _numeric
    from prov import prov_eq

    def bounded(expr):
        n = _numeric(expr)
        if "MAX_REGULAR_SECTOR" in expr or "const:4294967290" in n:
            return True
        m = re.match(r"^const:(\d+)$", n)
        return bool(m and int(m.group(1)) <= (1 << 56))

    def split2(a):
        """`(Le(A,B))` / `(Lt(A,B))` -> (A, B), split at the top-level comma."""
        m = re.match(r"^\((Le|Lt)\((.*)\)\)$", a)
        if not m:
            return None
        body, depth = m.group(2), 0
        for i, ch in enumerate(body):
            if ch in "([":
                depth += 1
            elif ch in ")]":
                depth -= 1
            elif ch == "," and depth == 0:
                return body[:i], body[i + 1:]
        return None

    def run(ctx):
        res = RuleResult("R-LENBOUND(%s)" % pid, "every Ok return of DirEntry::read_from for a Stream or Root entry lies behind a comparison that bounds the stream length it stores (MAX_REGULAR_SECTOR x sector length), or behind its replacement by a constant")
        f = ctx.fx.fns.get("internal::direntry::DirEntry::read_from")
        if f is None:
            res.gone.append("DirEntry::read_from")
            return res
        v = view(ctx, f)
        pg = v.pg
        g = _guards(ctx, f)
        pr = Prov(f)
        oks = []
        for bb, blk in enumerate(f.blocks):
            if blk["cleanup"]:
                continue
            for i, st in enumerate(blk["stmts"]):
                if st["s"] == "assign" and st["place"]["local"] == 0 and not st["place"]["proj"] and st["rv"]["r"] == "aggregate" and st["rv"].get("variant") == "Ok":
                    oks.append((("s", bb, i), st))
        # the variable(s) the length field of the built entry is taken from
        lenvars = set()
        for bb, blk in enumerate(f.blocks):
            if blk["cleanup"]:
                continue
            for i, st in enumerate(blk["stmts"]):
                if st["s"] == "assign" and st["rv"]["r"] == "aggregate" and str(st["rv"].get("adt", "")).endswith("DirEntry"):
                    names = st["rv"].get("fields") or []
                    for k, op in enumerate(st["rv"].get("ops", [])):
                        if k < len(names) and names[k] == "stream_len":
                            lenvars.add(pr.operand(op))
        if not lenvars:
            lenvars = {"var:stream_len"}
        edges = []
        for b, blk in enumerate(f.blocks):
            if blk["cleanup"] or blk["term"]["t"] != "switch":
                continue
            for k, tgt in enumerate(f.succ(b)):
                val, vals = _edge_label(f, b, k)
                edges.append((b, tgt, g.describe_all(b, val, vals)))
        names = {nm: l for l, nm in f.debug_names().items()}
        n = 0
        for otype in ("Stream", "Root"):
            barrier = set()
            nb = 0
            for (b, tgt, atoms) in edges:
                for a in atoms:
                    sp = split2(a)
                    if sp and any(prov_eq(sp[0], lv) for lv in lenvars) and bounded(sp[1]):
                        barrier.update(pg.edge_node(b, tgt))
                        nb += 1
                    # an entry of another type: its length is replaced (Storage) or never used (Unallocated)
                    if re.search(r" is not ObjType::%s$" % otype, a) or (re.search(r" is ObjType::(\w+)$", a) and not a.endswith("::" + otype)):
                        barrier.update(pg.edge_node(b, tgt))
            for lv in lenvars:
                nm = lv[4:] if lv.startswith("var:") else None
                for l in [l_ for l_, nm_ in f.debug_names().items() if nm_ == nm]:
                    for d in pr.defs.get(l, []):
                        dp = pr._def(d, 1, (l,))
                        if re.match(r"^const:[^()]*$", dp):
                            barrier.add(("t", d[0]) if d[1] == "t" else ("s", d[0], d[1]))
            from cfg import reach_flag_aware
            reach = reach_flag_aware(f, pg, [pg.entry()], barrier)
            key = "R-LENBOUND/%s/%s-length-unbounded" % (f.path, otype.lower())
            bad = [st for (node, st) in oks if node in reach]
            n += 1
            if bad:
                res.fail(Finding(res.rule, key, "a %s entry can reach the Ok return of read_from with a stream length no comparison has bounded (MAX_REGULAR_SECTOR x sector length): a damaged version 4 entry may claim a length close to u64::MAX, permissive open accepts it, and the handle's position arithmetic (window offset + buffered amount; root length + 64) overflows on the first write at its end" % otype.lower(), f, bad[0]["span"]))
            else:
                res.ok({"object_type": otype, "length_variables": sorted(lenvars), "bounding_edges": nb, "ok_returns": len(oks)}, nontrivial=True)
        res.floor("Ok returns of read_from", len(oks), ctx.table("floors").get("nameinv_oks", 0))
        res.floor("object types with a length", n, 2)
        return res
    return run


def difatcap(pid):
    """R-DIFATCAP: a DIFAT sector holds sector_len / 4 - 1 FAT-sector ids; its last word is the link to the next DIFAT
    sector (MS-CFB 2.5).  The reader reads that many (R-WHOLE, parser clause).  Wherever the writer turns a DIFAT
    index beyond the header's 109 entries into (DIFAT sector, slot) - a division or remainder whose dividend is
    `index - NUM_DIFAT_ENTRIES_IN_HEADER` - the divisor must evaluate to 127 for 512-byte and 1023 for 4096-byte
    sectors.  With sector_len / 4 the 128th id lands on the link word: the chain runs into a FAT sector and the id is
    listed nowhere."""
    import exprs
    from core import numeric as _numeric

    def run(ctx):
        res = RuleResult("R-DIFATCAP(%s)" % pid, "every division / remainder of (DIFAT index - 109) uses sector_len / 4 - 1 entries per DIFAT sector (127 / 1023): the last word of a DIFAT sector is its link")
        n = 0
        for f in ctx.fx.fns.values():
            pr = None
            for bb, blk in enumerate(f.blocks):
                if blk["cleanup"]:
                    continue
                for i, st in enumerate(blk["stmts"]):
                    if st["s"] != "assign" or st["rv"]["r"] != "binop" or st["rv"]["op"] not in ("Div", "Rem", "Sub", "SubWithOverflow"):
                        continue
                    pr = pr or Prov(f)
                    a = _numeric(pr.operand(st["rv"]["a"]))
                    if not re.match(r"^(Sub|<impl \w+>::(saturating|wrapping)_sub|ok\(<impl \w+>::checked_sub)\(.*,const:109\)+$", a):
                        continue
                    b = pr.operand(st["rv"]["b"])
                    if st["rv"]["op"].startswith("Sub"):
                        # index - 109 - sector_index * entries_per_sector: the slot within the DIFAT sector
                        mm = re.match(r"^Mul\((.*)\)$", b)
                        fs = exprs.split_top(mm.group(1)) if mm else []
                        fs = [x for x in fs if exprs.evaluate(x, {"sector_len": 512}) is not None]
                        if len(fs) != 1:
                            continue
                        b = fs[0]
                    got = (exprs.evaluate(b, {"sector_len": 512}), exprs.evaluate(b, {"sector_len": 4096}))
                    n += 1
                    key = "R-DIFATCAP/%s/%s" % (f.path, st["rv"]["op"])
                    if None in got:
                        res.ok({"function": f.path, "line": st["span"]["line"], "divisor": b[:100], "verdict": "no verdict (divisor not evaluable)"})
                    elif got != (127, 1023):
                        res.fail(Finding(res.rule, key, "a DIFAT index beyond the header's 109 entries is split into (DIFAT sector, slot) with %s = %d / %d entries per sector for 512 / 4096-byte sectors; a DIFAT sector holds 127 / 1023 ids, its last word links to the next DIFAT sector - the id that lands on the link word cuts the DIFAT chain and is listed nowhere" % (b[:80], got[0], got[1]), f, st["span"]))
                    else:
                        res.ok({"function": f.path, "line": st["span"]["line"], "divisor": b[:100], "entries_per_sector": list(got)}, nontrivial=True)
        res.floor("DIFAT index splits", n, ctx.table("floors").get("difatcap_sites", 0))
        return res
    return run


def nochild(pid):
    """R-NOCHILD (invariant I-STREAM-NOCHILD): lookups walk `entry.child` of whatever entry a path component resolved
    to, and Directory::validate only follows the links it is shown; both rest on "a stream entry has no child", which
    DirEntry::read_from establishes for every mode: every Ok return for an entry of type Stream lies behind the test
    that found the child field equal to NO_STREAM (or behind its replacement by that constant).  A permissive-only
    tolerance here hands an unvalidated index to the lookup (index out of range, or a walk through a cycle)."""
    NO_STREAM = 0xFFFFFFFF

    def run(ctx):
        res = RuleResult("R-NOCHILD(%s)" % pid, "every Ok return of DirEntry::read_from for a Stream entry lies behind `child == NO_STREAM` (or the replacement of the child by NO_STREAM), in every validation mode")
        f = ctx.fx.fns.get("internal::direntry::DirEntry::read_from")
        if f is None:
            res.gone.append("DirEntry::read_from")
            return res
        v = view(ctx, f)
        pg = v.pg
        g = _guards(ctx, f)
        from rules_sink import _edge_label
        oks = []
        cands = set()
        for bb, blk in enumerate(f.blocks):
            if blk["cleanup"]:
                continue
            for i, st in enumerate(blk["stmts"]):
                if st["s"] != "assign":
                    continue
                if st["place"]["local"] == 0 and not st["place"]["proj"] and st["rv"]["r"] == "aggregate" and st["rv"].get("variant") == "Ok":
                    oks.append((("s", bb, i), st))
                if st["rv"]["r"] == "aggregate" and str(st["rv"].get("adt", "")).endswith("DirEntry"):
                    for nm_, op in zip(st["rv"].get("fields") or [], st["rv"].get("ops") or []):
                        if nm_ == "child" and op["k"] in ("copy", "move") and not op["place"]["proj"]:
                            cands.add(op["place"]["local"])
        for l, nm_ in f.debug_names().items():
            if re.match(r"^child(__\d+)?$", nm_ or ""):
                cands.add(l)
        # copies of the candidates (a `let child = ..;` re-binding)
        changed = True
        while changed:
            changed = False
            for blk in f.blocks:
                for st in blk["stmts"]:
                    if st["s"] == "assign" and not st["place"]["proj"] and st["rv"]["r"] == "use" and st["rv"]["op"]["k"] in ("copy", "move") and not st["rv"]["op"]["place"]["proj"]:
                        a, b = st["place"]["local"], st["rv"]["op"]["place"]["local"]
                        if a in cands and b not in cands and f.locals[b]["s"] == "u32":
                            cands.add(b); changed = True
                        # a compiler temporary that holds a copy of the field for one comparison
                        if b in cands and a not in cands and f.locals[a]["s"] == "u32" and a not in f.debug_names():
                            cands.add(a); changed = True
        barrier = set()
        ntests = 0
        for b, blk in enumerate(f.blocks):
            if blk["cleanup"]:
                continue
            for i, st in enumerate(blk["stmts"]):
                # child = NO_STREAM
                if st["s"] == "assign" and not st["place"]["proj"] and st["place"]["local"] in cands and st["rv"]["r"] == "use" and st["rv"]["op"]["k"] == "const" and st["rv"]["op"].get("val") == NO_STREAM:
                    barrier.add(("s", b, i))
            t = blk["term"]
            if t["t"] != "switch" or t["discr"]["k"] not in ("copy", "move") or t["discr"]["place"]["proj"]:
                continue
            dl = t["discr"]["place"]["local"]
            rel = None
            for st in blk["stmts"]:
                if st["s"] == "assign" and not st["place"]["proj"] and st["place"]["local"] == dl and st["rv"]["r"] == "binop" and st["rv"]["op"] in ("Eq", "Ne"):
                    ops = (st["rv"]["a"], st["rv"]["b"])
                    for x, y in (ops, ops[::-1]):
                        if x["k"] in ("copy", "move") and not x["place"]["proj"] and x["place"]["local"] in cands and y["k"] == "const" and y.get("val") == NO_STREAM:
                            rel = st["rv"]["op"]
            if rel is None:
                continue
            ntests += 1
            arms = dict((int(v_), tg) for v_, tg in t["arms"])
            eq_target = arms.get(0) if rel == "Ne" else t["otherwise"]
            if rel == "Eq" and 1 in arms:
                eq_target = arms[1]
            if eq_target is not None:
                barrier.update(pg.edge_node(b, eq_target))
        for b, blk in enumerate(f.blocks):
            if blk["cleanup"] or blk["term"]["t"] != "switch":
                continue
            for k, tgt in enumerate(f.succ(b)):
                val, vals = _edge_label(f, b, k)
                for a in g.describe_all(b, val, vals):
                    if re.search(r" is not ObjType::Stream$", a) or (re.search(r" is ObjType::(\w+)$", a) and not a.endswith("::Stream")):
                        barrier.update(pg.edge_node(b, tgt))
        from cfg import reach_flag_aware
        reach = reach_flag_aware(f, pg, [pg.entry()], barrier)
        bad = [st for (node, st) in oks if node in reach]
        if bad:
            res.fail(Finding(res.rule, "R-NOCHILD/%s/stream-with-child" % f.path, "a stream entry can reach the Ok return of read_from without its child field having been found equal to NO_STREAM: path lookups read `.child` of whatever entry a component resolved to and Directory::validate only follows the links of storages, so a damaged file hands an unvalidated index (or a cycle) to exists() / open_stream()", f, bad[0]["span"]))
        elif oks:
            res.ok({"function": f.path, "child_variables": len(cands), "no_stream_tests": ntests, "ok_returns": len(oks)}, nontrivial=True)
        res.floor("Ok returns of read_from", len(oks), ctx.table("floors").get("nameinv_oks", 0))
        res.floor("tests of the child field against NO_STREAM", ntests, ctx.table("floors").get("nochild_tests", 0))
        return res
    return run


def predwalk(pid):
    """R-PREDWALK: Directory::remove_dir_entry re-links step by step, each link written to the file first; a step that
    fails leaves the earlier steps done, and the caller may repeat the call.  After the step `predecessor.right :=
    removed.right` the search for the in-order predecessor (walk right links from the removed entry's left child until
    NO_STREAM) would run on into the subtree just adopted, pick an entry of the RIGHT subtree and link it to itself:
    every later listing, walk or lookup below that storage loops forever (defect D21b).  So the walk also stops where
    the link it follows equals the removed entry's own right link.  Decided as: every loop of remove_dir_entry that
    leaves on `entry(W).right_sibling == NO_STREAM` for a loop-carried W also has an exit on
    `entry(W).right_sibling == <a value that is not a constant>`."""
    from cfg import natural_loops
    from rules_sink import _edge_label

    def run(ctx):
        res = RuleResult("R-PREDWALK(%s)" % pid, "the predecessor search of remove_dir_entry stops at the removed entry's own right link as well as at NO_STREAM (a repeated removal must not walk into a subtree the first attempt already moved)")
        f = ctx.fx.fns.get("internal::directory::Directory::<F>::remove_dir_entry")
        if f is None:
            res.gone.append("Directory::remove_dir_entry")
            return res
        g = _guards(ctx, f)
        n = 0
        for (header, body, back) in natural_loops(f):
            walks = {}
            for b in body:
                blk = f.blocks[b]
                if blk["cleanup"] or blk["term"]["t"] != "switch":
                    continue
                for k, tgt in enumerate(f.succ(b)):
                    val, vals = _edge_label(f, b, k)
                    for a in g.describe_all(b, val, vals):
                        m = re.match(r"^\(Eq\(Directory::dir_entry\(param:self,(var:\w+)\)\.right_sibling,(.*)\)\)$", a)
                        if m:
                            walks.setdefault(m.group(1), []).append((m.group(2), tgt not in body, blk["term"]["span"]))
            for w, tests in walks.items():
                if not any(re.match(r"^const:(\w+::)*(NO_STREAM|4294967295)", rhs) and leaves for (rhs, leaves, _) in tests):
                    continue
                # only a walk that moves: W is assigned inside the loop
                names = {nm: l for l, nm in f.debug_names().items()}
                l = names.get(w[4:])
                pr = Prov(f)
                if l is None or not any(d[0] in body for d in pr.defs.get(l, [])):
                    continue
                n += 1
                if any(not rhs.startswith("const:") for (rhs, leaves, _) in tests):
                    res.ok({"function": f.path, "walk_variable": w, "also_stops_at": [rhs[:80] for (rhs, _, _) in tests if not rhs.startswith("const:")][:1]}, nontrivial=True)
                else:
                    res.fail(Finding(res.rule, "R-PREDWALK/%s/walk-runs-into-adopted-subtree" % f.path, "the search for the in-order predecessor follows right links of %s until NO_STREAM only: when a removal failed after the predecessor had adopted the removed entry's right subtree and is repeated, the search walks on into that subtree, and the entry it picks is linked to itself - every later listing or lookup below the storage never returns" % w, f, tests[0][2]))
        res.floor("predecessor walks", n, ctx.table("floors").get("predwalk_sites", 0))
        return res
    return run


def repairfirst(pid):
    """R-REPAIRFIRST: under permissive validation Allocator::validate REPAIRS the cells of FAT and DIFAT sectors that
    are not marked as such (it stores FAT_SECTOR / DIFAT_SECTOR over whatever the cell held); what the cell held is
    thereby discarded.  The link checks of the same function (range of every pointee, no sector pointed to twice) read
    every cell, so they must run on the repaired table: no repair store may be reachable after the pointee bookkeeping
    has begun - otherwise the stale content of an unmarked cell (two zero-filled FAT sectors both 'point to' sector 0)
    gets a tolerated file refused."""
    FATSECT, DIFSECT = 0xFFFFFFFD, 0xFFFFFFFC

    def run(ctx):
        res = RuleResult("R-REPAIRFIRST(%s)" % pid, "in Allocator::validate every store that repairs a FAT / DIFAT sector marker precedes the pointee checks that read the whole table")
        f = ctx.fx.fns.get("internal::alloc::Allocator::<F>::validate")
        if f is None:
            res.gone.append("Allocator::validate")
            return res
        v = view(ctx, f)
        pg = v.pg
        pr = Prov(f)
        repairs = []
        for b, blk in enumerate(f.blocks):
            if blk["cleanup"]:
                continue
            for i, st in enumerate(blk["stmts"]):
                if st["s"] == "assign" and st["place"]["proj"] and st["rv"]["r"] == "use" and any(e["p"] == "deref" for e in st["place"]["proj"]):
                    from core import numeric as _numeric
                    val_ = _numeric(pr.operand(st["rv"]["op"]))
                    if re.match(r"^const:(%d|%d)(_u32)?$" % (FATSECT, DIFSECT), val_):
                        repairs.append((("s", b, i), st))
        inserts = [c for c in v.calls.values() if re.search(r"HashSet<.*>::insert$|::insert$", c.name) and "Vec" not in c.name]
        for (node, st) in repairs:
            late = [c for c in inserts if node in pg.reach_after(("t", c.bb))]
            if late:
                res.fail(Finding(res.rule, "R-REPAIRFIRST/%s/repair-after-link-check" % f.path, "the marker of a FAT / DIFAT sector is repaired (line %d) after the pointee checks have read the table (set insertion at line %d): the stale content of an unmarked cell is judged as a link, and a file with a tolerated deviation (unmarked FAT / DIFAT sectors) is refused under permissive validation" % (st["span"]["line"], late[0].line), f, st["span"]))
            else:
                res.ok({"function": f.path, "repair_line": st["span"]["line"], "before_pointee_checks": True}, nontrivial=True)
        res.floor("marker repairs", len(repairs), ctx.table("floors").get("repairfirst_sites", 0))
        return res
    return run


def linkend(pid):
    """R-LINKEND: extend_chain / extend_mini_chain give a chain one more sector by overwriting the cell of its LAST
    sector with the id of a freshly allocated one.  Overwriting any other cell cuts the chain there: what followed
    stays allocated and belongs to nothing (a leak per call - C15 - and, for a regular chain, sectors no owner reaches -
    C03).  So the cell that receives the link was found to hold END_OF_CHAIN in the same function (the walk to the end
    of the chain), or - when the function trusts its argument - every caller passes the last element of the chain's own
    id list, read at the call."""
    rows = [("internal::alloc::Allocator::<F>::extend_chain", r"Allocator::<F>::set_fat$", r"Allocator::<F>::allocate_sector"),
            ("internal::minialloc::MiniAllocator::<F>::extend_mini_chain", r"MiniAllocator::<F>::set_minifat$", r"MiniAllocator::<F>::allocate_mini_sector")]

    def run(ctx):
        res = RuleResult("R-LINKEND(%s)" % pid, "the FAT / MiniFAT cell that receives the link to a newly allocated sector was found to hold END_OF_CHAIN (or every caller passes the last id of the chain's own list)")
        n = 0
        for (fpath, setter, allocator) in rows:
            f = ctx.fx.fns.get(fpath)
            if f is None:
                res.gone.append(fpath)
                continue
            v = view(ctx, f)
            pr = Prov(f)
            g = _guards(ctx, f)
            for bb, c in sorted(v.calls.items()):
                if not re.search(setter, c.name) or len(c.term["args"]) < 3:
                    continue
                val = pr.operand(c.term["args"][2])
                if not re.search(allocator.replace("::<F>::", "::"), val):
                    continue
                n += 1
                cell = pr.operand(c.term["args"][1])
                atoms = g.atoms_at(("t", bb))
                ok_ = any(re.match(r"^\(Eq\((.*),const:((\w+::)*END_OF_CHAIN|4294967294)\)\)$", a) and cell in a for a in atoms)
                why = "the cell was found to hold END_OF_CHAIN"
                if not ok_ and cell.startswith("param:"):
                    # the function trusts its argument: every caller must pass the last id of its own list
                    callers = []
                    for f2 in ctx.fx.fns.values():
                        for c2 in ctx.cg.calls[f2.path]:
                            if c2.kind == "call" and any(t.path == f.path for t in c2.targets):
                                callers.append((f2, c2))
                    names = {nm: l for l, nm in f.debug_names().items()}
                    idx = names.get(cell[6:])
                    good = bool(callers) and idx is not None
                    for (f2, c2) in callers:
                        if not good:
                            break
                        a2 = Prov(f2).operand(c2.term["args"][idx - 1]) if idx - 1 < len(c2.term["args"]) else ""
                        if not re.search(r"last\(.*sector_ids\)", a2):
                            good = False
                            break
                        # ... read at the call: when the call sits in a loop, so does the `last()` it is fed from
                        from cfg import natural_loops as _nl
                        for (h_, body_, _) in _nl(f2):
                            if c2.bb in body_:
                                lasts = [x for x in ctx.cg.calls[f2.path] if x.kind == "call" and x.name.split("::")[-1] == "last" and x.bb in body_]
                                if not lasts:
                                    good = False
                    ok_ = good
                    why = "every caller passes the last id of the chain's own id list"
                if ok_:
                    res.ok({"function": fpath, "cell": cell[:60], "why": why}, nontrivial=True)
                else:
                    res.fail(Finding(res.rule, "R-LINKEND/%s/link-stored-in-a-cell-not-known-to-be-the-end" % fpath, "%s stores the id of a newly allocated sector in the cell of %s, which was not found to hold END_OF_CHAIN (conditions: %s): when that sector is not the last of its chain, the chain is cut there and everything behind it stays allocated without an owner - a net-zero cycle grows the file" % (fpath.split("::")[-1], cell[:50], "; ".join(a[:60] for a in atoms[:3]) or "none"), f, c.term["span"]))
        res.floor("link stores of the extend functions", n, ctx.table("floors").get("linkend_sites", 0))
        return res
    return run


def stalelen(pid):
    """R-STALELEN: a length taken from a vector (`v.len()`, possibly multiplied) and kept in a variable describes the
    vector at that moment.  When the vector is shortened afterwards (pop / truncate / retain / clear / drain / remove)
    and the kept value is used after that, it bounds by entries that are no longer there.  In open_internal the bound
    of the FAT padding is `difat.len() x entries per sector`; taken before the trailing FREE entries of the DIFAT are
    stripped it lets the cached FAT be padded beyond what the listed FAT sectors cover, and the first allocation in the
    uncovered range indexes the DIFAT out of bounds (defect D10, repaired by e5bb7bb; this is its re-ordering twin)."""
    from dataflow import forward_taint

    def run(ctx):
        res = RuleResult("R-STALELEN(%s)" % pid, "no value derived from v.len() of a local vector is used after that vector was shortened, in the parsing code (open_internal, the validators)")
        n = 0
        scope = re.compile(r"(::open_internal$|::validate$)")
        for f in ctx.fx.fns.values():
            if not scope.search(f.path):
                continue
            v = view(ctx, f)
            pr = Prov(f)
            pg = v.pg
            calls = list(v.calls.values())
            for c in calls:
                if not re.search(r"(Vec::<T, A>|VecDeque::<T, A>)::len$", c.name) or not c.term["args"] or c.term["dest"]["proj"]:
                    continue
                cont = pr.operand(c.term["args"][0])
                if not re.match(r"^var:\w+$", cont):
                    continue
                shr = [x for x in calls if x.name.split("::")[-1] in ("pop", "truncate", "clear", "remove", "swap_remove", "drain", "split_off", "retain", "dedup") and x.term["args"] and pr.operand(x.term["args"][0]) == cont and ("t", x.bb) in pg.reach_after(("t", c.bb))]
                if not shr:
                    continue
                n += 1
                taint = forward_taint(f, {c.term["dest"]["local"]}, through_refs=False)
                # a named variable that holds the derived value
                names = f.debug_names()
                kept = [l for l in taint if l in names and l != c.term["dest"]["local"]]
                late_use = None
                for sx in shr:
                    after = pg.reach_after(("t", sx.bb))
                    for b, blk in enumerate(f.blocks):
                        if blk["cleanup"]:
                            continue
                        for i, st in enumerate(blk["stmts"]):
                            if ("s", b, i) not in after or st["s"] != "assign":
                                continue
                            ops = []
                            rv = st["rv"]
                            for key in ("op", "a", "b"):
                                if isinstance(rv.get(key), dict):
                                    ops.append(rv[key])
                            ops += rv.get("ops", []) if isinstance(rv.get("ops"), list) else []
                            if any(o.get("k") in ("copy", "move") and not o["place"]["proj"] and o["place"]["local"] in kept for o in ops):
                                late_use = (st["span"], sx)
                        t = blk["term"]
                        if ("t", b) in after and t["t"] == "call" and any(a.get("k") in ("copy", "move") and not a["place"]["proj"] and a["place"]["local"] in kept for a in t["args"]):
                            late_use = (t["span"], sx)
                key = "R-STALELEN/%s/%s" % (f.path, cont)
                if late_use and kept:
                    res.fail(Finding(res.rule, key, "a value derived from %s.len() (taken at line %d, kept in `%s`) is used after %s was shortened by %s() at line %d: it still counts the entries that were stripped, so whatever it bounds is bounded too generously (the cached FAT padded beyond what the FAT sectors cover -> the first allocation there indexes the DIFAT out of bounds)" % (cont[4:], c.line, names[kept[0]], cont[4:], late_use[1].name.split("::")[-1], late_use[1].line), f, late_use[0]))
                else:
                    res.ok({"function": f.path, "vector": cont, "len_line": c.line, "shortened_later": True, "kept_value_used_later": False}, nontrivial=True)
        res.floor("lengths of vectors that are shortened later", n, ctx.table("floors").get("stalelen_sites", 0))
        return res
    return run


def treetypes(pid):
    """R-TREETYPES (invariant I-TYPES): every entry that Directory::validate accepts as part of the tree is a Root (the
    root slot), a Storage or a Stream.  allocate_dir_entry hands out any slot whose type is Unallocated; a linked
    entry of that type would be re-used while the tree still points at it (insert panics with "insert duplicate", or
    the image stops reopening).  Decided as: in the walk loop of validate, from the pop that yields an entry no path
    reaches the links of that entry (the reads of left_sibling / right_sibling / child that continue the walk) without
    passing a switch edge on which the entry's type was found to BE Root, Storage or Stream."""
    from rules_sink import _edge_label

    def run(ctx):
        res = RuleResult("R-TREETYPES(%s)" % pid, "Directory::validate follows the links of an entry only after its type was found to be Root, Storage or Stream")
        f = ctx.fx.fns.get("internal::directory::Directory::<F>::validate")
        if f is None:
            res.gone.append("Directory::validate")
            return res
        v = view(ctx, f)
        pg = v.pg
        g = _guards(ctx, f)
        pr = Prov(f)
        pops = [c for c in v.calls.values() if c.name.endswith("Vec::<T, A>::pop")]
        barrier = set(v.all_err_nodes())
        nb = 0
        for b, blk in enumerate(f.blocks):
            if blk["cleanup"] or blk["term"]["t"] != "switch":
                continue
            for k, tgt in enumerate(f.succ(b)):
                val, vals = _edge_label(f, b, k)
                if any(re.search(r"\.obj_type is ObjType::(Root|Storage|Stream)$", a) for a in g.describe_all(b, val, vals)):
                    barrier.update(pg.edge_node(b, tgt))
                    nb += 1
        # where the walk goes on: loads of a link field of the entry
        link_nodes = []
        for b, blk in enumerate(f.blocks):
            if blk["cleanup"]:
                continue
            for i, st in enumerate(blk["stmts"]):
                if st["s"] == "assign" and st["rv"]["r"] == "use" and st["rv"]["op"]["k"] in ("copy", "move") and st["rv"]["op"]["place"]["proj"]:
                    fl = [e for e in st["rv"]["op"]["place"]["proj"] if e["p"] == "field"]
                    if fl and fl[-1]["name"] in ("left_sibling", "right_sibling", "child") and "DirEntry" in fl[-1].get("owner", ""):
                        link_nodes.append((("s", b, i), st))
        n = 0
        for c in pops:
            starts = v.ok_nodes(c.bb) or list(pg.succ[("t", c.bb)])
            from cfg import reach_flag_aware
            reach = reach_flag_aware(f, pg, starts, barrier)
            bad = [st for (node, st) in link_nodes if node in reach]
            n += 1
            if bad:
                res.fail(Finding(res.rule, "R-TREETYPES/%s/links-followed-for-any-type" % f.path, "validate reads the links of an entry (line %d) on a path where its type was not found to be Root, Storage or Stream: an Unallocated entry that is linked into the tree is accepted, allocate_dir_entry later hands that slot out while the tree still points at it ('insert duplicate' panic, or an image that no longer reopens)" % bad[0]["span"]["line"], f, bad[0]["span"]))
            else:
                res.ok({"function": f.path, "type_tests": nb, "link_reads": len(link_nodes)}, nontrivial=True)
        res.floor("tree walks", n, ctx.table("floors").get("treetypes_walks", 0))
        res.floor("link reads in validate", len(link_nodes), ctx.table("floors").get("treetypes_links", 0))
        return res
    return run


def branchunit(pid):
    """R-BRANCHUNIT: a stream of at least MINI_STREAM_CUTOFF bytes lives in a chain of SECTORS, a shorter one in a
    chain of 64-byte MINI sectors.  In the stream layer, arithmetic that sits on a branch which established `length >=
    MINI_STREAM_CUTOFF` must not measure with MINI_SECTOR_LEN, and arithmetic on a branch which established `length <
    MINI_STREAM_CUTOFF` must not measure with the sector length: the boundary up to which a grown regular stream is
    zero-filled is the end of its SECTOR (rounding to the next 64 bytes leaves the rest of the sector showing old
    data)."""
    def run(ctx):
        res = RuleResult("R-BRANCHUNIT(%s)" % pid, "in the stream layer no arithmetic on a regular-chain branch measures in mini sectors, and none on a mini-chain branch in sectors")
        n = 0
        for f in ctx.fx.fns.values():
            if not f.path.startswith("internal::stream::"):
                continue
            g = None
            pr = None
            for b, blk in enumerate(f.blocks):
                if blk["cleanup"]:
                    continue
                sites = []
                for i, st in enumerate(blk["stmts"]):
                    if st["s"] == "assign" and st["rv"]["r"] == "binop" and st["rv"]["op"].replace("WithOverflow", "") in ("Mul", "Div", "Rem", "Add", "Sub"):
                        sites.append((("s", b, i), [st["rv"]["a"], st["rv"]["b"]], st["span"]))
                t = blk["term"]
                if t["t"] == "call" and (t.get("callee") or t.get("func") or "") is not None:
                    from cg import callee_name
                    nm = callee_name(t) or ""
                    if nm.split("::")[-1] in ("div_ceil", "next_multiple_of", "saturating_mul", "checked_mul", "rem_euclid", "div_euclid"):
                        sites.append((("t", b), t["args"], t["span"]))
                if not sites:
                    continue
                pr = pr or Prov(f)
                g = g or _guards(ctx, f)
                for (node, ops, span) in sites:
                    txt = " ".join(pr.operand(o) for o in ops)
                    mini = "MINI_SECTOR_LEN" in txt
                    reg = bool(re.search(r"sector_len\(", txt)) and "MINI" not in txt
                    if not (mini or reg):
                        continue
                    atoms = g.atoms_at(node)
                    is_reg = any(re.match(r"^\(Ge\(.*,const:(\w+::)*MINI_STREAM_CUTOFF( as u64)?\)\)$", a) or re.match(r"^\(Le\(const:(\w+::)*MINI_STREAM_CUTOFF( as u64)?,", a) for a in atoms)
                    is_mini = any(re.match(r"^\(Lt\(.*,const:(\w+::)*MINI_STREAM_CUTOFF( as u64)?\)\)$", a) or re.match(r"^\(Gt\(const:(\w+::)*MINI_STREAM_CUTOFF( as u64)?,", a) for a in atoms)
                    if not (is_reg or is_mini) or (is_reg and is_mini):
                        continue
                    n += 1
                    if (is_reg and mini) or (is_mini and reg):
                        res.fail(Finding(res.rule, "R-BRANCHUNIT/%s/%s" % (f.path, "mini-unit-on-regular-branch" if is_reg else "sector-unit-on-mini-branch"), "%s measures with %s on the branch that established the stream is %s: the boundary computed there is not a boundary of the chain the stream lives in (a grown regular stream is zero-filled only up to the next 64 bytes, and the rest of its sector shows old data)" % (f.path.split("::")[-1], "MINI_SECTOR_LEN" if is_reg else "the sector length", "a regular one (length >= MINI_STREAM_CUTOFF)" if is_reg else "a mini stream (length < MINI_STREAM_CUTOFF)"), f, span))
                    else:
                        res.ok({"function": f.path, "line": span["line"], "branch": "regular" if is_reg else "mini", "unit": "mini sector" if mini else "sector"})
        res.floor("unit arithmetic on a cutoff branch", n, ctx.table("floors").get("branchunit_sites", 0))
        return res
    return run


def refillcap(pid):
    """R-REFILLCAP: StreamBuffer::refill_with is entered with an empty window (Stream::fill_buf clears it first, so that
    a failed refill cannot serve old bytes at the new offset - defect D4).  The filled length may be raised only AFTER
    the fill callback has succeeded: no store to `cap` (directly or through set_cap) is passed on the way to the error
    exit of the callback."""
    def run(ctx):
        res = RuleResult("R-REFILLCAP(%s)" % pid, "in StreamBuffer::refill_with the filled length is not raised before the fill callback has succeeded")
        f = ctx.fx.fns.get("internal::stream_buffer::StreamBuffer::refill_with")
        if f is None:
            res.gone.append("StreamBuffer::refill_with")
            return res
        v = view(ctx, f)
        pg = v.pg
        fills = [c for c in v.calls.values() if re.search(r"FnOnce(<.*>)?::call_once$|FnMut(<.*>)?::call_mut$|Fn(<.*>)?::call$", c.name) and v.err_nodes(c.bb)]
        stores = [(n_, "store to cap") for n_ in v.stores_to_field("cap")]
        for c in v.calls.values():
            if c.name.endswith("StreamBuffer::set_cap") or c.name.endswith("StreamBuffer::seek"):
                stores.append((("t", c.bb), c.name.split("::")[-1] + "()"))
        n = 0
        for c in fills:
            n += 1
            errs = set(v.err_nodes(c.bb))
            early = [(n_, w) for (n_, w) in stores if errs & pg.reach_after(n_) and ("t", c.bb) in pg.reach_after(n_)]
            if early:
                res.fail(Finding(res.rule, "R-REFILLCAP/%s/cap-raised-before-fill" % f.path, "refill_with raises the filled length (%s) before the fill callback ran: when the callback fails, the window keeps that length over bytes that were never read (zeros, or the previous window's), and the retried read on the same handle returns them as data" % early[0][1], f, c.term["span"]))
            else:
                res.ok({"function": f.path, "cap_stores": len(stores), "before_the_callback": 0}, nontrivial=True)
        res.floor("fill callbacks", n, ctx.table("floors").get("refillcap_sites", 0))
        return res
    return run


def dotdot(pid):
    """R-DOTDOT: name_chain_from_path resolves `..` by dropping the last name; when there is none, the path leaves the
    root and the call is refused with InvalidInput - for every kind of path.  After `names.pop()` found the chain
    empty no Ok return is reachable."""
    from rules_sink import _edge_label

    def run(ctx):
        res = RuleResult("R-DOTDOT(%s)" % pid, "in name_chain_from_path no Ok return is reachable once `names.pop()` has found the chain empty (a `..` that leaves the root is always refused)")
        f = ctx.fx.fns.get(ctx.table("norm").get("normaliser", "internal::path::name_chain_from_path")) or ctx.fx.fns.get("internal::path::name_chain_from_path")
        if f is None:
            res.gone.append("name_chain_from_path")
            return res
        v = view(ctx, f)
        pg = v.pg
        g = _guards(ctx, f)
        errs = set(v.all_err_nodes())
        rets = set(pg.returns())
        n = 0
        for b, blk in enumerate(f.blocks):
            if blk["cleanup"] or blk["term"]["t"] != "switch":
                continue
            for k, tgt in enumerate(f.succ(b)):
                val, vals = _edge_label(f, b, k)
                atoms = g.describe_all(b, val, vals)
                if not any(re.match(r"^(Vec::pop|<impl \[T\]>::split_last|Vec::<T, A>::pop)\(.*\) is None$", a) or re.match(r"^!?\(?Option::is_none\((Vec::pop)", a) for a in atoms):
                    continue
                n += 1
                en = pg.edge_node(b, tgt)
                reach = pg.reach(en, errs)
                if reach & rets:
                    res.fail(Finding(res.rule, "R-DOTDOT/%s/escape-not-refused" % f.path, "after `names.pop()` found the name chain empty (a `..` above the root) an Ok return is still reachable: some paths that leave the root (`/..`, `/a/../../b`) resolve inside it instead of being refused with InvalidInput, and calls on them change the file", f, blk["term"]["span"]))
                else:
                    res.ok({"function": f.path, "empty_pop_line": blk["term"]["span"]["line"], "leads_to": "refusal only"}, nontrivial=True)
        res.floor("empty-pop edges", n, ctx.table("floors").get("dotdot_sites", 0))
        return res
    return run


def hdrcountuse(pid):
    """R-HDRCOUNTUSE: the header's sector counts (FAT, DIFAT, MiniFAT, directory) are among the documented tolerated
    deviations: permissive open must give the same result whatever they say.  So outside the header's own reader and
    writer they are only ever COMPARED (the strict refusals, the stripping of zero padding); they never enter
    arithmetic, a capacity, a length or a loop bound - what is read is governed by the chains themselves."""
    def run(ctx):
        res = RuleResult("R-HDRCOUNTUSE(%s)" % pid, "outside Header::read_from / write_to the header's sector counts are only compared, never used in arithmetic, as a capacity or as a loop bound")
        n = 0
        rx = re.compile(r"(Header::read_from\([^()]*\)\)|(param|var):\w*header\w*)\.num_(fat|difat|minifat|dir)_sectors\b")
        for f in ctx.fx.fns.values():
            if "internal::header::" in f.path:
                continue
            pr = None
            for b, blk in enumerate(f.blocks):
                if blk["cleanup"]:
                    continue
                for i, st in enumerate(blk["stmts"]):
                    if st["s"] != "assign" or st["rv"]["r"] != "binop":
                        continue
                    pr = pr or Prov(f)
                    ops = [pr.operand(st["rv"]["a"]), pr.operand(st["rv"]["b"])]
                    if not any(rx.search(o) for o in ops) or any("param:self" in o and rx.search(o) for o in ops):
                        continue
                    op = st["rv"]["op"].replace("WithOverflow", "")
                    n += 1
                    if op in ("Eq", "Ne", "Lt", "Le", "Gt", "Ge"):
                        res.ok({"function": f.path, "line": st["span"]["line"], "use": "comparison"})
                    elif not st["span"].get("macros"):
                        res.fail(Finding(res.rule, "R-HDRCOUNTUSE/%s/%s" % (f.path, op), "%s computes with a sector count taken from the header (%s): the header's counts are a documented tolerated deviation - a file whose count is wrong must open permissively exactly like the undamaged one, so nothing but the strict comparison may depend on them (here the amount that is read or allocated does)" % (f.path.split("::")[-1], [o for o in ops if rx.search(o)][0][:90]), f, st["span"]))
                t = blk["term"]
                if t["t"] == "call" and not t["span"].get("macros"):
                    from cg import callee_name
                    short = (callee_name(t) or "").split("::")[-1]
                    if short in ("with_capacity", "reserve", "reserve_exact", "resize", "try_reserve", "take", "truncate", "set_len"):
                        pr = pr or Prov(f)
                        if any(rx.search(pr.operand(a)) for a in t["args"]):
                            n += 1
                            res.fail(Finding(res.rule, "R-HDRCOUNTUSE/%s/%s" % (f.path, short), "%s sizes %s(..) by a sector count taken from the header: a tolerated wrong count changes what permissive open reads or allocates" % (f.path.split("::")[-1], short), f, t["span"]))
        res.floor("uses of header sector counts", n, ctx.table("floors").get("hdrcountuse_sites", 0))
        return res
    return run


def hdrv3(pid):
    """R-HDRV3: header word 40 (number of directory sectors) exists in version 4 only; MS-CFB 2.2 requires it to be
    zero in version 3 and strict open refuses anything else.  So whoever rewrites it in place asks for the version."""
    def run(ctx):
        res = RuleResult("R-HDRV3(%s)" % pid, "every in-place rewrite of header word 40 (directory sector count) lies on a branch that established version 4")
        n = 0
        for f in ctx.fx.fns.values():
            v = view(ctx, f)
            pr = None
            for bb, c in sorted(v.calls.items()):
                if not c.name.endswith("seek_within_header") or len(c.term["args"]) < 2:
                    continue
                pr = pr or Prov(f)
                if pr.operand(c.term["args"][1]) != "const:40":
                    continue
                n += 1
                atoms = _guards(ctx, f).atoms_at(("t", bb))
                if any(re.search(r" is (Version::V4|not Version::V3)$", a) for a in atoms):
                    res.ok({"function": f.path, "line": c.line, "guard": [a for a in atoms if "Version::" in a][:1]}, nontrivial=True)
                else:
                    res.fail(Finding(res.rule, "R-HDRV3/%s/word-40-written-for-any-version" % f.path, "%s rewrites header word 40 (directory sector count) without having established version 4: in a version 3 file the word must stay zero, and strict open refuses the image once the directory grows a second sector" % f.path.split("::")[-1], f, c.term["span"]))
        res.floor("rewrites of header word 40", n, ctx.table("floors").get("hdrv3_sites", 0))
        return res
    return run


def namelimit(pid):
    """R-NAMELIMIT: validate_name is the gate in front of a 32-unit name field (DirEntry::write_to stores UTF-16 code
    units and a terminator).  Its length refusal must measure the name in UTF-16 code units: a count of chars or
    bytes lets a name with supplementary-plane characters through (1 char = 2 units), and the entry is refused or
    truncated only when it is serialised - after the slot was allocated and linked."""
    def run(ctx):
        from core import numeric
        res = RuleResult("R-NAMELIMIT(%s)" % pid, "validate_name refuses over-long names by a length in UTF-16 code units (a count over encode_utf16(), or a sum of char::len_utf16) against MAX_NAME_LEN; no length test there counts chars or bytes")
        f = ctx.fx.fns.get("internal::path::validate_name")
        if f is None:
            res.gone.append("validate_name")
            return res
        g = _guards(ctx, f)
        from rules_api import refusals
        n = 0
        seen = set()
        for (c, kind) in refusals(ctx, f):
            for a in g.atoms_at(("t", c.bb)):
                m = re.match(r"^\((Gt|Ge)\((.*),([^(),]*|Add\([^()]*\))\)\)$", numeric(a))
                if not m or not re.match(r"^(const:3[12]|Add\(const:31,const:1\))$", m.group(3)):
                    continue
                expr = m.group(2)
                if expr in seen:
                    continue
                seen.add(expr)
                n += 1
                # the largest accepted length: `len > c` accepts up to c, `len >= c` up to c - 1
                cval = {"const:31": 31, "const:32": 32, "Add(const:31,const:1)": 32}[m.group(3)]
                accepted = cval if m.group(1) == "Gt" else cval - 1
                if ("encode_utf16(" in expr or "len_utf16" in expr) and accepted != 31:
                    res.fail(Finding(res.rule, "R-NAMELIMIT/%s/limit-off-by-one" % f.path, "validate_name accepts names of up to %d UTF-16 code units; the format's limit (and what the 32-unit field holds beside its terminator) is MAX_NAME_LEN = 31: %s" % (accepted, "valid 31-unit names are refused" if accepted < 31 else "a 32-unit name gets through to the serialiser"), f, c.term["span"]))
                elif "encode_utf16(" in expr or "len_utf16" in expr:
                    res.ok({"function": f.path, "line": c.line, "length_measured_as": expr[:100]}, nontrivial=True)
                elif ("chars(" in expr and ("count(" in expr or "len(" in expr)) or re.search(r"(^|\()len\(param:name\)|<impl str>::len\(param:name\)|as_bytes\(param:name\)", expr):
                    res.fail(Finding(res.rule, "R-NAMELIMIT/%s/length-not-in-utf16-units" % f.path, "validate_name refuses over-long names by %s, which is not a count of UTF-16 code units: a name of at most 31 chars but more than 31 units passes, and the 32-unit name field cannot hold it (the entry is refused or truncated after it was allocated and linked)" % expr[:100], f, c.term["span"]))
                else:
                    res.ok({"function": f.path, "line": c.line, "length_measured_as": expr[:100], "note": "way of measuring not recognised: no verdict"})
        # the set of forbidden characters is walked whole
        v_ = view(ctx, f)
        pr_ = Prov(f)
        for bb_, c_ in sorted(v_.calls.items()):
            short_ = c_.name.split("::")[-1]
            args_ = [pr_.operand(a_) for a_ in c_.term["args"]]
            if not args_ or "param:name" in args_[0]:
                continue        # an adaptor on the name itself (the length test's take(MAX + 1))
            if short_ in ("skip", "take", "step_by", "filter", "nth", "split_at", "split_first", "split_last", "chunks") or (short_ == "index" and len(args_) > 1 and re.match(r"^Range", args_[1])):
                res.fail(Finding(res.rule, "R-NAMELIMIT/%s/forbidden-set-narrowed" % f.path, "validate_name walks only part of its list of forbidden characters (.%s): names with the characters left out are accepted and stored" % short_, f, c_.term["span"]))
        res.floor("length refusals in validate_name", n, ctx.table("floors").get("namelimit_sites", 0))
        return res
    return run


def trimloop(pid):
    """R-TRIMLOOP: releasing a mini sector trims ALL trailing free entries off the cached MiniFAT and shortens the mini
    stream by as much (open does the same to what it reads, and leaves the root length alone).  Trimming entry by
    entry is only complete when it repeats: a `pop` on the MiniFAT in free_mini_sector sits inside a loop.  Trimmed
    once per call, a chain released front to back leaves free entries behind a shorter table; after a reopen the
    recorded mini stream is longer than the MiniFAT and every create/remove cycle adds to it."""
    from cfg import natural_loops

    def run(ctx):
        res = RuleResult("R-TRIMLOOP(%s)" % pid, "every Vec::pop on self.minifat in MiniAllocator::free_mini_sector lies inside a loop (the trailing free entries are trimmed to a fixpoint)")
        f = ctx.fx.fns.get("internal::minialloc::MiniAllocator::<F>::free_mini_sector")
        n = 0
        if f is None:
            res.gone.append("free_mini_sector")
            return res
        v = view(ctx, f)
        pr = Prov(f)
        inloop = set()
        for (h, body, _b) in natural_loops(f):
            inloop |= set(body)
        for bb, c in sorted(v.calls.items()):
            if c.name.endswith("Vec::<T, A>::pop") and c.term["args"] and pr.operand(c.term["args"][0]) == "param:self.minifat":
                n += 1
                if bb in inloop:
                    res.ok({"function": f.path, "pop_line": c.line, "inside_loop": True}, nontrivial=True)
                else:
                    res.fail(Finding(res.rule, "R-TRIMLOOP/%s/single-trim" % f.path, "free_mini_sector removes one trailing free MiniFAT entry and does not look again: a mini chain released front to back leaves free entries at the end of the table although the mini stream length was only reduced by one sector; after a reopen (which strips them all) the recorded mini stream is longer than the MiniFAT and grows with every create/remove cycle", f, c.term["span"]))
        res.floor("MiniFAT trims in free_mini_sector", n, ctx.table("floors").get("trimloop_sites", 0))
        return res
    return run


def detach(pid):
    """R-DETACH: a node that adopts another node's whole left (right) subtree is itself the right-most (left-most)
    node of that subtree - that is how the in-order predecessor (successor) is found.  Before it adopts the subtree
    it has to be taken out of it: the link through which it hangs there is overwritten first, on every path.
    Otherwise the subtree contains a link back to its new root: the sibling tree has a cycle, and every lookup,
    insertion or listing that walks into it never ends."""
    from dataflow import forward_taint
    LINKF = ("left_sibling", "right_sibling")

    def run(ctx):
        res = RuleResult("R-DETACH(%s)" % pid, "a store X.left_sibling := (another node's left link) (or the mirror image) is preceded on every path by the overwrite of a right_sibling (left_sibling) link of a third node: the adopted subtree no longer leads back to X")
        accessors = ctx.table("reloc").get("entry_accessors", [])
        n = 0
        for f in ctx.fx.fns.values():
            if not f.path.startswith("internal::directory::"):
                continue
            v = view(ctx, f)
            accs = [c for c in v.calls.values() if c.name in accessors and c.name.endswith("_mut") and len(c.term["args"]) > 1]
            if not accs:
                continue
            pr = Prov(f)
            names = {nm: l for l, nm in f.debug_names().items()}

            def resolve(x):
                m = re.match(r"^var:(\w+)$", x)
                if m and m.group(1) in names:
                    ds = [pr._def(d, 1, (names[m.group(1)],)) for d in pr.defs.get(names[m.group(1)], [])]
                    if len(ds) == 1:
                        return ds[0]
                return x
            stores = []
            for a in accs:
                refs = forward_taint(f, {a.term["dest"]["local"]})
                for bb, blk in enumerate(f.blocks):
                    if blk["cleanup"]:
                        continue
                    for i, st in enumerate(blk["stmts"]):
                        if st["s"] == "assign" and st["place"]["local"] in refs and st["place"]["proj"] and st["place"]["proj"][-1].get("p") == "field" and st["place"]["proj"][-1].get("name") in LINKF:
                            raw = pr._def((bb, i, st), 0, ())
                            stores.append((pr.operand(a.term["args"][1]), st["place"]["proj"][-1]["name"], resolve(raw), ("s", bb, i), st, raw))
            for (idv, fld, val, node, st, raw) in stores:
                m = re.match(r"^Directory::dir_entry\(param:self,(var:\w+|param:\w+)\)\.(left_sibling|right_sibling)$", val)
                if not m or m.group(2) != fld or m.group(1) == idv:
                    continue
                # only when the adopter was found by walking INTO the adopted subtree (its variable starts from that
                # very link): the predecessor adopting the removed node's right subtree comes from the other side
                mx = re.match(r"^var:(\w+)$", idv)
                origins = set()
                if mx and mx.group(1) in names:
                    for d in pr.defs.get(names[mx.group(1)], []):
                        dp = pr._def(d, 1, (names[mx.group(1)],))
                        for alt in (dp[4:-1].split("|") if dp.startswith("phi(") and dp.endswith(")") else [dp]):
                            origins.add(alt)
                            origins.add(resolve(alt))
                if not ({val, raw} & origins):
                    continue
                n += 1
                other = "right_sibling" if fld == "left_sibling" else "left_sibling"
                cut = {nd for (idv2, fld2, _v, nd, _s, _r) in stores if fld2 == other and idv2 != idv}
                reach = v.pg.reach([v.pg.entry()], cut)
                key = "R-DETACH/%s/%s-adopted-without-detaching" % (f.path, fld)
                if node in reach:
                    res.fail(Finding(res.rule, key, "%s gives node %s the whole %s subtree of %s, and a path reaches that store on which no %s link of a third node was overwritten before: %s is the %s-most node of that subtree, so the subtree still links back to its new root - a cycle in the sibling tree (lookups between the two names, insertions and listings never end)" % (
                        f.path.split("::")[-1], idv, fld.split("_")[0], m.group(1), other, idv, other.split("_")[0]), f, st["span"]))
                else:
                    res.ok({"function": f.path, "adopter": idv, "adopts": val[-60:], "detached_first_by": "store to a %s of another node on every path" % other}, nontrivial=True)
        res.floor("subtree adoptions", n, ctx.table("floors").get("detach_sites", 0))
        return res
    return run


def freebeforeremove(pid):
    """R-FREEFIRST: Directory::remove_dir_entry only unlinks the entry and blanks its slot; the sectors of a stream
    are released by whoever removes it.  So every call of remove_dir_entry from above the directory layer lies
    behind the release of the entry's chain (free_chain / free_mini_chain), or on a branch that established that
    the entry is not a stream.  Otherwise every removal (or overwrite-by-removal) orphans the old contents: the
    sectors stay allocated, owned by nothing, and the file grows with every cycle."""
    def run(ctx):
        res = RuleResult("R-FREEFIRST(%s)" % pid, "every call of remove_dir_entry made above the directory layer is preceded on every path by free_chain / free_mini_chain, or lies on a branch where the entry's type was found not to be Stream")
        n = 0
        for f in ctx.fx.fns.values():
            if f.path.startswith("internal::directory::") or f.path.startswith("internal::minialloc::"):
                continue
            v = view(ctx, f)
            calls = [c for c in v.calls.values() if re.search(r"(MiniAllocator|Directory)::<F>::remove_dir_entry$", c.name)]
            if not calls:
                continue
            g = _guards(ctx, f)
            frees = set()
            for c2 in v.calls.values():
                if re.search(r"::(free_chain|free_mini_chain)$", c2.name):
                    frees.update(v.ok_nodes(c2.bb) or [("t", c2.bb)])
            notstream = set()
            for b, k, val, vals in _edges(f):
                if any(re.search(r"obj_type is (not ObjType::Stream|ObjType::Storage|ObjType::Root)$", a) for a in g.describe_all(b, val, vals)):
                    notstream.update(v.pg.edge_node(b, f.succ(b)[k]))
            reach = v.pg.reach([v.pg.entry()], frees | notstream)
            for c in calls:
                n += 1
                if ("t", c.bb) in reach:
                    res.fail(Finding(res.rule, "R-FREEFIRST/%s/entry-removed-with-its-chain-allocated" % f.path, "%s removes a directory entry (line %d) on a path that neither released the entry's sector chain nor established that the entry is not a stream: the old contents stay allocated in the FAT / MiniFAT and belong to nothing, and the file grows with every such removal" % (f.path.split("::")[-1], c.line), f, c.term["span"]))
                else:
                    res.ok({"function": f.path, "line": c.line, "behind": "free_chain/free_mini_chain or a not-a-stream branch"}, nontrivial=True)
        res.floor("removals of directory entries above the directory layer", n, ctx.table("floors").get("freefirst_sites", 0))
        return res
    return run


def handon(pid):
    """R-HANDON: when a node of the sibling tree is taken out, what hangs below it is handed on to whoever takes its
    place.  With one subtree empty and the other not, the one that is handed on must be the non-empty one: a copy of
    a link variable that is known (on that path) to be NO_STREAM, made while the node's OTHER link is known not to be,
    drops the whole other subtree - every name in it disappears from lookups and listings, though the entries and
    their sectors stay allocated."""
    def run(ctx):
        res = RuleResult("R-HANDON(%s)" % pid, "in the directory layer no copy of a sibling-link variable is made on a path where that link is known to be NO_STREAM while the same node's other sibling link is known not to be")
        n = 0
        for f in ctx.fx.fns.values():
            if not f.path.startswith("internal::directory::"):
                continue
            pr = Prov(f)
            dn = f.debug_names()
            links = {}
            for l, nm in dn.items():
                ds = [pr._def(d, 1, (l,)) for d in pr.defs.get(l, [])]
                if len(ds) == 1:
                    m = re.match(r"^Directory::dir_entry\(param:self,(var:\w+|param:\w+)\)\.(left_sibling|right_sibling)$", ds[0])
                    if m:
                        links[nm] = (m.group(1), m.group(2))
            if len(links) < 2:
                continue
            g = _guards(ctx, f)
            for bb, blk in enumerate(f.blocks):
                if blk["cleanup"]:
                    continue
                for i, st in enumerate(blk["stmts"]):
                    if st["s"] != "assign" or st["rv"]["r"] != "use" or st["rv"]["op"]["k"] not in ("copy", "move") or st["rv"]["op"]["place"]["proj"]:
                        continue
                    src = dn.get(st["rv"]["op"]["place"]["local"])
                    if src not in links or st["place"]["proj"]:
                        continue
                    node, fld = links[src]
                    other = [nm for nm, (nd, fl) in links.items() if nd == node and fl != fld]
                    if not other:
                        continue
                    n += 1
                    atoms = g.atoms_at(("s", bb, i))
                    def canon(nm_):
                        nd_, fl_ = links[nm_]
                        return "(?:var:%s|%s)" % (re.escape(nm_), re.escape("Directory::dir_entry(param:self,%s).%s" % (nd_, fl_)))
                    empty = any(re.match(r"^\(Eq\(%s,const:(\w+::)*NO_STREAM\)\)$" % canon(src), a) for a in atoms)
                    other_full = any(re.match(r"^\(Ne\(%s,const:(\w+::)*NO_STREAM\)\)$" % canon(other[0]), a) for a in atoms)
                    if empty and other_full:
                        res.fail(Finding(res.rule, "R-HANDON/%s/empty-link-handed-on" % f.path, "%s hands on `%s` (the %s link of %s) on a path where it is known to be NO_STREAM while `%s` is known not to be: the non-empty subtree is dropped from the sibling tree - its names vanish from lookups and listings" % (f.path.split("::")[-1], src, fld.split("_")[0], node, other[0]), f, st["span"]))
                    else:
                        res.ok({"function": f.path, "copied_link": src, "line": st["span"]["line"], "known_empty": empty, "other_known_non_empty": other_full}, nontrivial=True)
        res.floor("copies of sibling-link variables", n, ctx.table("floors").get("handon_sites", 0))
        return res
    return run


def slotid(pid):
    """R-SLOTID: allocate_dir_entry hands out either the index of the slot its scan found unallocated or the length of
    the table (the slot it appends).  The id it returns IS that number: any arithmetic on it names a neighbouring
    slot, whose live entry the caller then overwrites (and whose open handles are silently re-bound)."""
    def run(ctx):
        res = RuleResult("R-SLOTID(%s)" % pid, "every Ok payload of Directory::allocate_dir_entry is the scan's own index or the table length, with no arithmetic applied")
        f = ctx.fx.fns.get("internal::directory::Directory::<F>::allocate_dir_entry")
        if f is None:
            res.gone.append("allocate_dir_entry")
            return res
        pr = Prov(f)
        names = {nm: l for l, nm in f.debug_names().items()}
        n = 0
        for bb, blk in enumerate(f.blocks):
            if blk["cleanup"]:
                continue
            for i, st in enumerate(blk["stmts"]):
                if st["s"] == "assign" and st["place"]["local"] == 0 and not st["place"]["proj"] and st["rv"]["r"] == "aggregate" and st["rv"].get("variant") == "Ok":
                    n += 1
                    val = pr._def((bb, i, st), 0, ())
                    m = re.match(r"^Result::Ok\((.*)\)$", val)
                    inner = m.group(1) if m else val
                    mv = re.match(r"^var:(\w+)$", inner)
                    if mv and mv.group(1) in names:
                        ds = [pr._def(d, 1, (names[mv.group(1)],)) for d in pr.defs.get(names[mv.group(1)], [])]
                        if len(ds) == 1:
                            inner = ds[0]
                    inner = re.sub(r"^cast\((.*)\)$", r"\1", inner)
                    if re.search(r"\b(Add|Sub|Mul|Div|BitOr|BitAnd|Shl|Shr)\(|saturating_|wrapping_|checked_", inner):
                        res.fail(Finding(res.rule, "R-SLOTID/%s/arithmetic-on-slot-id" % f.path, "allocate_dir_entry returns %s: the id it hands out is not the slot it found free (or appended) but a neighbour of it; the caller overwrites that slot's live entry, and handles open on it now refer to the new object" % inner[:100], f, st["span"]))
                    else:
                        res.ok({"function": f.path, "returns": inner[:90], "line": st["span"]["line"]}, nontrivial=True)
        res.floor("Ok payloads of allocate_dir_entry", n, ctx.table("floors").get("slotid_sites", 0))
        return res
    return run



def selflink(pid):
    """R-SELFLINK: a chain link is stored in the PREVIOUS sector of the chain and names the NEXT one - never the sector
    it is stored in.  The DIFAT chain keeps its link in the last word of each DIFAT sector: the sector written is the
    last element of the list as it was BEFORE the new sector was appended to it.  `list.push(new); list[len - 1]` (or
    `.last()`) reads the new sector back: the new sector then points at itself, the previous one keeps END_OF_CHAIN,
    and every FAT sector listed in the new DIFAT sector is lost on reopening."""
    def run(ctx):
        from prov import _split_top, prov_eq
        res = RuleResult("R-SELFLINK(%s)" % pid, "no write of a sector id V into a sector S (through seek_within_sector) where S is V itself or the last element of a list read after V was pushed onto it")
        n = 0
        for f in ctx.fx.fns.values():
            v = view(ctx, f)
            pr = Prov(f)
            for c in v.calls.values():
                if not c.name.endswith("write_le_u32") or len(c.term["args"]) < 2:
                    continue
                h = pr.operand(c.term["args"][0])
                m = re.match(r"^ok\((?:\w+::)*Sectors::seek_within_sector\((.*)\)\)$", h)
                if not m:
                    continue
                ps = _split_top(m.group(1))
                if len(ps) != 3:
                    continue
                n += 1
                S, V = ps[1], pr.operand(c.term["args"][1])
                bad = None
                if prov_eq(S, V) and not re.match(r"^const:", V):
                    bad = "the sector written is the very id stored in it"
                else:
                    mw = re.match(r"^(?:[\w<>, ]*::)*index\((.*),Sub\(len\((.*)\),const:1\)\)$", S) or re.match(r"^ok\((?:<impl \[T\]>|Vec|\[T\])::last\((.*)\)\)$", S)
                    W = mw.group(1) if mw and (mw.lastindex == 1 or mw.group(1) == mw.group(2)) else None
                    if W:
                        pushes = [c2 for c2 in v.calls.values() if c2.name.split("::")[-1] == "push" and len(c2.term["args"]) == 2 and pr.operand(c2.term["args"][0]) == W and prov_eq(pr.operand(c2.term["args"][1]), V)]
                        reads = [c2 for c2 in v.calls.values() if c2.name.split("::")[-1] in ("index", "last") and c2.term["args"] and pr.operand(c2.term["args"][0]) == W and (c2.name.split("::")[-1] == "last" or re.match(r"^Sub\(len\(.*\),const:1\)$", pr.operand(c2.term["args"][1])))]
                        if pushes and reads:
                            oks = set()
                            for p_ in pushes:
                                oks.update(v.ok_nodes(p_.bb) or [("t", p_.bb)])
                            reach = v.pg.reach([v.pg.entry()], oks)
                            if all(("t", r_.bb) not in reach for r_ in reads):
                                bad = "the sector written is the last element of %s read AFTER the new id was pushed onto it (line %d)" % (W.split(".")[-1], pushes[0].line)
                if bad:
                    res.fail(Finding(res.rule, "R-SELFLINK/%s/%s" % (f.path, re.sub(r"param:\w+\.", "", S)[:60]), "%s: %s - the new sector links to itself and the old end of the chain is never updated" % (f.path.split("::")[-1], bad), f, c.term["span"]))
                else:
                    res.ok({"function": f.path, "line": c.line, "sector": S[:60], "value": V[:40]})
        res.floor("words written into sectors located by id", n, ctx.table("floors").get("selflink_sites", 0))
        return res
    return run


def setlennoop(pid):
    """R-SETLENNOOP: Stream::set_len may skip the resize only when the requested size equals the HANDLE's length
    (total_len, which counts the bytes still in the handle's buffer).  Compared with anything else - the length in
    the directory entry lags behind while appended bytes are buffered - a call that should cut those bytes off is
    ignored, len() keeps the old value and the bytes are flushed into the stream later."""
    def run(ctx):
        res = RuleResult("R-SETLENNOOP(%s)" % pid, "every Ok return of Stream::set_len that does not pass resize_stream is behind `size == self.total_len`")
        n = 0
        for f in ctx.fx.fns.values():
            if not re.search(r"internal::stream::Stream::<F>::set_len$", f.path):
                continue
            v = view(ctx, f)
            pg = v.pg
            g = _guards(ctx, f)
            rs = [c for c in v.calls.values() if c.name.endswith("resize_stream")]
            n += 1
            if not rs:
                res.fail(Finding(res.rule, "R-SETLENNOOP/no-resize", "Stream::set_len does not call resize_stream", f))
                continue
            stop = set(v.all_err_nodes())
            for c in rs:
                stop.update(v.ok_nodes(c.bb) or [("t", c.bb)])
            for bb, blk in enumerate(f.blocks):
                if blk["cleanup"] or blk["term"]["t"] != "switch":
                    continue
                t = blk["term"]
                vals = [str(x) for x, _ in t["arms"]] + ["otherwise"]
                tg = [b for _, b in t["arms"]] + [t["otherwise"]]
                for val, tgt in zip(vals, tg):
                    if any(re.match(r"^\(Eq\((param:size,param:self\.total_len|param:self\.total_len,param:size)\)\)$", a) for a in g.describe_all(bb, val, vals)):
                        stop.update(pg.edge_node(bb, tgt))
            reach = pg.reach([pg.entry()], stop)
            rets = [x for x in reach if x in set(pg.returns())]
            if rets:
                res.fail(Finding(res.rule, "R-SETLENNOOP/%s/skips-resize" % f.path, "Stream::set_len can return Ok without resizing although the requested size was not found equal to the handle's own length (total_len): a size that happens to equal some other length - the directory entry's, which does not count buffered bytes - is silently ignored", f, f.blocks[rets[0][1]]["term"]["span"]))
            else:
                res.ok({"function": f.path, "skips_only_if": "size == self.total_len"}, nontrivial=True)
        res.floor("set_len implementations", n, ctx.table("floors").get("setlennoop_sites", 0))
        return res
    return run


def allblack(pid):
    """R-ALLBLACK: the library does not balance its sibling trees; it keeps them valid red-black trees in the only way
    that needs no rotations: every entry it creates is black (MS-CFB 2.6.4: no red node has a red child - a tree
    without red nodes cannot break that).  A store of Color::Red into an allocated entry needs the whole red-black
    discipline (recolouring on insertion AND on every re-parenting in removal) to stay valid; nothing here checks
    that, so the store itself is reported."""
    def run(ctx):
        res = RuleResult("R-ALLBLACK(%s)" % pid, "no store into the `color` field of a directory entry, and no DirEntry built outside unallocated() / read_from, has a value other than Color::Black")
        n = 0
        for f in ctx.fx.fns.values():
            if f.path.endswith("DirEntry::unallocated") or f.path.endswith("DirEntry::read_from"):
                continue
            pr = None
            for bb, blk in enumerate(f.blocks):
                if blk["cleanup"]:
                    continue
                for i, st in enumerate(blk["stmts"]):
                    if st["s"] != "assign":
                        continue
                    val = None
                    fl = [e for e in st["place"]["proj"] if e["p"] == "field"]
                    if fl and fl[-1]["name"] == "color" and "DirEntry" in fl[-1].get("owner", ""):
                        pr = pr or Prov(f)
                        val = pr._def((bb, i, st), 0, ())
                    elif st["rv"]["r"] == "aggregate" and st["rv"].get("adt", "").endswith("direntry::DirEntry"):
                        pr = pr or Prov(f)
                        got = dict(zip(st["rv"].get("fields", []), [pr.operand(o) for o in st["rv"].get("ops", [])]))
                        val = got.get("color")
                        if val is not None and re.search(r"unallocated\(\)\.color$", val):
                            val = None      # `..DirEntry::unallocated()` with the colour overridden is judged by R-CTORVAL
                    if val is None:
                        continue
                    n += 1
                    if re.match(r"^(const:)?Color::Black(\(\))?$", val) or re.search(r"\.color$", val):     # (a copy of an entry keeps its colour)
                        res.ok({"function": f.path, "color": val})
                    else:
                        res.fail(Finding(res.rule, "R-ALLBLACK/%s/%s" % (f.path, val[:40]), "%s stores %s as the colour of a directory entry: with red entries in the tree every insertion and every re-parenting in remove_dir_entry has to keep 'no red entry has a red child', which this library (it never rotates or recolours) does not do" % (f.path.split("::")[-1], val[:60]), f, st["span"]))
        res.floor("colour stores", n, ctx.table("floors").get("allblack_sites", 0))
        return res
    return run


def stalechain(pid):
    """R-STALECHAIN: a Chain / MiniChain object caches the ids of its sectors; set_len appends to that cache when it
    grows the chain but does not shorten it when it cuts the chain.  A sector count or length read from the same
    object after a set_len that may shrink is the OLD count - written into a header word (the MiniFAT / directory
    sector count) it makes the image disagree with its own chains.  The count has to come from a chain opened again,
    or the set_len has to be known to grow (a dominating `old length < new length`)."""
    def run(ctx):
        res = RuleResult("R-STALECHAIN(%s)" % pid, "no num_sectors() / len() is read from a chain object after a set_len on that object that may have shortened the chain")
        n = 0
        for f in ctx.fx.fns.values():
            v = view(ctx, f)
            pr = Prov(f)
            sets = [c for c in v.calls.values() if re.search(r"(Chain|MiniChain)::<[^>]*>::set_len$", c.name) and c.term["args"]]
            if not sets:
                continue
            g = _guards(ctx, f)
            for c in sets:
                n += 1
                recv = pr.operand(c.term["args"][0])
                newlen = pr.operand(c.term["args"][1]) if len(c.term["args"]) > 1 else ""
                atoms = g.atoms_at(("t", c.bb))
                from prov import _split_top
                grows = False
                for a in atoms:
                    m_ = re.match(r"^\((Lt|Le|Gt|Ge)\((.*)\)\)$", a)
                    ps_ = _split_top(m_.group(2)) if m_ else []
                    if len(ps_) != 2:
                        continue
                    small, big = (ps_[0], ps_[1]) if m_.group(1) in ("Lt", "Le") else (ps_[1], ps_[0])
                    has = lambda x: bool(re.search(r"(Chain::len|MiniChain::len|num_sectors)\(", x))
                    if has(small) and not has(big):
                        grows = True
                later = []
                reach = v.pg.reach(v.ok_nodes(c.bb) or list(v.pg.succ[("t", c.bb)]), set())
                for c2 in v.calls.values():
                    if c2 is c or ("t", c2.bb) not in reach or not c2.term["args"]:
                        continue
                    if re.search(r"(Chain|MiniChain)::<[^>]*>::(num_sectors|len)$", c2.name) and pr.operand(c2.term["args"][0]) == recv:
                        later.append(c2)
                if later and not grows:
                    res.fail(Finding(res.rule, "R-STALECHAIN/%s/%s" % (f.path, later[0].name.split("::")[-1]), "%s reads %s() from the chain object it has just cut with set_len(%s) (line %d): the object still lists the sectors it had before, so the value is the old one" % (f.path.split("::")[-1], later[0].name.split("::")[-1], newlen[:50], c.line), f, later[0].term["span"]))
                else:
                    res.ok({"function": f.path, "set_len_line": c.line, "later_reads_of_the_same_object": len(later), "known_to_grow": grows})
        res.floor("set_len calls on chain objects", n, ctx.table("floors").get("stalechain_sites", 0))
        return res
    return run

def keepcount(pid):
    """R-KEEPCOUNT: shrinking a chain to N sectors frees everything after sector_ids[N - 1].  The call that cuts the
    chain sits under the test `N < sector_ids.len()`; its argument must be the id at index N - 1 of the same list.
    Index N keeps one sector too many (its old bytes come back when the stream grows again); index N - 2 frees a
    sector the length still covers."""
    def run(ctx):
        res = RuleResult("R-KEEPCOUNT(%s)" % pid, "every free_chain_after / free_mini_chain_after on an element of self.sector_ids under a guard N < sector_ids.len() takes the element at index N - 1")
        n = 0
        for f in ctx.fx.fns.values():
            if not re.search(r"internal::(chain|minichain)::", f.path):
                continue
            v = view(ctx, f)
            pr = None
            for bb, c in sorted(v.calls.items()):
                if not re.search(r"::(free_chain_after|free_mini_chain_after)$", c.name) or len(c.term["args"]) < 2:
                    continue
                pr = pr or Prov(f)
                a = pr.operand(c.term["args"][1])
                m = re.match(r"^(?:deref\()?Index<I>::index\(param:self\.sector_ids,(.*)\)\)?$", a)
                k = m.group(1) if m else None
                if not m:
                    # `self.sector_ids[..N].last()` is the element at N - 1, `[..=N].last()` the one at N
                    m2 = re.match(r"^(?:deref\()?(?:ok|some)\(<impl \[T\]>::last\(Index<I>::index\(param:self\.sector_ids,(RangeToInclusive::RangeToInclusive|RangeTo::RangeTo)\((.*)\)\)\)\)\)?$", a)
                    if m2:
                        k = m2.group(2) if m2.group(1).startswith("RangeToInclusive") else "Sub(%s,const:1)" % m2.group(2)
                if k is None:
                    continue
                # `n.checked_sub(1)` taken on its Some arm is n - 1
                k = re.sub(r"^(?:ok|some)\((?:<impl \w+>::|\w+::)checked_sub\((.*)\)\)$", r"Sub(\1)", k)
                atoms = _guards(ctx, f).atoms_at(("t", bb))
                ns = [re.match(r"^\(Lt\((.*),len\(param:self\.sector_ids\)\)\)$", x) for x in atoms]
                ns = [x.group(1) for x in ns if x]
                if not ns:
                    # the cut sits under a comparison with something DERIVED from the list's length (len - 1, len / 2):
                    # then some shrink that should cut does not - the sectors it keeps come back with their old bytes
                    odd = [x for x in atoms if re.match(r"^\((Lt|Le)\(.*,(?!len\(param:self\.sector_ids\)\)\)$).*len\(param:self\.sector_ids\).*\)\)$", x)]
                    if odd:
                        n += 1
                        res.fail(Finding(res.rule, "R-KEEPCOUNT/%s/cut-under-adjusted-guard" % f.path, "%s cuts the chain only under %s: a shrink by fewer sectors than that leaves the surplus sectors linked, and a later grow exposes their old bytes instead of zeros" % (f.path.split("::")[-1], odd[0][:100]), f, c.term["span"]))
                    continue
                n += 1
                if any(k == "Sub(%s,const:1)" % nn for nn in ns):
                    res.ok({"function": f.path, "line": c.line, "keeps": ns[0][:60], "cuts_after_index": k[:60]}, nontrivial=True)
                else:
                    res.fail(Finding(res.rule, "R-KEEPCOUNT/%s/cut-at-wrong-index" % f.path, "%s is to keep %s sectors (the guard is %s < sector_ids.len()) but cuts the chain after index %s instead of %s - 1: one sector too many stays linked (a later grow exposes its old bytes) or one too few" % (f.path.split("::")[-1], ns[0][:50], ns[0][:50], k[:50], ns[0][:50]), f, c.term["span"]))
        res.floor("chain cuts", n, ctx.table("floors").get("keepcount_sites", 0))
        return res
    return run


def seekend(pid):
    """R-SEEKEND: a position equal to the length is a legal position (that is where appending starts, and where a
    window that begins at the end of the stream is flushed to).  The seek implementations of Chain, MiniChain, Sector
    and Stream refuse only positions GREATER than the length: no refusal there lies behind `position >= length`
    or `position == length`."""
    def run(ctx):
        from rules_api import refusals
        res = RuleResult("R-SEEKEND(%s)" % pid, "no seek implementation refuses a position equal to the length (refusals test `> len`, never `>= len`)")
        n = 0
        for f in ctx.fx.fns.values():
            if f.d.get("impl_trait") != "std::io::Seek" or f.d["name"] != "seek" or not re.search(r"internal::(chain|minichain|sector|stream)::", f.path):
                continue
            g = _guards(ctx, f)
            v = view(ctx, f)
            pg = v.pg
            refs = {("t", c.bb) for (c, kind) in refusals(ctx, f)}
            okret = set()
            for bb2, blk2 in enumerate(f.blocks):
                for i2, st2 in enumerate(blk2["stmts"]):
                    if st2["s"] == "assign" and st2["place"]["local"] == 0 and st2["rv"]["r"] == "aggregate" and st2["rv"].get("variant") == "Ok":
                        okret.add(("s", bb2, i2))
            seen_e = set()
            for b2, k2, val2, vals2 in _edges(f):
                for a in g.describe_all(b2, val2, vals2):
                    m = re.match(r"^\((Gt|Ge|Eq)\((.*),((?:Mini)?Chain::len\(param:self\)|Sector::len\(param:self\)|param:self\.total_len)\)\)$", a)
                    if not m:
                        continue
                    en = pg.edge_node(b2, f.succ(b2)[k2])
                    if not en or en[0] in seen_e:
                        continue
                    r_ = pg.reach(en)
                    # an edge that only leads to refusals
                    if not (refs & r_) or (okret & r_):
                        continue
                    seen_e.add(en[0])
                    n += 1
                    if m.group(1) == "Gt":
                        res.ok({"function": f.path, "refuses": a[:90]}, nontrivial=True)
                    else:
                        res.fail(Finding(res.rule, "R-SEEKEND/%s/end-position-refused" % f.path, "%s refuses the position that equals the length (%s): nothing can be appended at the end of the chain / stream, and a buffered window that starts exactly at the end cannot be written back" % (f.path.split("::")[-1], a[:100]), f, f.blocks[b2]["term"]["span"]))
        res.floor("upper-bound refusals of seek implementations", n, ctx.table("floors").get("seekend_sites", 0))
        return res
    return run


def seekbound(pid):
    """R-SEEKBOUND: Stream::seek validates its target before it touches anything: the new position it computes is at
    most total_len in every arm.  For `SeekFrom::Start(d)` that is `d <= total_len`; for a forward `Current(d)` it is
    `d <= total_len - position` (comparing d with total_len itself lets position + d run past the end: the call
    returns Ok, flushes the buffered bytes and leaves the handle beyond the stream)."""
    def run(ctx):
        res = RuleResult("R-SEEKBOUND(%s)" % pid, "every value Stream::seek stores as the new position is bounded by total_len through a dominating comparison of the right operands")
        n = 0
        for f in ctx.fx.fns.values():
            if f.d.get("impl_trait") != "std::io::Seek" or f.d["name"] != "seek" or "internal::stream::Stream" not in f.path:
                continue
            pr = Prov(f)
            g = _guards(ctx, f)
            # the variable that holds the new position: the payload of the function's Ok return (whatever it is called)
            l = None
            for blk_ in f.blocks:
                if blk_["cleanup"]:
                    continue
                for st_ in blk_["stmts"]:
                    if st_["s"] == "assign" and st_["place"]["local"] == 0 and not st_["place"]["proj"] and st_["rv"]["r"] == "aggregate" and st_["rv"].get("variant") == "Ok" \
                            and st_["rv"]["ops"] and st_["rv"]["ops"][0]["k"] in ("copy", "move") and not st_["rv"]["ops"][0]["place"]["proj"]:
                        l = st_["rv"]["ops"][0]["place"]["local"]
            hops_ = 0
            while l is not None and hops_ < 6 and l not in f.debug_names():
                ds_ = pr.defs.get(l, [])
                if len(ds_) == 1 and ds_[0][1] != "t" and ds_[0][2]["rv"]["r"] == "use" and ds_[0][2]["rv"]["op"]["k"] in ("copy", "move") and not ds_[0][2]["rv"]["op"]["place"]["proj"]:
                    l = ds_[0][2]["rv"]["op"]["place"]["local"]
                    hops_ += 1
                else:
                    break
            if l is None:
                continue
            for d in pr.defs.get(l, []):
                node = ("t", d[0]) if d[1] == "t" else ("s", d[0], d[1])
                val = pr._def(d, 1, (l,))
                atoms = g.atoms_at(node)
                from prov import _split_top
                for alt in (val[4:-1].split("|") if val.startswith("phi(") and val.endswith(")") else [val]):
                    n += 1
                    ok = None
                    m = re.match(r"^Add\((.*)\)$", alt)
                    if m:
                        ps = _split_top(m.group(1))
                        if len(ps) == 2:
                            p_, d_ = ps
                            ok = any(a in ("(Le(%s,Sub(param:self.total_len,%s)))" % (d_, p_), "(Le(%s,Sub(param:self.total_len,%s)))" % (p_, d_), "(Le(cast(%s),Sub(param:self.total_len,%s)))" % (d_, p_)) for a in atoms) or \
                                any(re.match(r"^\(Le\((cast\()?%s\)?,Sub\(param:self\.total_len,%s\)\)\)$" % (re.escape(d_), re.escape(p_)), a) for a in atoms)
                    elif re.match(r"^Sub\(|^ok\(<impl u64>::checked_sub\(|^<impl u64>::saturating_sub\(", alt):
                        ok = True       # a difference of two positions within the stream
                    else:
                        ok = any(re.match(r"^\(Le\(%s,param:self\.total_len\)\)$" % re.escape(alt), a) for a in atoms)
                    if ok:
                        res.ok({"function": f.path, "new_position": alt[:80]}, nontrivial=True)
                    else:
                        res.fail(Finding(res.rule, "R-SEEKBOUND/%s/target-not-bounded" % f.path, "Stream::seek computes the new position %s without a dominating comparison that keeps it within total_len (conditions there: %s): an out-of-range seek returns Ok, writes the buffered bytes back and leaves the handle past the end of the stream" % (alt[:80], "; ".join(a[:70] for a in atoms[:3])), f))
        res.floor("new-position definitions in Stream::seek", n, ctx.table("floors").get("seekbound_sites", 0))
        return res
    return run


def wholetable(pid):
    """R-WHOLE: the open-time validators examine (and, in permissive mode, repair) EVERY element of the tables they are
    responsible for: the FAT sectors listed in the DIFAT, the DIFAT sectors, every FAT / MiniFAT cell, every
    directory entry.  An iteration narrowed by skip / take / step_by / filter or a sub-slice leaves part of a table
    unchecked - strict open then accepts a deviation in the skipped part, and permissive open does not repair it."""
    def run(ctx):
        res = RuleResult("R-WHOLE(%s)" % pid, "no iteration over self.difat / self.difat_sector_ids / self.fat / self.minifat / self.dir_entries in a validate function is narrowed by skip, take, step_by, filter, nth or a sub-slice")
        n = 0
        tables = r"param:self\.(difat|difat_sector_ids|fat|minifat|dir_entries)\b"
        for f in ctx.fx.fns.values():
            if not re.search(r"internal::(alloc|minialloc|directory)::.*::validate$", f.path):
                continue
            v = view(ctx, f)
            pr = Prov(f)
            for bb, c in sorted(v.calls.items()):
                short = c.name.split("::")[-1]
                if short in ("iter", "iter_mut", "into_iter") and c.term["args"] and re.search(tables, pr.operand(c.term["args"][0])) and "Iterator" not in c.name.split("::")[-2:-1]:
                    n += 1
                if short == "filter" and any(c2.name.split("::")[-1] == "extend" and len(c2.term["args"]) == 2 and re.search(r"^param:self\.free_\w*sectors$", pr.operand(c2.term["args"][0])) and "filter(" in pr.operand(c2.term["args"][1]) for c2 in v.calls.values()):
                    continue        # the rebuild of the free list picks the FREE cells out of the table: that is its job, not a narrowed check
                if short in ("skip", "take", "step_by", "filter", "skip_while", "take_while", "nth", "split_at", "chunks", "split_first", "split_last") and c.term["args"] and re.search(tables, pr.operand(c.term["args"][0])):
                    res.fail(Finding(res.rule, "R-WHOLE/%s/%s" % (f.path, short), "%s walks %s through .%s(..): the elements left out are neither checked under strict validation nor repaired under permissive validation" % (f.path.split("::")[-1], re.search(tables, pr.operand(c.term["args"][0])).group(0)[6:], short), f, c.term["span"]))
        # the parser reads its tables whole as well: the FAT sectors are taken from the entire DIFAT (not from as many
        # entries as a header count says - a wrong count is a tolerated deviation), and every counted read loop starts at 0
        nr = 0
        for f in ctx.fx.fns.values():
            if not (f.path.endswith("::open_internal") or f.path.endswith("Header::read_from") or f.path.endswith("DirEntry::read_from") or f.path.endswith("SectorInit::initialize")):
                continue
            v = view(ctx, f)
            pr = Prov(f)
            for bb, c in sorted(v.calls.items()):
                short = c.name.split("::")[-1]
                args = [pr.operand(a) for a in c.term["args"]]
                if short in ("skip", "take", "step_by", "filter", "nth") and args and re.search(r"(iter|iter_mut|into_iter)\((var:|param:self\.)(difat|fat|minifat|difat_sector_ids|dir_entries)\b", args[0]):
                    nr += 1
                    res.fail(Finding(res.rule, "R-WHOLE/%s/%s" % (f.path, short), "%s walks a table through .%s(..): what the header says about its size is only a (tolerated) claim, the table itself is what was read" % (f.path.split("::")[-1], short), f, c.term["span"]))
                if short == "into_iter" and args:
                    m = re.match(r"^Range::Range\((.*)\)$", args[0])
                    if m:
                        from prov import _split_top
                        ps = _split_top(m.group(1))
                        if len(ps) == 2:
                            nr += 1
                            if ps[0] != "const:0" and re.match(r"^const:\d+$", ps[0]):
                                res.fail(Finding(res.rule, "R-WHOLE/%s/range-start" % f.path, "a counted read / initialisation loop in %s runs over %s..%s: the first %s element(s) are never read or written" % (f.path.split("::")[-1], ps[0][6:], ps[1][:50], ps[0][6:]), f, c.term["span"]))
                            elif f.path.endswith("::open_internal") and "Chain::len(" in ps[1] and re.search(r"\bmin\(|Ord::min|cmp::min|saturating_sub|stream_len", ps[1]):
                                # a table read from a chain (the MiniFAT) is read as long as the chain is: what the root
                                # entry says the mini stream needs is what strict validation compares it WITH
                                res.fail(Finding(res.rule, "R-WHOLE/%s/chain-table-read-capped" % f.path, "open_internal reads only %s entries of a table that lies in a chain: the entries beyond are never seen, so the check that refuses an over-long table under strict validation (and the truncation under permissive validation) has nothing left to look at" % ps[1][:90], f, c.term["span"]))
                            elif f.path.endswith("SectorInit::initialize") and "Sector::len(param:sector)" not in ps[1]:
                                res.fail(Finding(res.rule, "R-WHOLE/%s/init-count-not-from-sector" % f.path, "SectorInit::initialize fills %s units: the count does not come from the sector's own length, so a sector of the other size is only partly initialised (the rest keeps whatever the file held there)" % ps[1][:60], f, c.term["span"]))
                            else:
                                res.ok({"function": f.path, "range": args[0][:80]})
        res.floor("counted loops of the parser and the initialisers", nr, ctx.table("floors").get("whole_ranges", 0))
        res.floor("table iterations in validate functions", n, ctx.table("floors").get("whole_iters", 0))
        return res
    return run


def fmtconst(pid):
    """R-FMTCONST: the per-version constants of the format (sector shift, version number, the width of the stream-size
    field) are returned by small table functions; each arm returns the value MS-CFB fixes (rules/fmtconst.json)."""
    def run(ctx):
        res = RuleResult("R-FMTCONST(%s)" % pid, "Version::sector_shift / number / from_number / stream_len_mask return, per version, the values MS-CFB fixes")
        n = 0
        for fp, want in ctx.table("fmtconst").get("tables", {}).items():
            f = ctx.fx.fns.get(fp)
            if f is None:
                res.gone.append(fp)
                continue
            pr = Prov(f)
            g = _guards(ctx, f)
            got = {}
            for bb, blk in enumerate(f.blocks):
                if blk["cleanup"]:
                    continue
                for i, st in enumerate(blk["stmts"]):
                    if st["s"] == "assign" and st["place"]["local"] == 0 and not st["place"]["proj"]:
                        here = set(g.atoms_at(("s", bb, i)))
                        # `if matches!(self, V3) {..} else {..}`: the else branch of a test on an enum whose other
                        # variants are all excluded is the remaining variant
                        for c in want:
                            m_ = re.match(r"(.+) is (\S+)$", c)
                            others = [o for o in want if o != c and re.match(r"(.+) is (\S+)$", o) and o.split(" is ")[0] == (m_.group(1) if m_ else None)]
                            if m_ and others and all((o.replace(" is ", " is not ") in here) for o in others):
                                here.add(c)
                        for a in here:
                            got.setdefault(numeric(a), set()).add(numeric(pr._def((bb, i, st), 0, ())))
            for cond, val in want.items():
                if cond not in got:
                    continue
                n += 1
                if got[cond] == {val}:
                    res.ok({"function": fp, "when": cond, "returns": val})
                else:
                    res.fail(Finding(res.rule, "R-FMTCONST/%s/%s" % (fp, cond.split()[-1]), "%s returns %s where %s; the format fixes %s" % (fp.split("::")[-1], "/".join(sorted(got[cond]))[:60], cond, val), f))
        res.floor("format constants", n, ctx.table("floors").get("fmtconst_sites", 0))
        return res
    return run


def handlekind(pid):
    """R-HANDLEKIND: a stream handle is only ever made for an entry that was found to be a stream.  Stream::new in the
    API layer lies behind `obj_type is ObjType::Stream` (or behind the creation of that very entry as a stream).  A
    handle on a storage or on the root reads and resizes the mini stream's own chain as if it were a user stream."""
    def run(ctx):
        res = RuleResult("R-HANDLEKIND(%s)" % pid, "every Stream::new on an existing entry in the API layer is dominated by a test that established obj_type is ObjType::Stream")
        n = 0
        for f in ctx.fx.fns.values():
            if f.path.startswith("internal::"):
                continue
            v = view(ctx, f)
            pr = None
            for bb, c in sorted(v.calls.items()):
                if not re.search(r"internal::stream::Stream::<F>::new$", c.name) or len(c.term["args"]) < 2:
                    continue
                pr = pr or Prov(f)
                idp = pr.operand(c.term["args"][1])
                n += 1
                atoms = _guards(ctx, f).atoms_at(("t", bb))
                fresh = re.search(r"insert_dir_entry\(|insert_child_entry\(", idp) is not None
                if fresh:
                    res.ok({"function": f.path, "line": c.line, "entry": "just created as a stream"}, nontrivial=True)
                elif any(re.search(r" is ObjType::Stream$", a) for a in atoms):
                    res.ok({"function": f.path, "line": c.line, "entry": "found to be a stream"}, nontrivial=True)
                else:
                    res.fail(Finding(res.rule, "R-HANDLEKIND/%s/handle-on-unchecked-entry" % f.path, "%s makes a stream handle for entry %s without having established that it is a stream (type tests on the path: %s): for a storage or the root the handle reads, resizes or frees a chain that is not a user stream's" % (f.path.split("::")[-1], idp[:50], "; ".join(a[-50:] for a in atoms if "ObjType::" in a)[:150] or "none"), f, c.term["span"]))
        res.floor("stream handles made in the API layer", n, ctx.table("floors").get("handlekind_sites", 0))
        return res
    return run


def storagefields(pid):
    """R-STORAGEFIELDS: `start sector or size on storages` is a tolerated deviation: whatever a storage entry carries in
    those two fields, permissive open reads the entry as if they were zero.  In DirEntry::read_from, on the paths a
    Storage entry takes in permissive mode, no test of a value computed from the start-sector or size words decides
    between acceptance and refusal."""
    def run(ctx):
        from rules_sink import _edge_label
        from cfg import reach_flag_aware
        from dataflow import forward_taint
        res = RuleResult("R-STORAGEFIELDS(%s)" % pid, "on the paths of DirEntry::read_from that a Storage entry takes in permissive mode, no comparison of the start-sector / size words separates an accepted entry from a refused one")
        f = ctx.fx.fns.get("internal::direntry::DirEntry::read_from")
        if f is None:
            res.gone.append("DirEntry::read_from")
            return res
        v = view(ctx, f)
        pg = v.pg
        g = _guards(ctx, f)
        targets = set()
        oks = []
        for bb, blk in enumerate(f.blocks):
            if blk["cleanup"]:
                continue
            for i, st in enumerate(blk["stmts"]):
                if st["s"] != "assign" or st["rv"]["r"] != "aggregate":
                    continue
                if st["place"]["local"] == 0 and not st["place"]["proj"] and st["rv"].get("variant") == "Ok":
                    oks.append(("s", bb, i))
                if str(st["rv"].get("adt", "")).endswith("DirEntry"):
                    names = st["rv"].get("fields") or []
                    for k, op in enumerate(st["rv"].get("ops", [])):
                        if k < len(names) and names[k] in ("start_sector", "stream_len") and op_local(op) is not None:
                            targets.add(op_local(op))
        seeds = set()
        for bb, c in v.calls.items():
            if re.search(r"read_le_u(32|64)$", c.name) and not c.term["dest"]["proj"]:
                d = c.term["dest"]["local"]
                if targets & forward_taint(f, {d}, through_calls=True):
                    seeds.add(d)
        T = forward_taint(f, seeds, through_calls=True) if seeds else set()
        barrier = set()
        for b, blk in enumerate(f.blocks):
            if blk["cleanup"] or blk["term"]["t"] != "switch":
                continue
            for k, tgt in enumerate(f.succ(b)):
                val, vals = _edge_label(f, b, k)
                for a in g.describe_all(b, val, vals):
                    if re.search(r" is not ObjType::Storage$", a) or (re.search(r" is ObjType::(\w+)$", a) and not a.endswith("::Storage")) or re.match(r"^\(Validation::is_strict\(", a):
                        barrier.update(pg.edge_node(b, tgt))
        reach = reach_flag_aware(f, pg, [pg.entry()], barrier)
        n = 0
        for b, blk in enumerate(f.blocks):
            t = blk["term"]
            if blk["cleanup"] or t["t"] != "switch" or ("t", b) not in reach:
                continue
            dl = op_local(t["discr"])
            if dl is None or dl not in T:
                continue
            if any(st["s"] == "assign" and st["place"]["local"] == dl and st["rv"]["r"] == "discriminant" for st in blk["stmts"]) or f.locals[dl]["s"] not in ("bool", "u8", "u16", "u32", "u64", "usize"):
                continue
            n += 1
            verdicts = []
            for tgt in sorted(set(f.succ(b))):
                es = [e for e in pg.edge_node(b, tgt) if e not in barrier]
                if not es:
                    continue
                r2 = pg.reach(es, barrier)
                verdicts.append(any(o in r2 for o in oks))
            if verdicts and any(verdicts) and not all(verdicts):
                res.fail(Finding(res.rule, "R-STORAGEFIELDS/%s/storage-refused-on-start-or-size" % f.path, "a Storage entry read in permissive mode reaches a test of a value computed from its start-sector / size words, and one outcome of the test can only end in a refusal: garbage in fields the library documents as tolerated on storages makes permissive open fail", f, t["span"]))
            else:
                res.ok({"test_line": t["span"]["line"], "outcomes_accepting": verdicts}, nontrivial=True)
        if n == 0:
            res.ok({"reachable_tests_of_the_two_words": 0, "words_read_at": sorted(f.blocks[b_]["term"]["span"]["line"] for b_, c_ in v.calls.items() if not c_.term["dest"]["proj"] and c_.term["dest"]["local"] in seeds)}, nontrivial=True)
        res.floor("reads feeding start_sector / stream_len", len(seeds), ctx.table("floors").get("storagefields_reads", 0))
        res.floor("Ok returns of read_from", len(oks), ctx.table("floors").get("nameinv_oks", 0))
        return res
    return run


def callee_name_(t):
    from facts import callee_name
    return callee_name(t) or ""


def _mutators_of(ctx, field):
    """Functions that change the length of `self.<field>` (directly, or through a callee that does)."""
    cache = ctx.__dict__.setdefault("_len_mutators", {})
    if field in cache:
        return cache[field]
    MUT = ("push", "pop", "truncate", "clear", "remove", "swap_remove", "drain", "split_off", "retain", "insert", "extend", "extend_from_slice", "append", "resize")
    out = set()
    for f in ctx.fx.fns.values():
        pr = None
        for c in ctx.cg.calls[f.path]:
            if c.name.split("::")[-1] in MUT and "Vec" in c.name and c.term["args"]:
                pr = pr or Prov(f)
                if pr.operand(c.term["args"][0]) == "param:self." + field:
                    out.add(f.path)
    changed = True
    while changed:
        changed = False
        for p, f in ctx.fx.fns.items():
            if p in out:
                continue
            pr = None
            for c in ctx.cg.calls[p]:
                if any(g.path in out for g in c.targets) and c.term.get("args"):
                    pr = pr or Prov(f)
                    if pr.operand(c.term["args"][0]) in ("param:self", "deref(param:self)"):
                        out.add(p)
                        changed = True
                        break
    cache[field] = out
    return out


def growcount(pid):
    """R-GROWCOUNT: a count taken from a table describes the table at that moment.  The sector list of a chain handle
    is the chain: growing to N sectors appends N - len sectors, where len is the length of the list when the appending
    starts.  The cached FAT is the file: the id of a sector added at the end of the file is fat.len() when that sector
    is added.  A length taken earlier and used (as the start of a counting range, as a new sector's id, in a
    comparison or an index) after the table was already pushed to or cut - directly or by a callee - counts against a
    table that no longer exists: a chain grown from empty gets one sector more than its length covers, a new DIFAT
    sector gets the id the new FAT sector was just given.  Handing the old length to `truncate` on the same table (the
    roll-back of a failed append) is the one use that wants the old value."""
    MUT = ("push", "pop", "truncate", "clear", "remove", "swap_remove", "drain", "split_off", "retain", "insert", "extend", "extend_from_slice", "append", "resize")
    # the allocators are not in scope: there `let id = fat.len(); set_fat(id, ..); init_sector(id, ..)` uses the old
    # length on purpose, as the id of the entry just pushed (R-FRESHID decides those)
    SCOPE = [(r"internal::(chain|minichain)::", ("sector_ids",))]

    def run(ctx):
        res = RuleResult("R-GROWCOUNT(%s)" % pid, "in the chain handles (Chain, MiniChain) no value of self.sector_ids.len() is used after the list was changed (directly or by a callee) on the way from where the length was taken - except to roll the same list back")
        n = 0
        for f in ctx.fx.fns.values():
            fields = [fl for rx, fls in SCOPE if re.search(rx, f.path) for fl in fls]
            if not fields or f.kind == "closure":
                continue
            v = view(ctx, f)
            calls = list(v.calls.values())
            lens = [c for c in calls if re.search(r"Vec::<T, A>::len$", c.name) and c.term["args"] and not c.term["dest"]["proj"]]
            if not lens:
                continue
            pr = Prov(f)
            for c in lens:
                m = re.match(r"^param:self\.(\w+)$", pr.operand(c.term["args"][0]))
                if not m or m.group(1) not in fields:
                    continue
                field = m.group(1)
                n += 1
                mutators = _mutators_of(ctx, field)
                muts = []
                for x in calls:
                    if not x.term.get("args"):
                        continue
                    a0 = pr.operand(x.term["args"][0])
                    if x.name.split("::")[-1] in MUT and "Vec" in x.name and a0 == "param:self." + field:
                        muts.append(x)
                    elif a0 in ("param:self", "deref(param:self)") and _call_pushes(ctx, f, x.bb, mutators):
                        muts.append(x)
                if not muts:
                    res.ok({"function": f.path, "table": field, "len_line": c.line, "table_changed": False})
                    continue
                # the length and its plain copies; a copy into a variable that is assigned more than once (a loop
                # counter started at the length) is a use of the length at that point, not another name for it
                ndefs = {}
                for blk in f.blocks:
                    for st in blk["stmts"]:
                        if st["s"] == "assign" and not st["place"]["proj"]:
                            ndefs[st["place"]["local"]] = ndefs.get(st["place"]["local"], 0) + 1
                    if blk["term"]["t"] == "call" and not blk["term"]["dest"]["proj"]:
                        ndefs[blk["term"]["dest"]["local"]] = ndefs.get(blk["term"]["dest"]["local"], 0) + 1
                if ndefs.get(c.term["dest"]["local"], 0) > 1:
                    # `let mut index = list.len(); while index < n { push; index += 1 }`: the length starts a counter
                    res.ok({"function": f.path, "table": field, "len_line": c.line, "starts_a_counter": True})
                    continue
                held = {c.term["dest"]["local"]}
                counter_inits = []
                changed = True
                while changed:
                    changed = False
                    for b_, blk in enumerate(f.blocks):
                        for i_, st in enumerate(blk["stmts"]):
                            if st["s"] == "assign" and not st["place"]["proj"] and st["rv"]["r"] in ("use", "cast") and op_local(st["rv"]["op"]) in held and st["place"]["local"] not in held:
                                if ndefs.get(st["place"]["local"], 0) > 1:
                                    if (("s", b_, i_), st["span"]) not in counter_inits:
                                        counter_inits.append((("s", b_, i_), st["span"]))
                                    continue
                                held.add(st["place"]["local"])
                                changed = True
                uses = list(counter_inits)
                for b, blk in enumerate(f.blocks):
                    if blk["cleanup"]:
                        continue
                    for i, st in enumerate(blk["stmts"]):
                        if st["s"] != "assign":
                            continue
                        rv = st["rv"]
                        ops = [rv[k] for k in ("op", "a", "b") if isinstance(rv.get(k), dict)] + (rv.get("ops", []) if isinstance(rv.get("ops"), list) else [])
                        if rv["r"] not in ("use", "cast") and any(op_local(o) in held for o in ops):
                            uses.append((("s", b, i), st["span"]))
                    t = blk["term"]
                    if t["t"] == "call" and any(op_local(a) in held for a in t["args"]):
                        nm = callee_name_(t)
                        if nm.split("::")[-1] == "truncate" and t["args"] and pr.operand(t["args"][0]) == "param:self." + field:
                            continue        # roll-back to the snapshot
                        if nm.startswith("core::panicking") or nm.startswith("std::rt::") or "fmt::" in nm:
                            continue
                        uses.append((("t", b), t["span"]))
                    if t["t"] == "switch" and op_local(t["discr"]) in held:
                        uses.append((("t", b), t["span"]))
                stale = None
                for mx in muts:
                    if ("t", mx.bb) not in v.pg.reach_after(("t", c.bb)):
                        continue
                    after = v.pg.reach_after(("t", mx.bb), avoid={("t", c.bb)})
                    for node, sp in uses:
                        if node in after:
                            stale = (sp, mx)
                            break
                    if stale:
                        break
                if stale:
                    res.fail(Finding(res.rule, "R-GROWCOUNT/%s/stale-length-of-%s" % (f.path, field), "the value of self.%s.len() taken at line %d is used at line %d after the table was changed by %s() at line %d: the count or id it feeds (sectors to append, the index to cut at, the number of a sector added at the end of the file) is off by what was pushed or cut in between" % (field, c.line, stale[0]["line"], stale[1].name.split("::")[-1], stale[1].line), f, stale[0]))
                else:
                    res.ok({"function": f.path, "table": field, "len_line": c.line, "table_changed_later": True, "length_used_after_change": False}, nontrivial=True)
        res.floor("lengths of the sector list taken in chain handles", n, ctx.table("floors").get("growcount_sites", 0))
        return res
    return run


def difatlink(pid):
    """R-DIFATLINK: a fresh DIFAT sector is FREE in every slot and END_OF_CHAIN in its last word, the link (MS-CFB 2.5).
    The reader takes any non-FREE slot for a FAT sector id, and the link for the next DIFAT sector.  So on the Difat
    arm of SectorInit::initialize the END_OF_CHAIN word reaches the sector through exactly one write that is not inside
    a loop: written by a loop (a pattern block repeated per 512 bytes) it lands in every 128th slot of a 4096-byte
    sector and the image stops reopening once such a sector exists."""
    def run(ctx):
        from rules_sink import _edge_label
        from cfg import natural_loops
        res = RuleResult("R-DIFATLINK(%s)" % pid, "on the Difat arm of SectorInit::initialize END_OF_CHAIN is written to the sector by a write outside every loop (once per sector, as the last word), and by no write inside a loop")
        f = ctx.fx.fns.get("internal::sector::SectorInit::initialize")
        if f is None:
            res.gone.append("SectorInit::initialize")
            return res
        v = view(ctx, f)
        pg = v.pg
        g = _guards(ctx, f)
        pr = Prov(f)
        barrier = set()
        for b, blk in enumerate(f.blocks):
            if blk["cleanup"] or blk["term"]["t"] != "switch":
                continue
            for k, tgt in enumerate(f.succ(b)):
                val, vals = _edge_label(f, b, k)
                for a in g.describe_all(b, val, vals):
                    if re.search(r"param:self is not SectorInit::Difat$", a) or (re.search(r"param:self is SectorInit::(\w+)$", a) and not a.endswith("::Difat")):
                        barrier.update(pg.edge_node(b, tgt))
        reach = pg.reach([pg.entry()], barrier)
        inloop = set()
        for (h, body, back) in natural_loops(f):
            inloop |= set(body)
        once, many, n_writes = [], [], 0
        for bb, c in sorted(v.calls.items()):
            if ("t", bb) not in reach or "io_write" not in ctx.cg.call_effects(c):
                continue
            n_writes += 1
            if not any("END_OF_CHAIN" in pr.operand(a) or "4294967294" in pr.operand(a) for a in c.term["args"]):
                continue
            (many if bb in inloop else once).append(c)
        if many:
            res.fail(Finding(res.rule, "R-DIFATLINK/%s/link-word-written-in-a-loop" % f.path, "the Difat arm writes END_OF_CHAIN inside a loop: every repetition puts the link marker into a slot", f, many[0].term["span"]))
        elif not once:
            sp = f.d["span"] if isinstance(f.d.get("span"), dict) else f.blocks[0]["term"]["span"]
            res.fail(Finding(res.rule, "R-DIFATLINK/%s/no-single-write-of-the-link-word" % f.path, "no write on the Difat arm outside a loop carries END_OF_CHAIN: the link word of a fresh DIFAT sector is either missing or produced by a repeated pattern (every 128th slot of a 4096-byte sector)", f, sp))
        else:
            res.ok({"function": f.path, "link_written_at_line": once[0].line, "writes_on_the_difat_arm": n_writes}, nontrivial=True)
        res.floor("writes on the Difat arm", n_writes, ctx.table("floors").get("difatlink_writes", 0))
        return res
    return run


def kindguard(pid):
    """R-KINDGUARD: a stream's start sector is a mini-sector number when its length is below MINI_STREAM_CUTOFF and a
    sector number otherwise; nothing else says which.  In the API layer and the stream layer every call that opens or
    frees a chain as a mini chain (open_mini_chain, free_mini_chain) lies behind `len < MINI_STREAM_CUTOFF`, and
    every call that opens or frees it as a regular chain (open_chain, free_chain) behind `len >= MINI_STREAM_CUTOFF` -
    the constant itself, not something that happens to equal it for one version (the sector length is 4096 in
    version 4 only) or below one boundary (64-byte mini sectors needed <= 64 admits a length of exactly 4096).  When
    the chain is an existing one (its start sector comes from a directory entry or is passed in), the length compared
    is that entry's / the one passed with it."""
    def run(ctx):
        res = RuleResult("R-KINDGUARD(%s)" % pid, "every open/free of a stream's chain as a mini chain is dominated by `len < MINI_STREAM_CUTOFF`, every open/free as a regular chain by `len >= MINI_STREAM_CUTOFF` (for an existing chain: the length of the entry the start sector came from)")
        C = "const:MINI_STREAM_CUTOFF"
        n = 0
        for f in ctx.fx.fns.values():
            if not (f.path.startswith("CompoundFile") or f.path.startswith("internal::stream::")):
                continue
            v = view(ctx, f)
            g = pr = None
            for bb, c in sorted(v.calls.items()):
                m = re.search(r"MiniAllocator::<F>::(open_mini_chain|free_mini_chain|open_chain|free_chain)$", c.name)
                if not m or len(c.term["args"]) < 2:
                    continue
                g = g or _guards(ctx, f)
                pr = pr or Prov(f)
                n += 1
                mini = "mini" in m.group(1)
                arg = pr.operand(c.term["args"][1])
                atoms = g.atoms_at(("t", bb))
                want = "Lt" if mini else "Ge"
                xs = []
                for a in atoms:
                    mm = re.match(r"^\(%s\((.*),%s\)\)$" % (want, re.escape(C)), a)
                    if mm:
                        xs.append(mm.group(1))
                key = "R-KINDGUARD/%s/%s" % (f.path, m.group(1))
                if not xs:
                    other = [a for a in atoms if re.match(r"^\((Lt|Le|Gt|Ge)\(", a) and ("stream_len" in a or "CUTOFF" in a or "sector_len" in a or "SECTOR_LEN" in a)][:2]
                    if not other:
                        # the decision was made where this function cannot see it (a flag returned by a closure or a
                        # helper that was not inlined): no verdict here; R-CUTOFF still judges the comparison itself
                        res.ok({"function": f.path, "line": c.line, "call": m.group(1), "note": "the kind is decided by a value computed elsewhere: no verdict"})
                        continue
                    res.fail(Finding(res.rule, key + "/not-behind-the-cutoff-test", "%s() is not dominated by a comparison `len %s MINI_STREAM_CUTOFF`%s: whether a start sector is a mini-sector number or a sector number is decided by that comparison and nothing else (another bound agrees with it for one version or away from 4096 only)" % (m.group(1), "<" if mini else ">=", (" (it lies behind %s)" % "; ".join(x[:80] for x in other)) if other else ""), f, c.term["span"]))
                    continue
                if arg.startswith("const:"):
                    res.ok({"function": f.path, "line": c.line, "call": m.group(1), "new_chain": True, "behind": xs[0][:60]}, nontrivial=True)
                    continue
                # an existing chain: the compared length belongs to the same entry / parameter set
                if arg.endswith(".start_sector"):
                    wanted = arg[:-len(".start_sector")] + ".stream_len"
                elif re.match(r"^param:\w*start_sector\w*$", arg):
                    wanted = None
                else:
                    wanted = None
                # ... and that entry IS a stream: a handle may outlive its stream, and the slot may since hold a
                # storage (whose start-sector and size fields mean nothing) - `not Unallocated` is not enough
                if arg.endswith(".start_sector"):
                    base = arg[:-len(".start_sector")]
                    from prov import prov_eq as _peq2
                    if not any(a_.endswith(".obj_type is ObjType::Stream") and _peq2(base, a_[:-len(".obj_type is ObjType::Stream")]) for a_ in atoms):
                        res.fail(Finding(res.rule, key + "/entry-not-known-to-be-a-stream", "%s(%s) is not dominated by a test that found the entry to BE a stream: a handle that outlived its stream (the slot re-used by a storage) would read or free that entry's start sector as a chain" % (m.group(1), arg[-60:]), f, c.term["span"]))
                        continue
                from prov import prov_eq as _peq
                if wanted is not None and not any(_peq(wanted, x_) for x_ in xs):
                    res.fail(Finding(res.rule, key + "/length-of-another-object", "%s(%s) lies behind `%s %s MINI_STREAM_CUTOFF`, which is not the length of the entry the start sector was taken from" % (m.group(1), arg[-60:], xs[0][-60:], "<" if mini else ">="), f, c.term["span"]))
                else:
                    res.ok({"function": f.path, "line": c.line, "call": m.group(1), "behind": (wanted or xs[0])[-60:]}, nontrivial=True)
        res.floor("chain-kind decisions", n, ctx.table("floors").get("kindguard_sites", 0))
        return res
    return run


def setlenguard(pid):
    """R-SETLENGUARD: how many sectors a length needs is the chain handle's business (`Chain::set_len` rounds up and
    cuts or appends).  The stream layer decides WHICH chain a length lives in - by the cutoff, by `new > old` - and
    then hands the new length to `set_len` unconditionally; a test in the stream layer that compares sector counts
    of its own (`new / sector_len == old / sector_len`: "nothing to do") rounds down where the handle rounds up, and
    skips the call exactly when a length crosses a sector boundary by less than a sector."""
    def run(ctx):
        res = RuleResult("R-SETLENGUARD(%s)" % pid, "no call of Chain::set_len / MiniChain::set_len in the stream layer lies behind a comparison of quotients or remainders of lengths (the sector arithmetic belongs to the chain handle)")
        n = 0
        for f in ctx.fx.fns.values():
            if not f.path.startswith("internal::stream::"):
                continue
            v = view(ctx, f)
            g = None
            for bb, c in sorted(v.calls.items()):
                if not re.search(r"(chain::Chain|minichain::MiniChain)::<'a, F>::set_len$|Chain::<.*>::set_len$", c.name):
                    continue
                g = g or _guards(ctx, f)
                n += 1
                bad = [a for a in g.atoms_at(("t", bb)) if re.match(r"^!?\(?(Eq|Ne|Lt|Le|Gt|Ge)\(", a) and re.search(r"Div\(|Rem\(|div_ceil|Shr\(|next_multiple_of", a) and re.search(r"len|LEN", a)]
                if bad:
                    res.fail(Finding(res.rule, "R-SETLENGUARD/%s/set_len-behind-sector-arithmetic" % f.path, "%s calls set_len only behind %s: the stream layer's own sector count rounds differently from the chain handle's, so a resize that crosses a sector boundary by less than a sector leaves the chain one sector short (the tail is unreadable) or one too long (never released)" % (f.path.split("::")[-1], bad[0][:110]), f, c.term["span"]))
                else:
                    res.ok({"function": f.path, "line": c.line}, nontrivial=True)
        res.floor("set_len calls in the stream layer", n, ctx.table("floors").get("setlenguard_sites", 0))
        return res
    return run


def walkall(pid):
    """R-WALKALL: Directory::validate walks the tree from the root and checks, for every entry it reaches, that the
    entry's sibling and child links stay inside the table and do not loop.  The iterators and the lookup follow those
    same links later without looking again.  So in the walk loop every entry that is popped has its links read and
    judged before the loop goes round: no `continue` (a tolerated kind of entry, a fast path) leads from the pop back
    to the head of the loop past the reads of left_sibling and right_sibling."""
    def run(ctx):
        from cfg import natural_loops
        res = RuleResult("R-WALKALL(%s)" % pid, "in the walk loop of Directory::validate every way from the pop of an entry back to the head of the loop passes the reads of that entry's left_sibling and right_sibling (or an error exit)")
        f = ctx.fx.fns.get("internal::directory::Directory::<F>::validate")
        if f is None:
            res.gone.append("Directory::validate")
            return res
        v = view(ctx, f)
        pg = v.pg
        n = 0
        pops = [(bb, c) for bb, c in v.calls.items() if re.search(r"Vec::<T, A>::pop$|VecDeque::<T, A>::pop_(front|back)$", c.name)]
        reads = {"left_sibling": set(), "right_sibling": set()}
        for bb, blk in enumerate(f.blocks):
            if blk["cleanup"]:
                continue
            for i, st in enumerate(blk["stmts"]):
                if st["s"] != "assign":
                    continue
                rv = st["rv"]
                pls = [rv[k]["place"] for k in ("op", "a", "b") if isinstance(rv.get(k), dict) and rv[k].get("k") in ("copy", "move")]
                if isinstance(rv.get("place"), dict):
                    pls.append(rv["place"])
                for pl in pls:
                    for e in pl.get("proj", []):
                        if e.get("p") == "field" and e.get("name") in reads:
                            reads[e["name"]].add(("s", bb, i))
        loops = natural_loops(f)
        for bb, c in pops:
            mine = [(h, body, back) for (h, body, back) in loops if bb in body]
            if not mine:
                continue
            h, body, back = min(mine, key=lambda x: len(x[1]))
            n += 1
            starts = v.ok_nodes(bb) or list(pg.succ[("t", bb)])
            errs = set(v.all_err_nodes())
            bad = None
            for fld, nodes in reads.items():
                if not nodes:
                    bad = "the walk never reads %s" % fld
                    break
                r_ = pg.reach(starts, nodes | errs | {("t", bb)})
                # going round: reaching the pop's own block again (the next iteration) without the read
                again = [p_ for p_ in pg.pred.get(("t", bb), ()) if p_ in r_]
                if again:
                    bad = "an entry can be popped and the loop can go round without its %s being read (a kind of entry that is skipped): its links are followed later by the iterators and the lookup, unchecked" % fld
                    break
            if bad:
                res.fail(Finding(res.rule, "R-WALKALL/%s/entry-skipped" % f.path, "Directory::validate: %s" % bad, f, c.term["span"]))
            else:
                res.ok({"function": f.path, "pop_line": c.line, "link_reads": {k: len(x) for k, x in reads.items()}}, nontrivial=True)
        res.floor("walk loops", n, ctx.table("floors").get("walkall_loops", 0))
        return res
    return run
