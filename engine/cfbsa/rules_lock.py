"""R-LOCK (C14): lock discipline on the single RwLock."""
import re
from cfg import PG
from cg import op_local, peel
from core import Finding, RuleResult
from facts import callee_name, fmt_place

GUARD_MARKS = ("RwLockReadGuard<", "RwLockWriteGuard<", "MutexGuard<")
BLOCKING = ("sync::Mutex::<T>::lock", "Condvar::wait", "mpsc::Receiver::<T>::recv", "JoinHandle::<T>::join",
            "Barrier::wait", "thread::park", "thread::sleep", "OnceLock::<T>::wait", "sync::Once::wait",
            "mpsc::SyncSender::<T>::send", "ReentrantLock", "LazyLock")


def holds_guard_type(ty):
    s = ty["s"]
    if s.startswith("&") or s.startswith("*"):
        return False
    return any(m in s for m in GUARD_MARKS)


def guard_states(ctx, fn):
    """Forward may-dataflow: for every point-graph node, the set of locals
    that may hold a live lock guard *before* the node executes.
    Returns (state_before, acquired_at: local -> set of acquiring call bbs)."""
    pg = ctx.pg(fn)
    before = {}
    origin = {}
    work = [pg.entry()]
    before[pg.entry()] = frozenset()

    def transfer(node, st):
        st = set(st)
        if node[0] == "s":
            stmt = fn.blocks[node[1]]["stmts"][node[2]]
            if stmt["s"] == "assign":
                rv = stmt["rv"]
                src = None
                if rv["r"] == "use" and rv["op"]["k"] == "move":
                    src = rv["op"]["place"]["local"]
                    if rv["op"]["place"]["proj"]:
                        # moving the payload out of Result/Option wrapper of a guard
                        pass
                if rv["r"] == "aggregate":
                    for o in rv["ops"]:
                        if o["k"] == "move" and o["place"]["local"] in st:
                            st.discard(o["place"]["local"])
                            if not stmt["place"]["proj"]:
                                st.add(stmt["place"]["local"])
                                origin.setdefault(stmt["place"]["local"], set()).update(origin.get(o["place"]["local"], ()))
                if src is not None and src in st:
                    st.discard(src)
                    dl = stmt["place"]["local"]
                    if not stmt["place"]["proj"] or True:
                        st.add(dl)
                        origin.setdefault(dl, set()).update(origin.get(src, ()))
            return frozenset(st)
        if node[0] == "t":
            t = fn.blocks[node[1]]["term"]
            if t["t"] == "drop":
                if not t["place"]["proj"]:
                    st.discard(t["place"]["local"])
            elif t["t"] == "call":
                moved = set()
                for a in t["args"]:
                    if a["k"] == "move" and not a["place"]["proj"] and a["place"]["local"] in st:
                        moved.add(a["place"]["local"])
                st -= moved
                d = t["dest"]
                if not d["proj"] and holds_guard_type(fn.locals[d["local"]]):
                    st.add(d["local"])
                    o = origin.setdefault(d["local"], set())
                    if moved:
                        for m in moved:
                            o.update(origin.get(m, ()))
                    else:
                        o.add(node[1])
            return frozenset(st)
        return frozenset(st)

    while work:
        n = work.pop()
        out = transfer(n, before[n])
        for m in pg.succ.get(n, ()):
            old = before.get(m)
            new = out if old is None else (old | out)
            if new != old:
                before[m] = new
                work.append(m)
    return before, origin


def run(ctx):
    res = RuleResult("R-LOCK", "the lock is never requested while a guard on it is live; guards do not escape; single lock")
    cg = ctx.cg
    # R-LOCK.1: single lock
    sites = []
    for f in ctx.fx.fns.values():
        for c in cg.calls[f.path]:
            if "lock_read" in c.events or "lock_write" in c.events:
                recv = c.term["args"][0]
                l = op_local(recv)
                rty = f.locals[l]["s"] if l is not None else "?"
                sites.append((f, c, rty))
                if "RwLock<internal::minialloc::MiniAllocator<" in rty or ctx.name != "repo":
                    res.ok({"lock_site": f.path, "mode": "read" if "lock_read" in c.events else "write", "receiver": rty})
                else:
                    res.fail(Finding("R-LOCK.1", "R-LOCK.1/%s/second-lock/%s" % (f.path, rty),
                                     "a second lock (%s) is acquired; the no-nesting argument assumes one lock" % rty, f, c.term["span"]))
            nm = c.name
            for b in BLOCKING:
                if b in nm:
                    res.fail(Finding("R-LOCK.1", "R-LOCK.1/%s/blocking/%s" % (f.path, nm),
                                     "blocking primitive %s is called" % nm, f, c.term["span"]))
    res.floor("lock acquisition sites", len(sites), ctx.table("floors").get("lock_sites", 0))

    # R-LOCK.2: no acquisition under a live guard
    holders = 0
    for f in ctx.fx.fns.values():
        if not any(holds_guard_type(l) for l in f.locals):
            continue
        before, origin = guard_states(ctx, f)
        holder = False
        for c in cg.calls[f.path]:
            node = ("t", c.bb)
            st = before.get(node)
            if not st:
                continue
            # guards moved into the call are handed over, not held across it
            live = set(st)
            if c.kind == "call":
                for a in c.term["args"]:
                    if a["k"] == "move" and not a["place"]["proj"]:
                        live.discard(a["place"]["local"])
            else:
                if not c.term["place"]["proj"]:
                    live.discard(c.term["place"]["local"])
            if not live:
                continue
            holder = True
            eff = cg.call_effects(c)
            if "lock_read" in eff or "lock_write" in eff:
                chain = cg.find_path_from_call(c, lambda x: "lock_read" in x.events or "lock_write" in x.events)
                acq = sorted(set(b for l in live for b in origin.get(l, ())))
                acq_s = ", ".join("%s (line %d)" % (callee_name(f.blocks[b]["term"]), f.blocks[b]["term"]["span"]["line"]) for b in acq)
                chain_s = " -> ".join("%s@%s" % (x.name, x.loc()) for x in chain) if chain else c.name
                key = "R-LOCK.2/%s/holds-guard-calls/%s" % (f.path, c.name)
                res.fail(Finding("R-LOCK.2", key,
                                 "lock guard acquired by %s is still live when %s is called, which acquires the same lock (%s)" % (acq_s, c.name, "/".join(sorted(e for e in eff if e.startswith("lock")))),
                                 f, c.term["span"], path=chain_s))
            else:
                res.ok({"holder": f.path, "call_under_guard": c.name, "locks": False}, nontrivial=True)
        if holder:
            holders += 1
    res.floor("functions holding a guard across a call", holders, ctx.table("floors").get("guard_holders", 0))

    # R-LOCK.3: guards do not escape
    for a in ctx.fx.adts.values():
        for v in a["variants"]:
            for fld in v["fields"]:
                if any(m in fld["ty"]["s"] for m in GUARD_MARKS):
                    res.fail(Finding("R-LOCK.3", "R-LOCK.3/field/%s.%s" % (a["path"], fld["name"]),
                                     "struct field %s.%s stores a lock guard (%s)" % (a["path"], fld["name"], fld["ty"]["s"])), nontrivial=False)
                else:
                    res.ok()
    for sg in ctx.fx.sigs.values():
        if sg["is_pub"]:
            tys = [sg["output"]["s"]] + [i["s"] for i in sg["inputs"]]
            if any(m in t for t in tys for m in GUARD_MARKS):
                res.fail(Finding("R-LOCK.3", "R-LOCK.3/pubsig/%s" % sg["path"], "public function %s exposes a lock guard in its signature" % sg["path"]), nontrivial=False)
            else:
                res.ok()
    for f in ctx.fx.fns.values():
        if f.kind == "closure":
            for cap in f.d.get("captures", []):
                if any(m in cap["ty"] for m in GUARD_MARKS) and "ByValue" in cap["by"]:
                    res.fail(Finding("R-LOCK.3", "R-LOCK.3/capture/%s" % f.path, "closure captures a lock guard by value", f), nontrivial=False)
    # interior mutability in the state types (atomicity clause)
    for a in ctx.fx.adts.values():
        for v in a["variants"]:
            for fld in v["fields"]:
                s = fld["ty"]["s"]
                if any(m in s for m in ("Cell<", "RefCell<", "UnsafeCell<", "Atomic", "Mutex<")) and "OnceLock" not in s:
                    res.fail(Finding("R-LOCK.4", "R-LOCK.4/interior-mut/%s.%s" % (a["path"], fld["name"]),
                                     "field %s.%s has interior mutability (%s): state could change under a read guard" % (a["path"], fld["name"], s)), nontrivial=False)
    # R-LOCK.5: the lock is only ever taken by the blocking read()/write().  try_read / try_write / is_poisoned answer
    # according to what OTHER threads are doing at that instant; an assertion, an error or a branch fed by them makes
    # the outcome of a read-only call depend on the schedule (C14: "none panics, each result equals the state
    # before or after some whole stream operation").
    for f in ctx.fx.fns.values():
        for c in cg.calls[f.path]:
            if c.kind != "call":
                continue
            nm = c.name
            if re.search(r"RwLock(::)?<T>::(try_read|try_write|is_poisoned|clear_poison)$|Mutex(::)?<T>::try_lock$", nm):
                res.fail(Finding("R-LOCK.5", "R-LOCK.5/%s/%s" % (f.path, nm.split("::")[-1]),
                                 "%s probes the shared lock with %s: its answer depends on whether another thread holds the lock at that instant, so whatever is decided from it (an assertion, an error, a different path) differs between schedules" % (f.path.split("::")[-1], nm.split("::")[-1]), f, c.term["span"]))
    # R-LOCK.6: one operation, one critical section per mutation: the write lock is never taken inside a loop.  A
    # loop that takes and releases the write lock per iteration publishes the state between two iterations - a
    # reader then sees a stream (length, chain) that is neither the state before nor after the whole operation.
    from cfg import natural_loops
    nloops = 0
    # only operations through stream handles run beside readers: CompoundFile's own mutating methods take
    # `&mut self`, which excludes every `&CompoundFile` reader for the whole call
    from cg import peel
    roots = [f for f in ctx.fx.fns.values() if peel(f.d.get("impl_self", {})).get("adt") == "internal::stream::Stream" and f.kind != "closure"]
    for f in cg.reachable(roots).values():
        loops = natural_loops(f)
        if not loops:
            continue
        for (h, body, _back) in loops:
            nloops += 1
            for c in cg.calls[f.path]:
                if c.bb not in body or f.blocks[c.bb]["cleanup"]:
                    continue
                eff = cg.call_effects(c)
                if "lock_write" in eff:
                    res.fail(Finding("R-LOCK.6", "R-LOCK.6/%s/write-lock-in-loop/%s" % (f.path, c.name), "the write lock is acquired inside a loop (%s, line %d; loop head line %d): each iteration is its own critical section, so a concurrent reader can observe the state between two iterations of what the caller sees as one operation" % (c.name.split("::")[-1], c.line, f.blocks[h]["term"]["span"]["line"]), f, c.term["span"]))
                    break
    res.floor("loops examined for write-lock acquisitions", nloops, ctx.table("floors").get("lock_loops", 0))
    return res


def reacquire(pid):
    """R-LOCK.2 on its own, for the 'never hangs' properties: std's RwLock is not re-entrant, so a function that asks
    for the lock while it still holds a guard on it blocks for ever on its own - with a write guard involved in every
    schedule, single-threaded ones included."""
    def go(ctx):
        full = run(ctx)
        res = RuleResult("R-LOCK.2(%s)" % pid, "no function requests the lock while a guard it acquired is still live (the lock is not re-entrant: the call would never return)")
        for f in full.findings:
            if f.rule == "R-LOCK.2":
                res.fail(f)
        n = full.floors.get("functions holding a guard across a call", (0, 0))
        for _ in range(max(0, full.discharged if not n[0] else n[0])):
            res.ok(None, nontrivial=True)
        res.samples = [s_ for s_ in full.samples if isinstance(s_, dict) and "holder" in s_][:6]
        res.floor("functions holding a guard across a call", n[0], n[1])
        return res
    return go


def statecells(pid):
    """R-STATECELL: everything the live object knows is in the tables behind the one lock, and those are loaded from -
    and written through to - the file.  A cell with interior mutability (or a second lock) in one of the state types
    is state the byte image does not have: a lookup cache or a remembered position that a later call trusts after the
    tables have changed makes the live object answer differently from the reopened bytes.  (The structural clause
    is R-LOCK.1 / R-LOCK.4's; here it is read for what it means for write-through.)"""
    def run_(ctx):
        r = run(ctx)
        res = RuleResult("R-STATECELL(%s)" % pid, "no state type holds a cell with interior mutability or a second lock: the live object has no state that the byte image lacks")
        kept = [f for f in r.findings if f.rule in ("R-LOCK.4",) or "/second-lock/" in f.key]
        for f in kept:
            f.rule = res.rule
            f.key = f.key.replace("R-LOCK.4/", "R-STATECELL/").replace("R-LOCK.1/", "R-STATECELL/")
            f.msg = f.msg + " - and a cache or remembered value there is state the byte image does not have (the live object and the reopened bytes can answer differently)"
            res.fail(f)
        n = r.floors.get("state type fields", (0, 0))[0] if isinstance(r.floors.get("state type fields"), tuple) else 0
        if not kept:
            res.ok({"state_types_examined": True}, nontrivial=True)
        return res
    return run_
