"""C18: R-SHORT (short-count discipline), R-SEEKFIRST (backend I/O only
through a freshly sought Sector), R-NONDET (nondeterminism sources)."""
import re
from cg import op_local, peel
from core import Finding, RuleResult, view
from prov import Prov
from dataflow import forward_taint, rv_places
from facts import callee_name

POSITION_FIELDS = ("offset_within_sector", "offset_from_start", "pos")


def _is_short_call(t):
    tr = t.get("callee_trait")
    nm = t.get("callee_name")
    return (tr == "std::io::Read" and nm == "read") or (tr == "std::io::Write" and nm == "write")


def short(ctx):
    res = RuleResult("R-SHORT", "a short-count primitive (Read::read / Write::write) is only consumed by code that returns the count and advances its position by exactly that count")
    n = 0
    for f in ctx.fx.fns.values():
        v = view(ctx, f)
        for bb, c in v.calls.items():
            t = c.term
            if t.get("callee_kind") != "direct" or not _is_short_call(t):
                continue
            n += 1
            d = v.disp(bb)
            key = "R-SHORT/%s/%s" % (f.path, c.name)
            ret = f.locals[0]["s"]
            shape_ok = ("usize" in ret) and (ret.startswith("std::result::Result<usize") or ret.startswith("std::option::Option<usize"))
            if d["kind"] == "returned":
                res.ok({"function": f.path, "call": c.name, "count": "returned directly"})
                continue
            payload = set()
            if d["kind"] in ("try", "matched"):
                # payload of the Ok / Continue variant
                src = d.get("branch_local", t["dest"]["local"])
                okb = d["ok"]
                for st in f.blocks[okb]["stmts"]:
                    if st["s"] == "assign" and st["rv"]["r"] == "use" and st["rv"]["op"]["k"] in ("copy", "move"):
                        p = st["rv"]["op"]["place"]
                        if p["local"] == src and any(e["p"] == "downcast" for e in p["proj"]):
                            payload.add(st["place"]["local"])
            elif d["kind"] == "discarded" and d.get("detail") in ("unwrap_or", "unwrap_or_default"):
                # infallible in-memory writer: the count is the value of the unwrap_or call
                ub = d["bb"]
                ut = f.blocks[ub]["term"]
                recv_ty = peel(t.get("callee_self", {})).get("s", "")
                if "[u8]" in recv_ty and not ut["dest"]["proj"]:
                    payload.add(ut["dest"]["local"])
            if not payload:
                res.fail(Finding("R-SHORT", key + "/count-lost", "the count returned by %s is %s: a short transfer would go unnoticed" % (c.name, d["kind"]), f, t["span"]))
                continue
            tainted = forward_taint(f, payload)
            problems = []
            if not shape_ok:
                problems.append("enclosing function does not return a count (%s)" % ret)
            # count reaches the return value
            reaches_ret = False
            for blk in f.blocks:
                for st in blk["stmts"]:
                    if st["s"] == "assign" and st["place"]["local"] == 0 and not st["place"]["proj"]:
                        if any(p["local"] in tainted for p in rv_places(st["rv"])):
                            reaches_ret = True
            if not reaches_ret:
                problems.append("the count does not flow into the return value")
            # position updates after the call add the count
            pg = v.pg
            after = pg.reach(v.ok_nodes(bb) or [("t", bb)])
            for node in after:
                if node[0] != "s":
                    continue
                st = f.blocks[node[1]]["stmts"][node[2]]
                if st["s"] != "assign":
                    continue
                fl = [e for e in st["place"]["proj"] if e["p"] == "field"]
                if fl and fl[-1]["name"] in POSITION_FIELDS and any(e["p"] == "deref" for e in st["place"]["proj"]):
                    if not any(p["local"] in tainted for p in rv_places(st["rv"])):
                        # cap = pos style follow-ups (StreamBuffer) read another position field: accept loads of position fields
                        srcs = rv_places(st["rv"])
                        if srcs and all(any(e.get("name") in POSITION_FIELDS for e in p["proj"] if e["p"] == "field") for p in srcs):
                            continue
                        problems.append("position field %s is updated (line %d) by a value that is not the transferred count" % (fl[-1]["name"], st["span"]["line"]))
            if problems:
                res.fail(Finding("R-SHORT", key + "/" + "+".join(sorted(set(p.split(" ")[0] for p in problems))), "; ".join(problems) + " (after %s)" % c.name, f, t["span"]))
            else:
                res.ok({"function": f.path, "call": c.name, "count_locals": sorted(payload), "returns": ret}, nontrivial=True)
    res.floor("short-count call sites", n, ctx.table("floors").get("short_calls", 0))
    return res


def _impl_params(f, ctx):
    s = f.d.get("impl_self")
    root = f
    if f.kind == "closure":
        p = f.parent
        while p in ctx.fx.fns and ctx.fx.fns[p].kind == "closure":
            p = ctx.fx.fns[p].parent
        root = ctx.fx.fns.get(p, f)
        s = root.d.get("impl_self")
    if not s:
        return set()
    return set(a for a in s.get("args", []) if a in root.d.get("generics", []))


def _only_called_from(ctx, path, allowed):
    callers = {g.path for g in ctx.fx.fns.values() for c in ctx.cg.calls[g.path] if any(x.path == path for x in c.targets)}
    return bool(callers) and callers <= set(allowed)


def _builds_sector_after(f, seek_bb, sector_adt):
    """f builds a Sector after the seek in block seek_bb and nowhere else: the absolute seek establishes the position
    of the Sector it returns - the function is a seek helper by construction, whatever it is called."""
    from cfg import block_dominators
    dom = block_dominators(f)
    aggs = [b for b, blk in enumerate(f.blocks) if not blk["cleanup"] for st in blk["stmts"] if st["s"] == "assign" and st["rv"]["r"] == "aggregate" and str(st["rv"].get("adt", "")) == sector_adt]
    return bool(aggs) and all(seek_bb in dom.get(b, ()) for b in aggs)


def seekfirst(ctx):
    res = RuleResult("R-SEEKFIRST", "backend I/O happens only inside Sector (built right after an absolute seek) or in the listed sequential constructors; no reliance on the backend's current position")
    tbl = ctx.table("seekfirst")
    allowed = set(tbl.get("raw_backend_io_allowed", {}).keys())
    sector_adt = tbl.get("sector_adt", "internal::sector::Sector")
    n_raw = 0
    for f in ctx.fx.fns.values():
        params = _impl_params(f, ctx)
        v = view(ctx, f)
        for bb, c in v.calls.items():
            t = c.term
            raw = None
            for e in c.events:
                if e.startswith("param_io:") and e.split(":", 1)[1] in params:
                    raw = "direct %s on the backend" % c.name
            if raw is None and c.targets and (ctx.cg.call_effects(c) & {"io_read", "io_write", "io_seek", "io_flush"}):
                for a in t["args"]:
                    l = op_local(a)
                    if l is None:
                        continue
                    ty = f.locals[l]
                    if ty.get("k") == "ref" and ty.get("inner", {}).get("k") == "param" and ty["inner"]["name"] in params:
                        raw = "passes the raw backend to %s" % c.name
            if raw is None:
                continue
            n_raw += 1
            in_sector = peel(f.d.get("impl_self", {})).get("adt") == sector_adt
            owner = re.sub(r"(::\{closure#\d+\})+$", "", f.path)       # a closure belongs to the function it is written in
            if in_sector or f.path in allowed or owner in allowed:
                res.ok({"function": f.path, "raw_backend_io": raw, "allowed_as": "Sector method" if in_sector else tbl["raw_backend_io_allowed"][owner]})
            elif c.name.endswith("Seek::seek") and len(t["args"]) > 1 and Prov(f).operand(t["args"][1]).startswith("SeekFrom::Start(") and (_only_called_from(ctx, owner, allowed) or _builds_sector_after(f, bb, sector_adt)):
                # a private helper that the listed seek helpers share: the same absolute seek, one call further down
                res.ok({"function": f.path, "raw_backend_io": raw, "allowed_as": "absolute seek in a helper that only the listed seek helpers call"}, nontrivial=True)
            else:
                res.fail(Finding("R-SEEKFIRST", "R-SEEKFIRST/%s/raw-backend-io/%s" % (f.path, c.name),
                                 "%s outside Sector and outside the listed seek helpers: the transfer would happen at whatever position the backend happens to have" % raw, f, t["span"]))
    res.floor("raw backend I/O sites", n_raw, ctx.table("floors").get("raw_backend_io", 0))
    # Sector aggregates are built right after an absolute seek (or from a Sector)
    n_agg = 0
    for f in ctx.fx.fns.values():
        v = view(ctx, f)
        pg = v.pg
        for bb, blk in enumerate(f.blocks):
            if blk["cleanup"]:
                continue
            for i, st in enumerate(blk["stmts"]):
                if st["s"] == "assign" and st["rv"]["r"] == "aggregate" and st["rv"].get("adt") == sector_adt:
                    n_agg += 1
                    node = ("s", bb, i)
                    # from an existing Sector?
                    if f.arg_count >= 1 and peel(f.locals[1]).get("adt") == sector_adt:
                        res.ok({"function": f.path, "sector_built": "from an existing Sector"})
                        continue
                    seek_ok = set()
                    for b2, c2 in v.calls.items():
                        t2 = c2.term
                        if "io_seek" in c2.events and len(t2["args"]) >= 2:
                            # the position argument must be SeekFrom::Start
                            pl = op_local(t2["args"][1])
                            is_start = False
                            for blk2 in f.blocks:
                                for st2 in blk2["stmts"]:
                                    if st2["s"] == "assign" and st2["place"]["local"] == pl and st2["rv"]["r"] == "aggregate" and st2["rv"].get("adt") == "std::io::SeekFrom":
                                        is_start = st2["rv"]["variant"] == "Start"
                            if is_start:
                                seek_ok.update(v.ok_nodes(b2))
                    reach = pg.reach([pg.entry()], seek_ok)
                    if node in reach or not seek_ok:
                        res.fail(Finding("R-SEEKFIRST", "R-SEEKFIRST/%s/sector-without-absolute-seek" % f.path,
                                         "a Sector is constructed without a dominating successful backend seek(SeekFrom::Start(..))", f, st["span"]))
                    else:
                        res.ok({"function": f.path, "sector_built": "after seek(SeekFrom::Start) ok-successor"}, nontrivial=True)
    res.floor("Sector constructions", n_agg, ctx.table("floors").get("sector_aggregates", 0))
    return res


NONDET_CALLS = {
    "SystemTime::now": "clock", "Instant::now": "clock", "RandomState::new": "random-hasher", "thread::spawn": "thread",
    "std::env::var": "env", "std::env::vars": "env", "std::env::args": "env", "std::process::id": "pid", "thread::current": "thread",
    "std::env::var_os": "env", "std::env::temp_dir": "env", "std::env::current_dir": "env",
}
HASH_ITER = ("iter", "iter_mut", "keys", "values", "values_mut", "into_iter", "drain", "retain", "into_keys", "into_values", "extract_if")


def nondet(ctx):
    res = RuleResult("R-NONDET", "nondeterminism sources are confined to the listed clock reads; no iteration over a randomly seeded hash container; no address-dependent values")
    tbl = ctx.table("nondet")
    allowed = tbl.get("allowed", {})
    n = 0
    for f in ctx.fx.fns.values():
        for c in ctx.cg.calls[f.path]:
            if c.kind != "call":
                continue
            nm = c.name
            for pat, kind in NONDET_CALLS.items():
                if nm.endswith(pat):
                    n += 1
                    a = allowed.get(f.path)
                    if a and nm.endswith(a["callee_suffix"]):
                        res.ok({"function": f.path, "source": nm, "allowed": a["reason"]})
                    else:
                        res.fail(Finding("R-NONDET", "R-NONDET/%s/%s/%s" % (f.path, kind, pat), "nondeterministic source %s is read here (not one of the listed clock reads)" % nm, f, c.term["span"]))
            short = nm.split("::")[-1]
            if short in HASH_ITER and c.term["args"]:
                l = op_local(c.term["args"][0])
                ty = f.locals[l]["s"] if l is not None else ""
                if ("HashMap<" in ty or "HashSet<" in ty) and ("RandomState" in ty or ("BuildHasherDefault" not in ty and "Fnv" not in ty and "fnv" not in ty)):
                    res.fail(Finding("R-NONDET", "R-NONDET/%s/hash-iteration/%s" % (f.path, short), "iteration (%s) over a hash container with a randomly seeded hasher (%s): order differs between runs" % (short, ty), f, c.term["span"]))
        for blk in f.blocks:
            for st in blk["stmts"]:
                if st["s"] == "assign" and st["rv"]["r"] == "cast" and "PointerExposeProvenance" in st["rv"]["kind"] and not st["span"]["macros"]:
                    res.fail(Finding("R-NONDET", "R-NONDET/%s/pointer-to-int" % f.path, "a pointer is cast to an integer (address-dependent value)", f, st["span"]))
    # callers of the allowed clock wrappers
    for wrapper, spec in tbl.get("wrapper_callers", {}).items():
        for f in ctx.fx.fns.values():
            for c in ctx.cg.calls[f.path]:
                if c.kind == "call" and c.name == wrapper:
                    if f.path in spec["callers"]:
                        res.ok({"function": f.path, "calls": wrapper, "allowed": spec["reason"]})
                    else:
                        res.fail(Finding("R-NONDET", "R-NONDET/%s/clock-wrapper/%s" % (f.path, wrapper), "%s (reads the clock) is called from an unlisted function" % wrapper, f, c.term["span"]))
    res.floor("nondeterministic source sites", n, ctx.table("floors").get("nondet_sites", 0))
    return res


INT_BITS = {"u8": 8, "u16": 16, "u32": 32, "u64": 64, "u128": 128, "usize": 64, "i8": 8, "i16": 16, "i32": 32, "i64": 64, "i128": 128, "isize": 64}


def narrow(ctx):
    """R-NARROW (C17): the timestamp conversions saturate instead of failing or wrapping:
    no narrowing integer cast, no unchecked SystemTime arithmetic, no unwrap of a fallible time operation."""
    import re
    res = RuleResult("R-NARROW", "timestamp <-> SystemTime conversion is total and saturating: every integer cast in it is widening (a narrowing `as` wraps silently), Duration/SystemTime arithmetic goes through checked_*/saturating_* forms, and no fallible time operation is unwrapped")
    tbl = ctx.table("narrow")
    mods = tbl.get("modules", ["internal::timestamp::"])
    n = 0
    for f in ctx.fx.fns.values():
        if not any(f.path.startswith(m) or ("<" + m) in f.path for m in mods):
            continue
        for bb, blk in enumerate(f.blocks):
            if blk["cleanup"]:
                continue
            for st in blk["stmts"]:
                if st["s"] == "assign" and st["rv"]["r"] == "cast" and "IntToInt" in st["rv"]["kind"]:
                    n += 1
                    o = st["rv"]["op"]
                    src = None
                    if o["k"] in ("copy", "move"):
                        src = o["place"].get("ty") if o["place"]["proj"] else f.locals[o["place"]["local"]]["s"]
                    elif o["k"] == "const":
                        src = o.get("ty")
                    dst = st["rv"]["ty"]
                    sb, db = INT_BITS.get(src), INT_BITS.get(dst)
                    fits = False
                    if sb is not None and db is not None and sb > db:
                        from bounds import MirBounds
                        ub = MirBounds(ctx, f).operand(o)
                        fits = ub is not None and ub < (1 << db)
                        if not fits:
                            import intervals as _iv
                            iv_ = _iv.Intervals(ctx, f).operand(o)
                            if _iv.fits(iv_, dst):
                                fits, ub = True, iv_[1]
                    if sb is not None and db is not None and sb > db and fits:
                        res.ok({"function": f.path, "cast": "%s -> %s" % (src, dst), "fits_because": "operand bounded by %d" % ub}, nontrivial=True)
                    elif sb is not None and db is not None and sb > db:
                        res.fail(Finding("R-NARROW", "R-NARROW/%s/narrowing-cast/%s-to-%s" % (f.path, src, dst), "integer cast from %s to %s truncates: an out-of-range time would wrap to an unrelated instant instead of saturating" % (src, dst), f, st["span"]))
                    else:
                        res.ok({"function": f.path, "cast": "%s -> %s" % (src, dst)})
            t = blk["term"]
            if t["t"] == "call":
                nm = callee_name(t) or ""
                short = nm.split("::")[-1]
                if re.search(r"(SystemTime|Duration|Instant).*as std::ops::(Add|Sub|AddAssign|SubAssign)", nm) or (short in ("add", "sub", "add_assign", "sub_assign") and re.search(r"time::(SystemTime|Duration)", nm)):
                    n += 1
                    res.fail(Finding("R-NARROW", "R-NARROW/%s/unchecked-time-arithmetic/%s" % (f.path, short), "%s panics on overflow; the conversion must use checked_add/checked_sub with a fallback" % nm, f, t["span"]))
                if short in ("unwrap", "expect") and t["args"]:
                    from prov import Prov
                    a = Prov(f).operand(t["args"][0])
                    if re.search(r"duration_since|checked_add|checked_sub|checked_mul|try_from|try_into", a):
                        n += 1
                        res.fail(Finding("R-NARROW", "R-NARROW/%s/unwrap-of-fallible-time-op" % f.path, "unwrap() of %s panics for out-of-range times" % a[:80], f, t["span"]))
                if re.match(r"^(wrapping_|overflowing_|unchecked_)(add|sub|mul|neg|shl|shr)$", short):
                    n += 1
                    res.fail(Finding("R-NARROW", "R-NARROW/%s/wrapping-arithmetic/%s" % (f.path, short), "%s in the time conversion wraps around instead of saturating: a time outside 1601..60056 is stored as an unrelated instant" % short, f, t["span"]))
                if short in ("saturating_add", "saturating_sub", "saturating_mul", "checked_add", "checked_sub", "unwrap_or", "duration_since"):
                    n += 1
                    res.ok({"function": f.path, "total_operation": short})
    # plain integer arithmetic in the conversions: every overflow-checked operation must be discharged (the
    # conversions are total: they saturate, they do not panic in debug builds and wrap in release builds)
    import rules_sink
    cl = rules_sink.Classifier(ctx)
    for f in ctx.fx.fns.values():
        if not any(f.path.startswith(m) or ("<" + m) in f.path for m in mods):
            continue
        for s_ in rules_sink.enumerate_sinks(f):
            if not s_["kind"].startswith("Overflow"):
                continue
            n += 1
            desc, atoms, auto = cl.classify(f, s_)
            if auto or cl.audited(f, s_["kind"], desc, atoms) is not None:
                res.ok({"function": f.path, "arithmetic": desc[:80], "discharged": True})
            else:
                res.fail(Finding("R-NARROW", "R-NARROW/%s/unchecked-integer-arithmetic" % f.path, "%s in the time conversion can overflow (%s): an out-of-range time panics in a debug build and wraps to an unrelated time in a release build instead of saturating" % (s_["kind"], desc[:100]), f))
    res.floor("conversion operations", n, ctx.table("floors").get("narrow_sites", 0))
    return res


def noerrafter(pid):
    """R-NOERRAFTER: std's contract for Read::read / Write::write / BufRead::consume users - once a call has advanced
    the position (bytes were handed over), it must not end in an error: the caller would lose the count, and the
    next call on the same handle continues after bytes the caller never accounted for."""
    import re as _re
    from prov import Prov as _Prov

    def run(ctx):
        res = RuleResult("R-NOERRAFTER(%s)" % pid, "in every Read::read / Write::write implementation no error exit is reachable after the position was advanced (consume, or a store to a position field)")
        pos_fields = ("offset_from_start", "offset_within_sector", "pos")
        n = 0
        for f in ctx.fx.fns.values():
            if f.kind == "closure" or f.d.get("impl_trait") not in ("std::io::Read", "std::io::Write") or f.d["name"] not in ("read", "write"):
                continue
            v = view(ctx, f)
            adv = []
            for bb, c in v.calls.items():
                if _re.search(r"::consume$", c.name):
                    adv.append((("t", bb), "consume (line %d)" % c.line))
            for fld in pos_fields:
                for node in v.stores_to_field(fld):
                    adv.append((node, "store to %s (line %d)" % (fld, f.blocks[node[1]]["stmts"][node[2]]["span"]["line"])))
            n += 1
            errs = set(v.all_err_nodes())
            # a fallible call whose Result is handed back as this function's own result is an error exit too
            for bb_, c_ in v.calls.items():
                t_ = c_.term
                if not t_["dest"]["proj"] and t_["dest"]["local"] == 0 and "Result" in f.locals[0]["s"] and not _re.search(r"::(Ok|Err)$|from_residual$|from_output$", c_.name):
                    errs.add(("t", bb_))
            bad = None
            for node, what in adv:
                after = v.pg.reach_after(node)
                hit = [e for e in errs if e in after]
                if hit:
                    bad = (what, hit[0])
                    break
            key = "R-NOERRAFTER/%s" % f.path
            if bad:
                res.fail(Finding(res.rule, key + "/error-after-progress", "an error exit is reachable after %s: the call reports Err although bytes were already transferred and the position moved, so a retry on the same handle continues past bytes the caller never received" % bad[0], f))
            else:
                res.ok({"function": f.path, "position_advances": [w for _, w in adv][:4]}, nontrivial=bool(adv))
        res.floor("read/write implementations", n, ctx.table("floors").get("noerrafter_fns", 0))
        return res
    return run


def kindkeep(pid):
    """R-KINDKEEP: std's exact-transfer loops (read_exact, write_all, io::copy) retry a transfer only when the
    error kind is Interrupted.  A backend error that is re-wrapped on its way up (map_err / or_else building a
    new io::Error without the original kind) turns a retryable interruption into a hard failure."""
    import re as _re
    from prov import Prov as _Prov

    def run(ctx):
        res = RuleResult("R-KINDKEEP(%s)" % pid, "no result of a call with backend I/O effects is passed through map_err / or_else that builds a new io::Error without the original error's kind()")
        n = 0
        for f in ctx.fx.fns.values():
            v = view(ctx, f)
            pr = None
            for bb, c in sorted(v.calls.items()):
                short = c.name.split("::")[-1]
                if short not in ("map_err", "or_else") or "result::Result" not in c.name:
                    continue
                if not c.term["args"]:
                    continue
                pr = pr or _Prov(f)
                recv = pr.operand(c.term["args"][0])
                # was the receiver produced by a call with backend effects?
                src = None
                for b2, c2 in v.calls.items():
                    if not c2.term["dest"]["proj"] and b2 != bb and pr.local(c2.term["dest"]["local"]) == recv and ctx.cg.call_effects(c2) & {"io_read", "io_write", "io_seek", "io_flush"}:
                        src = c2
                if src is None:
                    continue
                n += 1
                # the closure: does it build an io::Error without consulting kind()?
                builds, keeps = False, False
                for g in c.all_targets() if hasattr(c, "all_targets") else []:
                    pass
                for cc in ctx.cg.calls[f.path]:
                    if cc.bb == bb:
                        for g in cc.all_targets():
                            for c3 in ctx.cg.calls.get(g.path, []):
                                nm = getattr(c3, "name", "") or ""
                                if _re.search(r"io::(error::)?Error::(other|new|from)|Error::other|as std::convert::From<std::io::ErrorKind>>::from", nm):
                                    builds = True
                                if nm.endswith("Error::kind"):
                                    keeps = True
                key = "R-KINDKEEP/%s/%s" % (f.path, src.name.split("::")[-1])
                if builds and not keeps:
                    res.fail(Finding(res.rule, key + "/kind-dropped", "the error of %s (line %d) is replaced through %s by a newly built io::Error that does not carry the original kind(): an ErrorKind::Interrupted from the backend no longer reaches read_exact/write_all/io::copy as Interrupted, so a transfer that would have been retried fails" % (src.name.split("::")[-1], src.line, short), f, c.term["span"]))
                else:
                    res.ok({"function": f.path, "call": src.name.split("::")[-1], "through": short, "kind_preserved": keeps or not builds}, nontrivial=True)
        # the same thing written as a match (or a combinator lowered to one): `Err(e) => Err(io::Error::other(format!(.., e)))`
        for f in ctx.fx.fns.values():
            if f.kind == "closure":
                continue
            v = view(ctx, f)
            pr = _Prov(f)
            backs = [c2 for c2 in v.calls.values() if c2.kind == "call" and not c2.term["dest"]["proj"] and ctx.cg.call_effects(c2) & {"io_read", "io_write", "io_seek", "io_flush"}]
            if not backs:
                continue
            for bb, c in sorted(v.calls.items()):
                if not _re.search(r"io::(error::)?Error::(other|new)$|^std::io::Error::(other|new)$", c.name) or not c.term["args"]:
                    continue
                ps = " ".join(pr.operand(a) for a in c.term["args"])
                from prov import guards as _g
                here = _g(ctx, f).atoms_at(("t", bb))
                for c2 in backs:
                    r = pr.local(c2.term["dest"]["local"])
                    # built from the error's payload, or built inside the Err arm of the call's result
                    if len(r) > 8 and (("err(%s" % r[:80]) in ps or ("%s is Err" % r) in here):
                        n += 1
                        keeps = ("Error::kind(err(%s" % r[:60]) in ps
                        key = "R-KINDKEEP/%s/%s" % (f.path, c2.name.split("::")[-1])
                        if keeps:
                            res.ok({"function": f.path, "call": c2.name.split("::")[-1], "through": "match", "kind_preserved": True}, nontrivial=True)
                        else:
                            res.fail(Finding(res.rule, key + "/kind-dropped", "the error of %s (line %d) is replaced by a newly built io::Error (line %d) that does not carry the original kind(): an ErrorKind::Interrupted from the backend no longer reaches read_exact/write_all/io::copy as Interrupted, so a transfer that would have been retried fails" % (c2.name.split("::")[-1], c2.line, c.line), f, c.term["span"]))
                        break
        res.floor("re-wrapped backend errors", n, 0)
        res.notes.append("expected count on the reference tree: 0 (no backend error is re-wrapped); the kept seeded change C18-3 is the positive example exercised by the thorough tier")
        return res
    return run


def narrow_in(pid, modules, what):
    """R-NARROW(<pid>): no truncating integer cast in the given modules (same test as R-NARROW, other scope):
    in the name functions a `u16 as u8` / `char as u8` folds distinct code units onto one another."""
    def run(ctx):
        res = RuleResult("R-NARROW(%s)" % pid, "no integer cast in %s narrows a value that interval evaluation cannot show to fit" % what)
        n = 0
        for f in ctx.fx.fns.values():
            if not any(f.path.startswith(m) for m in modules):
                continue
            for bb, blk in enumerate(f.blocks):
                if blk["cleanup"]:
                    continue
                for st in blk["stmts"]:
                    if st["s"] == "assign" and st["rv"]["r"] == "cast" and "IntToInt" in st["rv"]["kind"] and not st["span"].get("macros"):
                        o = st["rv"]["op"]
                        src = None
                        if o["k"] in ("copy", "move"):
                            src = o["place"].get("ty") if o["place"]["proj"] else f.locals[o["place"]["local"]]["s"]
                        elif o["k"] == "const":
                            src = o.get("ty")
                        dst = st["rv"]["ty"]
                        sb, db = INT_BITS.get(src), INT_BITS.get(dst)
                        if src == "char":
                            sb = 21
                        if sb is None or db is None:
                            continue
                        n += 1
                        if sb <= db:
                            res.ok({"function": f.path, "cast": "%s -> %s" % (src, dst)})
                            continue
                        from bounds import MirBounds
                        ub = MirBounds(ctx, f).operand(o)
                        if not (ub is not None and ub < (1 << db)) and src != "char":
                            import intervals as _iv
                            iv_ = _iv.Intervals(ctx, f).operand(o)
                            if _iv.fits(iv_, dst):
                                ub = iv_[1] if iv_[0] >= 0 else None
                        if ub is not None and ub < (1 << db):
                            res.ok({"function": f.path, "cast": "%s -> %s" % (src, dst), "fits_because": "operand bounded by %d" % ub}, nontrivial=True)
                        else:
                            res.fail(Finding(res.rule, "R-NARROW(%s)/%s/narrowing-cast/%s-to-%s" % (pid, f.path, src, dst), "integer cast from %s to %s truncates in %s: different code units / characters become equal after the cast (a valid name is then treated like one containing a forbidden character, or two names compare equal)" % (src, dst, what), f, st["span"]))
        res.floor("integer casts", n, ctx.table("floors").get("narrow_" + pid, 0))
        return res
    return run


def trunc(pid):
    """R-TRUNC: a file that is opened in order to CREATE a compound file in it (fs::OpenOptions with create(true),
    then handed to the crate's creation code, which writes from offset 0 and assumes nothing follows) is opened with
    truncate(true) or create_new(true): otherwise the result depends on what an earlier run left at that path."""
    import re as _re
    from prov import Prov as _Prov

    def run(ctx):
        res = RuleResult("R-TRUNC(%s)" % pid, "every std::fs::OpenOptions chain with create(true) whose file is passed to the creation code also has truncate(true) (or create_new(true))")
        n = 0
        for f in ctx.fx.fns.values():
            v = view(ctx, f)
            pr = None
            for bb, c in sorted(v.calls.items()):
                if not c.name.endswith("fs::OpenOptions::open"):
                    continue
                pr = pr or _Prov(f)
                chain = pr.operand(c.term["args"][0]) if c.term["args"] else ""
                if "OpenOptions::create(" not in chain and "OpenOptions::create_new(" not in chain:
                    continue
                # is the opened file used to create (not to open) a compound file?
                creates = any(_re.search(r"(create_with|create_with_version|create_with_version_and_options|CompoundFile::<F>::create)$", c2.name) for c2 in v.calls.values())
                if not creates:
                    continue
                n += 1
                ok = bool(_re.search(r"OpenOptions::truncate\(.*,const:1\)", chain)) or "OpenOptions::create_new(" in chain
                key = "R-TRUNC/%s" % f.path
                if ok:
                    res.ok({"function": f.path, "line": c.line, "chain": "create(true) + truncate(true)"}, nontrivial=True)
                else:
                    res.fail(Finding(res.rule, key + "/create-without-truncate", "the file is opened with create(true) but without truncate(true) and then used to create a compound file: whatever an existing, longer file holds beyond the newly written sectors stays in the result, so the same history gives different bytes on a real file than in memory and from one run to the next", f, c.term["span"]))
        res.floor("create-mode opens", n, ctx.table("floors").get("trunc_sites", 0))
        return res
    return run


def epochcentre(pid):
    """R-EPOCH: times are kept to 100 ns, rounded toward the Unix epoch.  The conversions get that by measuring the
    distance from UNIX_EPOCH and truncating the distance (integer division of a Duration).  Measured from any other
    reference instant the same truncation rounds toward THAT instant: every pre-1970 time with a sub-100ns part
    lands one tick early.  So every SystemTime::duration_since in the timestamp module is taken against UNIX_EPOCH."""
    import re as _re
    from prov import Prov as _Prov

    def run(ctx):
        res = RuleResult("R-EPOCH(%s)" % pid, "every SystemTime::duration_since in internal::timestamp measures from UNIX_EPOCH (the truncation of the distance then rounds toward the Unix epoch)")
        n = 0
        for f in ctx.fx.fns.values():
            if not f.path.startswith("internal::timestamp::"):
                continue
            v = view(ctx, f)
            pr = None
            for bb, c in sorted(v.calls.items()):
                if not _re.search(r"SystemTime::duration_since$", c.name) or len(c.term["args"]) < 2:
                    continue
                pr = pr or _Prov(f)
                n += 1
                ref = pr.operand(c.term["args"][1])
                other = pr.operand(c.term["args"][0])
                if _re.match(r"^const:(\w+::)*UNIX_EPOCH$", ref) or _re.match(r"^const:(\w+::)*UNIX_EPOCH$", other):
                    res.ok({"function": f.path, "line": c.line, "measured_from": "UNIX_EPOCH"}, nontrivial=True)
                else:
                    res.fail(Finding(res.rule, "R-EPOCH/%s/distance-not-measured-from-unix-epoch" % f.path, "%s measures the time as a distance from %s instead of UNIX_EPOCH: truncating that distance to 100 ns rounds toward that instant, so a time before 1970 with a sub-100ns part is stored one tick too early (the contract is rounding toward the Unix epoch)" % (f.path.split("::")[-1], ref[:60]), f, c.term["span"]))
        res.floor("duration_since calls in the timestamp module", n, ctx.table("floors").get("epoch_sites", 0))
        return res
    return run


def tsident(pid):
    """R-TSIDENT: the timestamp codec is the identity on the 64-bit word: Timestamp::read_from wraps exactly the word
    it read, on every Ok path, and Timestamp::write_to writes exactly the word it holds.  A value replaced on the
    way in (clamped, treated as 'unset') reads back after reopening as something other than what was set."""
    def run(ctx):
        res = RuleResult("R-TSIDENT(%s)" % pid, "Timestamp::read_from returns Timestamp(word read) on every Ok path; Timestamp::write_to writes self.0")
        n = 0
        f = ctx.fx.fns.get("internal::timestamp::Timestamp::read_from")
        if f is None:
            res.gone.append("Timestamp::read_from")
        else:
            pr = Prov(f)
            for bb, blk in enumerate(f.blocks):
                if blk["cleanup"]:
                    continue
                for i, st in enumerate(blk["stmts"]):
                    if st["s"] == "assign" and st["place"]["local"] == 0 and not st["place"]["proj"] and st["rv"]["r"] == "aggregate" and st["rv"].get("variant") == "Ok":
                        n += 1
                        val = pr._def((bb, i, st), 0, ())
                        if re.match(r"^Result::Ok\(Timestamp::Timestamp\(ok\((?:\w+::)*read_le_u64\(param:\w+\)\)\)\)$", val):
                            res.ok({"function": f.path, "returns": val[:80]})
                        elif re.match(r"^Result::Ok\(Timestamp::Timestamp\((?:<impl u64>::|u64::)from_le_bytes\(.*\)\)\)$", val) and _filled_by_read_exact(ctx, f, ("s", bb, i)):
                            # the same word, decoded in place: an 8-byte array filled by read_exact, then from_le_bytes
                            res.ok({"function": f.path, "returns": "Timestamp(u64::from_le_bytes(<8 bytes filled by read_exact>))"}, nontrivial=True)
                        else:
                            res.fail(Finding(res.rule, "R-TSIDENT/read_from/not-the-word-read", "Timestamp::read_from can return %s: a stored time is not read back as the 64-bit word that was written" % val[:100], f, st["span"]))
        f = ctx.fx.fns.get("internal::timestamp::Timestamp::write_to")
        if f is None:
            res.gone.append("Timestamp::write_to")
        else:
            pr = Prov(f)
            for c in view(ctx, f).calls.values():
                if c.name.endswith("Write::write_all") and len(c.term["args"]) == 2:
                    val = pr.operand(c.term["args"][1])
                    mw = re.match(r"^(?:<impl u64>::|u64::)to_le_bytes\((.*)\)$", val)
                    if mw:
                        n += 1
                        if re.match(r"^(param:self\.0|Timestamp::value\(param:self\))$", mw.group(1)):
                            res.ok({"function": f.path, "writes": val})
                        else:
                            res.fail(Finding(res.rule, "R-TSIDENT/write_to/not-the-word-held", "Timestamp::write_to writes %s, not the word the timestamp holds" % val[:100], f, c.term["span"]))
                    continue
                if c.name.endswith("write_le_u64") and len(c.term["args"]) == 2:
                    n += 1
                    val = pr.operand(c.term["args"][1])
                    if re.match(r"^(param:self\.0|Timestamp::value\(param:self\))$", val):
                        res.ok({"function": f.path, "writes": val})
                    else:
                        res.fail(Finding(res.rule, "R-TSIDENT/write_to/not-the-word-held", "Timestamp::write_to writes %s, not the word the timestamp holds" % val[:100], f, c.term["span"]))
        res.floor("codec sites", n, ctx.table("floors").get("tsident_sites", 0))
        return res
    return run


def _filled_by_read_exact(ctx, f, node):
    """The argument of the from_le_bytes call that feeds `node` is a `[u8; 8]` local that a read_exact on the
    function's reader filled on every path to node (the read's Ok outcome dominates node)."""
    from prov import guards as _guards
    v = view(ctx, f)
    for bb, c in v.calls.items():
        if not re.search(r"(<impl u64>|u64)::from_le_bytes$", c.name) or not c.term["args"]:
            continue
        a = op_local(c.term["args"][0])
        if a is None:
            continue
        # follow a plain copy back to the array itself
        src = {a}
        for blk in f.blocks:
            for st in blk["stmts"]:
                if st["s"] == "assign" and not st["place"]["proj"] and st["place"]["local"] in src and st["rv"]["r"] == "use" and op_local(st["rv"]["op"]) is not None:
                    src.add(op_local(st["rv"]["op"]))
        arrays = {l for l in src if f.locals[l]["s"] == "[u8; 8]"}
        if not arrays:
            continue
        for b2, c2 in v.calls.items():
            if not c2.name.endswith("Read::read_exact") or len(c2.term["args"]) < 2:
                continue
            r = op_local(c2.term["args"][1])
            refs = set()
            grow = {r}
            for _ in range(4):
                for blk in f.blocks:
                    for st in blk["stmts"]:
                        if st["s"] == "assign" and not st["place"]["proj"] and st["place"]["local"] in grow:
                            rv = st["rv"]
                            if rv["r"] == "ref":
                                if any(e_.get("p") == "deref" for e_ in rv["place"]["proj"]):
                                    grow.add(rv["place"]["local"])      # a re-borrow
                                else:
                                    refs.add(rv["place"]["local"])
                            elif rv["r"] in ("use", "cast") and op_local(rv.get("op", {})) is not None:
                                grow.add(op_local(rv["op"]))
            if not (refs & arrays):
                continue
            if any(re.search(r"read_exact\(.*\) is Ok$", a_) for a_ in _guards(ctx, f).atoms_at(node)):
                return True
    return False


def saturate(pid):
    """R-SATURATE: times outside 1601..~60056 saturate at the ends of the range.  In the conversions toward the file
    representation (the functions of internal::timestamp that return a u64 tick count) an overflow that was *checked*
    (`checked_add`, `checked_sub`, `checked_mul`) must be answered with the end of the range it ran over: u64::MAX for
    an addition or multiplication, 0 for a subtraction.  Any other answer (the epoch, a default, a panic through
    unwrap / expect) makes a far-future time come back as 1970 or fail instead of saturating."""
    import re as _re
    from prov import Prov as _Prov
    from dataflow import forward_taint as _ft

    def run(ctx):
        res = RuleResult("R-SATURATE(%s)" % pid, "in the to-timestamp conversions a checked addition / multiplication falls back to u64::MAX and a checked subtraction to 0 (no other fallback, no unwrap)")
        n = 0
        for f in ctx.fx.fns.values():
            if not f.path.startswith("internal::timestamp::") or f.kind == "closure" or f.locals[0]["s"] != "u64" or "::tests::" in f.path:
                continue
            n += 1
            v = view(ctx, f)
            pr = _Prov(f)
            srcs = [(c, c.name.split("::")[-1]) for c in v.calls.values() if c.name.split("::")[-1] in ("checked_add", "checked_sub", "checked_mul") and "num::" in c.name and not c.term["dest"]["proj"]]
            bad = None
            for c, op in srcs:
                T = _ft(f, {c.term["dest"]["local"]})
                for c2 in v.calls.values():
                    short = c2.name.split("::")[-1]
                    if "option::Option" not in c2.name or not c2.term["args"] or op_local(c2.term["args"][0]) not in T:
                        continue
                    if short in ("unwrap", "expect"):
                        bad = (c2, "%s() result is unwrapped: the conversion panics where it should saturate" % op)
                    elif short in ("unwrap_or_default", "unwrap_or_else"):
                        if not (short == "unwrap_or_default" and op == "checked_sub"):
                            bad = (c2, "%s() falls back through %s(): not the end of the range" % (op, short))
                    elif short == "unwrap_or" and len(c2.term["args"]) > 1:
                        fb = pr.operand(c2.term["args"][1])
                        want = r"^const:(0|(\w+::)*MIN)$" if op == "checked_sub" else r"^const:(18446744073709551615|(\w+::)*MAX)$"
                        if not _re.match(want, fb):
                            bad = (c2, "%s() falls back to %s instead of %s" % (op, fb[:40], "0" if op == "checked_sub" else "u64::MAX"))
                    if bad:
                        break
                if bad:
                    break
            if bad:
                res.fail(Finding(res.rule, "R-SATURATE/%s/overflow-not-saturated" % f.path, "%s: %s - a time beyond the representable range is stored as something other than the nearest end of the range" % (f.path.split("::")[-1], bad[1]), f, bad[0].term["span"]))
            else:
                res.ok({"function": f.path, "checked_operations": len(srcs), "saturating_calls": sum(1 for c in v.calls.values() if c.name.split("::")[-1].startswith("saturating_"))}, nontrivial=bool(srcs))
        res.floor("to-timestamp conversion functions", n, ctx.table("floors").get("saturate_fns", 0))
        return res
    return run


def idwidth(pid):
    """R-IDWIDTH: sector ids, mini-sector ids and stream ids are 32-bit, and so are the indices into the tables that
    hold them.  In the allocators, the directory and the chain handles no such value passes through a type narrower
    than 32 bits unless interval evaluation shows that it fits: `id as u16` as the index of a seen-set makes ids that
    differ by 65536 the same - a large but legal file is then refused by the library that wrote it."""
    inner = narrow_in(pid, ["internal::minialloc::", "internal::alloc::", "internal::directory::", "internal::chain::", "internal::minichain::", "internal::sector::"], "the allocators, the directory, the chain handles and the sector layer")

    def run(ctx):
        r = inner(ctx)
        res = RuleResult("R-IDWIDTH(%s)" % pid, "in the allocators, the directory, the chain handles and the sector layer no integer cast narrows to fewer than 32 bits a value that interval evaluation cannot show to fit")
        kept = [f for f in r.findings if re.search(r"-to-[ui](8|16)$", f.key)]
        for f in kept:
            f.rule = res.rule
            f.key = f.key.replace("R-NARROW(%s)/" % pid, "R-IDWIDTH/")
            f.msg = re.sub(r"different code units / characters become equal after the cast", "ids or indices that differ by a multiple of the narrow type's range become equal after the cast", f.msg)
            res.fail(f)
        res.obligations += r.obligations - len(r.findings)
        res.discharged += r.obligations - len(r.findings)
        res.nontrivial += r.nontrivial
        res.floor("integer casts", r.floors.get("integer casts", (0, 0))[0], ctx.table("floors").get("idwidth_casts", 0))
        return res
    return run


def _after_write_all(ctx, f, node, val):
    """node lies behind the Ok outcome of a write_all whose data is a slice `[..val]` (or `[a..a+val]`) of the buffer."""
    v = view(ctx, f)
    pr = Prov(f)
    for bb, c in v.calls.items():
        if not c.name.endswith("write_all") or len(c.term["args"]) < 2 or "io_write" not in ctx.cg.call_effects(c):
            continue
        data = pr.operand(c.term["args"][1])
        if ("RangeTo::RangeTo(%s)" % val) not in data and ("len(%s)" % val) not in data:
            continue
        oks = v.ok_nodes(bb)
        if oks and node not in v.pg.reach([v.pg.entry()], set(oks)):
            return True
    return False


def written(pid):
    """R-WRITTEN: a `Write::write` of the layers below the stream handle (Sector, Chain, MiniChain) answers Ok(n) with
    the n the layer below it reported for a write it actually made (or Ok(0) for an empty buffer).  An Ok(n) computed
    from the buffer's length on a path that made no write ("these bytes are zeros and the space is fresh") claims
    bytes that are not in the file; whatever was there before - a removed stream's data in a recycled mini sector -
    reads back instead."""
    def run(ctx):
        res = RuleResult("R-WRITTEN(%s)" % pid, "every Ok(n) returned by the Write::write impls of Sector, Chain and MiniChain carries the count reported by a write call of the layer below (or the constant 0)")
        n = 0
        for f in ctx.fx.fns.values():
            if f.d.get("impl_trait") != "std::io::Write" or f.d.get("name") != "write" or not re.search(r"internal::(chain|minichain|sector)::", f.path):
                continue
            pr = Prov(f)
            for bb, blk in enumerate(f.blocks):
                if blk["cleanup"]:
                    continue
                for i, st in enumerate(blk["stmts"]):
                    if st["s"] == "assign" and st["place"]["local"] == 0 and not st["place"]["proj"] and st["rv"]["r"] == "aggregate" and st["rv"].get("variant") == "Ok" and st["rv"].get("ops"):
                        n += 1
                        val = pr.operand(st["rv"]["ops"][0])
                        if re.match(r"^const:0", val) or re.search(r"::write\(|Write::write\(|write_all\(", val):
                            res.ok({"function": f.path, "line": st["span"]["line"], "count": val[:70]}, nontrivial=True)
                        elif _after_write_all(ctx, f, ("s", bb, i), val):
                            # `inner.write_all(&buf[..n])?; Ok(n)`: the whole slice was written, or the call failed
                            res.ok({"function": f.path, "line": st["span"]["line"], "count": val[:70], "after": "write_all of a slice of that length"}, nontrivial=True)
                        else:
                            res.fail(Finding(res.rule, "R-WRITTEN/%s/count-not-from-a-write" % f.path, "%s can answer Ok(%s), a count that no write call of the layer below reported: bytes are claimed as written on a path that wrote nothing" % (f.path.split("::")[-2] if "::" in f.path else f.path, val[:80]), f, st["span"]))
        res.floor("Ok returns of the lower layers' write", n, ctx.table("floors").get("written_oks", 0))
        return res
    return run
