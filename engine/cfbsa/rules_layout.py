"""R-LAYOUT (C03, C17): the serialiser, the parser and the in-place patches agree
on the on-disk layout of directory entries and of the header.  Both functions are
walked symbolically in control-flow order; each I/O call contributes (width, count, field)."""
import re

from cfg import block_dominators, natural_loops
from cg import op_local, peel
from core import Finding, RuleResult, view
from dataflow import forward_taint, forward_taint_fields
from prov import Prov, expand_var

WIDTH = {"read_le_u16": 2, "read_le_u32": 4, "read_le_u64": 8, "write_le_u16": 2, "write_le_u32": 4, "write_le_u64": 8}


def rpo(f):
    seen, order = set(), []
    def dfs(b):
        st = [(b, iter(f.succs()[b]))]
        seen.add(b)
        while st:
            n, it = st[-1]
            adv = False
            for s in it:
                if s not in seen and not f.blocks[s]["cleanup"]:
                    seen.add(s)
                    st.append((s, iter(f.succs()[s])))
                    adv = True
                    break
            if not adv:
                order.append(n)
                st.pop()
    dfs(0)
    return order[::-1]


def _array_len(tystr):
    m = re.search(r"\[[^;\]]+; (\d+)\]", tystr)
    return int(m.group(1)) if m else None


def _array_behind(f, l, depth=0):
    """Length of the array a local (reference / slice pointer) was derived from, following ref / cast / use chains."""
    if l is None or depth > 6:
        return None
    n = _array_len(f.locals[l]["s"])
    if n is not None:
        return n
    for blk in f.blocks:
        for st in blk["stmts"]:
            if st["s"] == "assign" and st["place"]["local"] == l and not st["place"]["proj"]:
                rv = st["rv"]
                if rv["r"] in ("ref", "rawptr"):
                    n = _array_len(rv["place"].get("ty", "")) or _array_behind(f, rv["place"]["local"], depth + 1) if not rv["place"]["proj"] or True else None
                    if n is None:
                        n = _array_len(rv["place"].get("ty", ""))
                    if n is not None:
                        return n
                elif rv["r"] in ("cast", "use") and rv["op"]["k"] in ("copy", "move"):
                    n = _array_len(rv["op"]["place"].get("ty", "")) or _array_behind(f, rv["op"]["place"]["local"], depth + 1)
                    if n is not None:
                        return n
                elif rv["r"] == "cast" and rv["op"]["k"] == "const":
                    n = _array_len(rv["op"].get("ty", ""))
                    if n is not None:
                        return n
        t = blk["term"]
        if t["t"] == "call" and not t["dest"]["proj"] and t["dest"]["local"] == l and t["args"]:
            # iter()/iter_mut()/into_iter()/deref of something array-backed
            a = t["args"][0]
            if a["k"] in ("copy", "move"):
                n = _array_len(a["place"].get("ty", "")) or _array_behind(f, a["place"]["local"], depth + 1)
                if n is not None:
                    return n
    return None


def _loop_count(ctx, f, pr, bb, loops):
    """Symbolic trip count of the innermost loop containing block bb: int, ('n', X), ('32-n', X, K) or None."""
    inner = None
    for (h, body, back) in loops:
        if bb in body and (inner is None or len(body) < len(inner[1])):
            inner = (h, body)
    if inner is None:
        return 1
    h, body = inner
    v = view(ctx, f)
    for b2, c in v.calls.items():
        if b2 in body and c.term.get("callee_trait") == "std::iter::Iterator" and c.term.get("callee_name") == "next":
            l = op_local(c.term["args"][0])
            it = pr.operand(c.term["args"][0])
            ity = peel(f.locals[l])["s"] if l is not None else ""
            if "Range::Range(" in it:
                from prov import _split_top
                inner_ = it[it.index("Range::Range(") + 13:]
                depth_ = 1
                end_ = 0
                for i_, ch in enumerate(inner_):
                    if ch == "(":
                        depth_ += 1
                    elif ch == ")":
                        depth_ -= 1
                        if depth_ == 0:
                            end_ = i_
                            break
                parts = _split_top(inner_[:end_])
                if len(parts) == 2 and re.match(r"^const:\d+$", parts[1]):
                    hi = int(parts[1][6:])
                    if re.match(r"^const:\d+$", parts[0]):
                        return hi - int(parts[0][6:])
                    if parts[0].startswith("len(") or parts[0].startswith("Vec::len(") or "::len(" in parts[0]:
                        return ("K-n", parts[0], hi)
            n = None
            # iterating an array field / local array
            mm = re.search(r"iter(_mut)?\((.*)\)", it)
            if mm:
                src = mm.group(2)
                for i_, lt in enumerate(f.locals):
                    pass
                # type of the iterated thing: look for an array type among the iterator's type args
                n = _array_len(ity) or _array_behind(f, l)
                if n is None:
                    # field of a struct: consult ADT table
                    fm = re.search(r"\.(\w+)$", src)
                    if fm:
                        for a in ctx.fx.adts.values():
                            for var in a["variants"]:
                                for fld in var["fields"]:
                                    if fld["name"] == fm.group(1) and _array_len(fld["ty"]["s"]):
                                        n = _array_len(fld["ty"]["s"])
                if n is not None:
                    return n
                return ("n", src)
    return _counter_count(ctx, f, h, body)


def _counter_count(ctx, f, header, body):
    """Trip count of a `while i < K { ..; i += 1 }` loop: K - init, with init a constant or a length."""
    from rules_sink import guards, _edge_label, _loop_cycle_passes
    v = view(ctx, f)
    g = guards(ctx, f)
    pr = g.prov
    names = {nm: l for l, nm in f.debug_names().items()}
    for b in body:
        if f.blocks[b]["term"]["t"] != "switch":
            continue
        for k, tgt in enumerate(f.succ(b)):
            if tgt in body or f.blocks[tgt]["cleanup"]:
                continue
            val, vals = _edge_label(f, b, k)
            for a in g.describe_all(b, val, vals):
                m = re.match(r"^\(Ge\((var:\w+),const:(\d+)\)\)$", a)
                if not m:
                    continue
                var, hi = m.group(1), int(m.group(2))
                l = names.get(var[4:])
                if l is None:
                    continue
                incs, inits, bad = set(), [], False
                for d in pr.defs.get(l, []):
                    dp = pr._def(d, 0, ())
                    if d[0] in body:
                        if dp == "Add(%s,const:1)" % var:
                            incs.add(("t", d[0]) if d[1] == "t" else ("s", d[0], d[1]))
                        else:
                            bad = True
                    else:
                        inits.append(dp)
                if bad or not incs or len(inits) != 1 or not _loop_cycle_passes(v.pg, f, header, body, incs):
                    continue
                init = inits[0]
                if re.match(r"^const:\d+$", init):
                    return hi - int(init[6:])
                if init.startswith("len(") or "::len(" in init:
                    return ("K-n", init, hi)
    return None


def walk(ctx, f, kind):
    """Ordered list of (width, count, field, line) for a reader ('r') or writer ('w')."""
    v = view(ctx, f)
    pr = Prov(f)
    loops = natural_loops(f)
    order = {b: i for i, b in enumerate(rpo(f))}
    # for readers: which aggregate field does each local feed?
    agg_fields = {}
    out = []
    final_agg = None
    if kind == "r":
        for bb, blk in enumerate(f.blocks):
            for st in blk["stmts"]:
                if st["s"] == "assign" and st["rv"]["r"] == "aggregate" and st["rv"].get("agg") == "adt" and st["rv"]["adt"] in ctx.table("layout").get("structs", []):
                    final_agg = st["rv"]
    for bb in sorted(v.calls, key=lambda b: order.get(b, 1 << 30)):
        c = v.calls[bb]
        t = c.term
        short = c.name.split("::")[-1]
        width = None
        field = None
        if short in WIDTH and ((kind == "r") == short.startswith("read")):
            width = WIDTH[short]
        elif kind == "r" and t.get("callee_trait") == "std::io::Read" and short == "read_exact":
            l = op_local(t["args"][1])
            width = _array_behind(f, l)
            if width is None and l is not None:
                # &mut [u8; N] borrowed from a local array
                for blk in f.blocks:
                    for st in blk["stmts"]:
                        if st["s"] == "assign" and st["place"]["local"] == l and st["rv"]["r"] == "ref":
                            width = _array_len(f.locals[st["rv"]["place"]["local"]]["s"])
        elif kind == "w" and t.get("callee_trait") == "std::io::Write" and short == "write_all":
            l = op_local(t["args"][1])
            width = _array_behind(f, l)
            if width is None and l is not None:
                for blk in f.blocks:
                    for st in blk["stmts"]:
                        if st["s"] == "assign" and st["place"]["local"] == l:
                            if st["rv"]["r"] == "ref":
                                width = _array_len(st["rv"]["place"]["ty"]) or _array_len(f.locals[st["rv"]["place"]["local"]]["s"])
                            elif st["rv"]["r"] == "cast":
                                o = st["rv"]["op"]
                                if o["k"] in ("copy", "move"):
                                    width = _array_len(f.locals[o["place"]["local"]]["s"])
                                    if width is None:
                                        # cast of a reference to an array
                                        for blk2 in f.blocks:
                                            for st2 in blk2["stmts"]:
                                                if st2["s"] == "assign" and st2["place"]["local"] == o["place"]["local"] and st2["rv"]["r"] == "ref":
                                                    width = _array_len(st2["rv"]["place"]["ty"]) or _array_len(f.locals[st2["rv"]["place"]["local"]]["s"])
                                elif o["k"] == "const":
                                    width = _array_len(o.get("ty", ""))
        elif re.search(r"DirEntry::(read|write)_clsid$", c.name) and ((kind == "r") == ("read_clsid" in c.name)):
            width = 16
        elif re.search(r"Timestamp::(read_from|write_to)$", c.name) and ((kind == "r") == ("read_from" in c.name)):
            width = 8
        if width is None:
            continue
        count = _loop_count(ctx, f, pr, bb, loops)
        if kind == "w":
            argi = 1 if short != "write_to" and "write_clsid" not in c.name else (1 if "write_clsid" in c.name else 0)
            ap = pr.operand(t["args"][argi]) if argi < len(t["args"]) else ""
            m = re.search(r"param:self\.(\w+)", ap)
            field = m.group(1) if m else ("zero" if re.match(r"^(const:0|repeat\(const:0\))$", ap) else ("const" if ap.startswith("const:") or "consts::" in ap else ap[:40]))
            if "encode_utf16" in ap or "name" in ap:
                field = "name" if "Add(" not in ap and "Mul(" not in ap else "name_len"
        else:
            # reader: follow the payload into the final aggregate
            field = None
            if final_agg is not None and not t["dest"]["proj"]:
                seeds = {t["dest"]["local"]}
                if short == "read_exact":
                    l = op_local(t["args"][1])
                    seeds = set()
                    cur = {l}
                    for _ in range(6):
                        nxt = set()
                        for blk in f.blocks:
                            for st in blk["stmts"]:
                                if st["s"] == "assign" and st["place"]["local"] in cur and not st["place"]["proj"]:
                                    rv_ = st["rv"]
                                    if rv_["r"] in ("ref", "rawptr"):
                                        seeds.add(rv_["place"]["local"])
                                    elif rv_["r"] in ("cast", "use") and rv_["op"]["k"] in ("copy", "move"):
                                        nxt.add(rv_["op"]["place"]["local"])
                        if not nxt:
                            break
                        cur = nxt
                tainted = forward_taint_fields(f, seeds)
                # a payload pushed into a local container taints that container
                grew = True
                while grew:
                    grew = False
                    for b3, c3 in v.calls.items():
                        if c3.name.split("::")[-1] in ("push", "extend_from_slice", "insert") and len(c3.term["args"]) >= 2:
                            if any(a["k"] in ("copy", "move") and a["place"]["local"] in tainted for a in c3.term["args"][1:]):
                                r0 = op_local(c3.term["args"][0])
                                for blk in f.blocks:
                                    for st in blk["stmts"]:
                                        if st["s"] == "assign" and st["place"]["local"] == r0 and st["rv"]["r"] == "ref":
                                            tl = st["rv"]["place"]["local"]
                                            if tl not in tainted:
                                                tainted |= forward_taint_fields(f, {tl})
                                                grew = True
                hits = [fn_ for o, fn_ in zip(final_agg["ops"], final_agg["fields"]) if o["k"] in ("copy", "move") and o["place"]["local"] in tainted]
                if len(hits) == 1:
                    field = hits[0]
                elif hits:
                    field = "|".join(hits)
        out.append({"width": width, "count": count, "field": field, "line": c.line})
    return out


def normalise(seq):
    """Merge the writer's (n x u16 name) + ((32-n) x u16 zero) into 32 x u16 'name'; expand counts."""
    out = []
    i = 0
    while i < len(seq):
        e = dict(seq[i])
        c = e["count"]
        if isinstance(c, tuple) and c[0] == "n" and i + 1 < len(seq):
            nxt = seq[i + 1]
            if isinstance(nxt["count"], tuple) and nxt["count"][0] == "K-n" and nxt["width"] == e["width"]:
                e["count"] = nxt["count"][2]
                out.append(e)
                i += 2
                continue
        out.append(e)
        i += 1
    return out


def offsets(seq):
    off = 0
    res = []
    for e in seq:
        c = e["count"] if isinstance(e["count"], int) else None
        res.append((off, e))
        if c is None or off is None:
            off = None
        else:
            off += e["width"] * c
    return res, off


def run(pid):
    def r(ctx):
        res = RuleResult("R-LAYOUT(%s)" % pid, "reader and writer of the directory entry / header agree field for field and width for width; totals equal the format constants; in-place patch offsets equal the derived field offsets")
        tbl = ctx.table("layout")
        n = 0
        abstained = False
        for pair in tbl.get("pairs", []):
            if pid not in pair.get("properties", [pid]):
                continue
            fr, fw = ctx.fx.fns.get(pair["reader"]), ctx.fx.fns.get(pair["writer"])
            if fr is None or fw is None:
                res.gone.append(pair["name"])
                continue
            rs = normalise(walk(ctx, fr, "r"))
            ws = normalise(walk(ctx, fw, "w"))
            ro, rtot = offsets(rs)
            wo, wtot = offsets(ws)
            key = "R-LAYOUT(%s)/%s" % (pid, pair["name"])
            n += 1
            if rtot is None or wtot is None:
                res.unclassified.append({"pair": pair["name"], "note": "layout not derivable on this tree (a loop count or width could not be reduced to a constant)", "reader": [(e["width"], str(e["count"]), e["field"]) for e in rs], "writer": [(e["width"], str(e["count"]), e["field"]) for e in ws]})
                abstained = True
                if ctx.is_reference_tree():
                    res.fail(Finding(res.rule, key + "/underivable", "the layout of %s could not be derived (reader total %s, writer total %s)" % (pair["name"], rtot, wtot), fr))
                continue
            if rtot != pair["total"] or wtot != pair["total"]:
                res.fail(Finding(res.rule, key + "/total", "%s: reader consumes %d bytes, writer produces %d bytes, the format says %d" % (pair["name"], rtot, wtot, pair["total"]), fw))
            else:
                res.ok({"pair": pair["name"], "total": rtot}, nontrivial=True)
            # field-for-field
            rmap = {}
            for off, e in ro:
                rmap[off] = e
            only = set(pair.get("fields", []))
            for off, e in wo:
                n += 1
                re_ = rmap.get(off)
                wf = e["field"]
                if re_ is None:
                    res.fail(Finding(res.rule, key + "/boundary/%s" % wf, "%s: the writer starts field %s at offset %d, where the reader has no field boundary" % (pair["name"], wf, off), fw))
                    continue
                if re_["width"] * (re_["count"] if isinstance(re_["count"], int) else 1) != e["width"] * (e["count"] if isinstance(e["count"], int) else 1):
                    res.fail(Finding(res.rule, key + "/width/%s" % wf, "%s: at offset %d the writer emits %d x %d bytes (%s) but the reader consumes %d x %s" % (pair["name"], off, e["count"], e["width"], wf, re_["width"], re_["count"]), fw))
                    continue
                rf = re_["field"]
                if rf and wf and wf not in ("zero", "const", "name_len") and rf != wf and wf in (pair.get("all_fields") or [wf]) and (not only or wf in only or rf in only):
                    res.fail(Finding(res.rule, key + "/field/%s" % wf, "%s: at offset %d the writer stores field `%s` where the reader loads field `%s`" % (pair["name"], off, wf, rf), fw))
                else:
                    res.ok({"pair": pair["name"], "offset": off, "width": e["width"], "count": e["count"], "writer_field": wf, "reader_field": rf}, nontrivial=True)
            # patch offsets
            fieldoff = {}
            for off, e in wo:
                if e["field"]:
                    fieldoff[e["field"]] = off
            for patch in pair.get("patches", []):
                n += 1
                want = fieldoff.get(patch["field"])
                got = patch["offset"]
                if want is None:
                    res.gone.append(pair["name"] + ":" + patch["field"])
                elif want != got:
                    res.fail(Finding(res.rule, key + "/patch-offset/%s" % patch["field"], "%s: field %s lives at offset %d in the serialiser but is patched in place at offset %d (%s)" % (pair["name"], patch["field"], want, got, patch["where"]), fw))
                else:
                    res.ok({"pair": pair["name"], "patched_field": patch["field"], "offset": got, "where": patch["where"]})
        # a serialiser rewritten into a shape the walker cannot reduce is an abstention, not an alarm (the floor only binds where every pair was derived)
        res.floor("layout obligations", n, 0 if abstained else ctx.table("floors").get("layout_" + pid, 0))
        return r_fix(res)
    return r


def r_fix(res):
    return res
