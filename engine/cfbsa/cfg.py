"""CFG toolkit (A2): point graph, reachability with blocked sets, dominators,
natural loops.  Unwind edges are ignored: panics are a separate property."""
from collections import deque


class PG:
    """Point graph of one function.

    Nodes:  ('s', bb, i)  statement i of block bb
            ('t', bb)     terminator of block bb
            ('e', bb, k)  k-th normal out-edge of bb's terminator
    Every terminator out-edge passes through its own 'e' node, so events
    that live on edges (ok / err successor of a `?`) are ordinary nodes."""

    def __init__(self, fn):
        self.fn = fn
        self.succ = {}
        self.edge_target = {}
        nb = len(fn.blocks)
        for bb in range(nb):
            blk = fn.blocks[bb]
            if blk["cleanup"]:
                continue
            n = len(blk["stmts"])
            prev = None
            for i in range(n):
                node = ("s", bb, i)
                self.succ[node] = []
                if prev is not None:
                    self.succ[prev].append(node)
                prev = node
            t = ("t", bb)
            self.succ[t] = []
            if prev is not None:
                self.succ[prev].append(t)
            for k, tgt in enumerate(fn.succ(bb)):
                e = ("e", bb, k)
                self.succ[t].append(e)
                self.edge_target[e] = tgt
                self.succ[e] = []
        for e, tgt in self.edge_target.items():
            self.succ[e].append(self.entry_of(tgt))
        self.pred = {n: [] for n in self.succ}
        for n, ss in self.succ.items():
            for s in ss:
                self.pred.setdefault(s, []).append(n)

    def entry_of(self, bb):
        return ("s", bb, 0) if self.fn.blocks[bb]["stmts"] else ("t", bb)

    def entry(self):
        return self.entry_of(0)

    def returns(self):
        return [("t", bb) for bb, b in enumerate(self.fn.blocks) if not b["cleanup"] and b["term"]["t"] == "return"]

    def edge_node(self, bb, target):
        """'e' nodes of bb's terminator that lead to block `target`."""
        return [e for e, t in self.edge_target.items() if e[1] == bb and t == target]

    def reach(self, starts, avoid=(), backwards=False, include_starts=True):
        avoid = set(avoid)
        adj = self.pred if backwards else self.succ
        seen = set()
        dq = deque()
        for s in starts:
            if s in avoid and not include_starts:
                continue
            if s not in seen:
                seen.add(s)
                dq.append(s)
        while dq:
            n = dq.popleft()
            for m in adj.get(n, ()):
                if m in seen or m in avoid:
                    continue
                seen.add(m)
                dq.append(m)
        return seen

    def reach_after(self, node, avoid=()):
        """Nodes reachable strictly after `node`."""
        avoid = set(avoid)
        starts = [m for m in self.succ.get(node, ()) if m not in avoid]
        return self.reach(starts, avoid)

    def path(self, src, dsts, avoid=()):
        """A shortest path (list of nodes) from src to any node of dsts
        avoiding `avoid`, or None."""
        avoid = set(avoid)
        dsts = set(dsts)
        prev = {src: None}
        dq = deque([src])
        while dq:
            n = dq.popleft()
            if n in dsts and n != src:
                out = []
                while n is not None:
                    out.append(n)
                    n = prev[n]
                return out[::-1]
            for m in self.succ.get(n, ()):
                if m in prev or m in avoid:
                    continue
                prev[m] = n
                dq.append(m)
        if src in dsts:
            return [src]
        return None

    def fmt_path(self, path):
        bbs = []
        for n in path:
            bb = n[1]
            if not bbs or bbs[-1] != bb:
                bbs.append(bb)
        return "->".join("bb%d" % b for b in bbs)


def block_dominators(fn):
    """dom[b] = set of blocks dominating b (non-cleanup blocks only)."""
    nb = len(fn.blocks)
    live = [b for b in range(nb) if not fn.blocks[b]["cleanup"]]
    preds = fn.preds()
    # restrict to reachable from 0
    reach = set()
    st = [0]
    while st:
        b = st.pop()
        if b in reach:
            continue
        reach.add(b)
        st.extend(fn.succs()[b])
    live = [b for b in live if b in reach]
    allb = set(live)
    dom = {b: set(allb) for b in live}
    dom[0] = {0}
    changed = True
    while changed:
        changed = False
        for b in live:
            if b == 0:
                continue
            ps = [p for p in preds[b] if p in dom]
            if not ps:
                continue
            new = set.intersection(*[dom[p] for p in ps]) | {b}
            if new != dom[b]:
                dom[b] = new
                changed = True
    return dom


def natural_loops(fn):
    """List of (header, body_blocks, back_edges) from back edges t->h with h dom t.
    Loops sharing a header are merged."""
    dom = block_dominators(fn)
    loops = {}
    for t in dom:
        for h in fn.succs()[t]:
            if h in dom.get(t, ()):
                body = {h, t}
                st = [t]
                while st:
                    x = st.pop()
                    if x == h:
                        continue
                    for p in fn.preds()[x]:
                        if p in dom and p not in body:
                            body.add(p)
                            st.append(p)
                l = loops.setdefault(h, [set(), []])
                l[0] |= body
                l[1].append((t, h))
    return [(h, v[0], v[1]) for h, v in sorted(loops.items())]


def reach_flag_aware(fn, pg, starts, avoid=()):
    """Forward reachability like PG.reach, but carrying the known values of boolean locals whose every definition is
    a constant (`matches!`, `let bad = ..` flags lowered by the compiler, `found` flags): an edge of a switch on such a
    local is not taken when the value assigned on the way contradicts it."""
    from dataflow import assigned_locals
    avoid = set(avoid)
    defs = assigned_locals(fn)
    flagdefs = {}
    flags = set()
    for l, ds in defs.items():
        if fn.locals[l]["s"] != "bool" or not ds:
            continue
        vals = []
        for d in ds:
            bb, idx, x = d
            if idx == "t" or x["place"]["proj"] or x["rv"]["r"] != "use" or x["rv"]["op"]["k"] != "const" or "val" not in x["rv"]["op"]:
                vals = None
                break
            vals.append((("s", bb, idx), bool(x["rv"]["op"]["val"])))
        if vals:
            flags.add(l)
            for n_, v_ in vals:
                flagdefs[n_] = (l, v_)
    edge_fact = {}
    if flags:
        for b, blk in enumerate(fn.blocks):
            t = blk["term"]
            if blk["cleanup"] or t["t"] != "switch" or t["discr"]["k"] not in ("copy", "move") or t["discr"]["place"]["proj"]:
                continue
            l = t["discr"]["place"]["local"]
            src = l
            if l not in flags:
                # `_t = copy flag; switch _t`
                for st in blk["stmts"]:
                    if st["s"] == "assign" and not st["place"]["proj"] and st["place"]["local"] == l and st["rv"]["r"] == "use" and st["rv"]["op"]["k"] in ("copy", "move") and not st["rv"]["op"]["place"]["proj"] and st["rv"]["op"]["place"]["local"] in flags:
                        src = st["rv"]["op"]["place"]["local"]
            if src not in flags:
                continue
            arms = dict((int(v_), tg) for v_, tg in t["arms"])
            for e, tgt in pg.edge_target.items():
                if e[1] != b:
                    continue
                if 0 in arms and tgt == arms[0] and tgt != t["otherwise"]:
                    edge_fact[e] = (src, False)
                elif tgt == t["otherwise"] and (0 in arms and arms[0] != tgt):
                    edge_fact[e] = (src, True)
    start_states = [(s_, ()) for s_ in starts if s_ not in avoid]
    seen = set(start_states)
    work = list(start_states)
    out = set(s_ for s_, _ in start_states)
    while work:
        n, st = work.pop()
        for q in pg.succ.get(n, ()):
            if q in avoid:
                continue
            fd = dict(st)
            if q in edge_fact:
                l, v = edge_fact[q]
                if l in fd and fd[l] != v:
                    continue
                fd[l] = v
            if q in flagdefs:
                fd[flagdefs[q][0]] = flagdefs[q][1]
            key = (q, tuple(sorted(fd.items())))
            if key not in seen:
                seen.add(key)
                out.add(q)
                work.append(key)
    return out
