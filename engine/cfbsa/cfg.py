"""CFG toolkit (A2): point graph, reachability with blocked sets, dominators,
natural loops.  Unwind edges are ignored: panics are a separate property."""
from collections import deque


class PG:
    """Point graph of one function.

    Nodes:  ('s', bb, i)  statement i of block bb
            ('t', bb)     terminator of block bb
            ('e', bb, k)  k-th normal out-edge of bb's terminator
    Every terminator out-edge passes through its own 'e' node, so events
    that live on edges (ok / err successor of a `?`) are ordinary nodes."""

    def __init__(self, fn):
        self.fn = fn
        self.succ = {}
        self.edge_target = {}
        nb = len(fn.blocks)
        for bb in range(nb):
            blk = fn.blocks[bb]
            if blk["cleanup"]:
                continue
            n = len(blk["stmts"])
            prev = None
            for i in range(n):
                node = ("s", bb, i)
                self.succ[node] = []
                if prev is not None:
                    self.succ[prev].append(node)
                prev = node
            t = ("t", bb)
            self.succ[t] = []
            if prev is not None:
                self.succ[prev].append(t)
            for k, tgt in enumerate(fn.succ(bb)):
                e = ("e", bb, k)
                self.succ[t].append(e)
                self.edge_target[e] = tgt
                self.succ[e] = []
        for e, tgt in self.edge_target.items():
            self.succ[e].append(self.entry_of(tgt))
        self.pred = {n: [] for n in self.succ}
        for n, ss in self.succ.items():
            for s in ss:
                self.pred.setdefault(s, []).append(n)

    def entry_of(self, bb):
        return ("s", bb, 0) if self.fn.blocks[bb]["stmts"] else ("t", bb)

    def entry(self):
        return self.entry_of(0)

    def returns(self):
        return [("t", bb) for bb, b in enumerate(self.fn.blocks) if not b["cleanup"] and b["term"]["t"] == "return"]

    def edge_node(self, bb, target):
        """'e' nodes of bb's terminator that lead to block `target`."""
        return [e for e, t in self.edge_target.items() if e[1] == bb and t == target]

    def reach(self, starts, avoid=(), backwards=False, include_starts=True):
        avoid = set(avoid)
        adj = self.pred if backwards else self.succ
        seen = set()
        dq = deque()
        for s in starts:
            if s in avoid and not include_starts:
                continue
            if s not in seen:
                seen.add(s)
                dq.append(s)
        while dq:
            n = dq.popleft()
            for m in adj.get(n, ()):
                if m in seen or m in avoid:
                    continue
                seen.add(m)
                dq.append(m)
        return seen

    def reach_after(self, node, avoid=()):
        """Nodes reachable strictly after `node`."""
        avoid = set(avoid)
        starts = [m for m in self.succ.get(node, ()) if m not in avoid]
        return self.reach(starts, avoid)

    def path(self, src, dsts, avoid=()):
        """A shortest path (list of nodes) from src to any node of dsts
        avoiding `avoid`, or None."""
        avoid = set(avoid)
        dsts = set(dsts)
        prev = {src: None}
        dq = deque([src])
        while dq:
            n = dq.popleft()
            if n in dsts and n != src:
                out = []
                while n is not None:
                    out.append(n)
                    n = prev[n]
                return out[::-1]
            for m in self.succ.get(n, ()):
                if m in prev or m in avoid:
                    continue
                prev[m] = n
                dq.append(m)
        if src in dsts:
            return [src]
        return None

    def fmt_path(self, path):
        bbs = []
        for n in path:
            bb = n[1]
            if not bbs or bbs[-1] != bb:
                bbs.append(bb)
        return "->".join("bb%d" % b for b in bbs)


def block_dominators(fn):
    """dom[b] = set of blocks dominating b (non-cleanup blocks only)."""
    nb = len(fn.blocks)
    live = [b for b in range(nb) if not fn.blocks[b]["cleanup"]]
    preds = fn.preds()
    # restrict to reachable from 0
    reach = set()
    st = [0]
    while st:
        b = st.pop()
        if b in reach:
            continue
        reach.add(b)
        st.extend(fn.succs()[b])
    live = [b for b in live if b in reach]
    allb = set(live)
    dom = {b: set(allb) for b in live}
    dom[0] = {0}
    changed = True
    while changed:
        changed = False
        for b in live:
            if b == 0:
                continue
            ps = [p for p in preds[b] if p in dom]
            if not ps:
                continue
            new = set.intersection(*[dom[p] for p in ps]) | {b}
            if new != dom[b]:
                dom[b] = new
                changed = True
    return dom


def natural_loops(fn):
    """List of (header, body_blocks, back_edges) from back edges t->h with h dom t.
    Loops sharing a header are merged."""
    dom = block_dominators(fn)
    loops = {}
    for t in dom:
        for h in fn.succs()[t]:
            if h in dom.get(t, ()):
                body = {h, t}
                st = [t]
                while st:
                    x = st.pop()
                    if x == h:
                        continue
                    for p in fn.preds()[x]:
                        if p in dom and p not in body:
                            body.add(p)
                            st.append(p)
                l = loops.setdefault(h, [set(), []])
                l[0] |= body
                l[1].append((t, h))
    return [(h, v[0], v[1]) for h, v in sorted(loops.items())]
