"""Fact extraction: runs the rustc_private driver over a crate under
`cargo +nightly check` with a fresh target directory; caches by content hash."""
import fcntl
import hashlib
import os
import shutil
import subprocess
import tempfile

VERIF = os.path.dirname(os.path.dirname(os.path.dirname(os.path.abspath(__file__))))
DRIVER_DIR = os.path.join(VERIF, "engine", "driver")
DRIVER = os.path.join(DRIVER_DIR, "target", "release", "cfbsa-driver")
CACHE = os.path.join(VERIF, ".cache")


class ExtractError(Exception):
    pass


def _sysroot():
    return subprocess.check_output(["rustc", "+nightly", "--print", "sysroot"], text=True).strip()


def ensure_driver():
    if os.path.exists(DRIVER):
        src = os.path.join(DRIVER_DIR, "src", "main.rs")
        if os.path.getmtime(src) <= os.path.getmtime(DRIVER):
            return
    env = dict(os.environ, CARGO_NET_OFFLINE="true")
    r = subprocess.run(["cargo", "+nightly", "build", "--release", "--offline"], cwd=DRIVER_DIR, env=env,
                       stdout=subprocess.PIPE, stderr=subprocess.STDOUT, text=True)
    if r.returncode != 0 or not os.path.exists(DRIVER):
        raise ExtractError("driver build failed:\n" + r.stdout[-4000:])


def tree_hash(crate_dir, extra=()):
    h = hashlib.sha256()
    files = []
    for root, dirs, fs in os.walk(os.path.join(crate_dir, "src")):
        dirs.sort()
        for f in sorted(fs):
            files.append(os.path.join(root, f))
    for f in ("Cargo.toml", "Cargo.lock"):
        p = os.path.join(crate_dir, f)
        if os.path.exists(p):
            files.append(p)
    for p in files:
        h.update(os.path.relpath(p, crate_dir).encode())
        h.update(b"\0")
        with open(p, "rb") as fh:
            h.update(fh.read())
        h.update(b"\0")
    with open(DRIVER, "rb") as fh:
        h.update(hashlib.sha256(fh.read()).digest())
    for e in extra:
        h.update(str(e).encode())
    return h.hexdigest()


def src_hash(crate_dir):
    """Hash of src/ only (identifies the reference tree)."""
    h = hashlib.sha256()
    for root, dirs, fs in os.walk(os.path.join(crate_dir, "src")):
        dirs.sort()
        for f in sorted(fs):
            p = os.path.join(root, f)
            h.update(os.path.relpath(p, crate_dir).encode())
            with open(p, "rb") as fh:
                h.update(fh.read())
    return h.hexdigest()


def extract(crate_dir, crate_name, profile="dev", use_cache=True, out_path=None):
    """Returns path of the facts JSON for crate_dir (lib target).  With out_path the shared cache is bypassed."""
    ensure_driver()
    os.makedirs(CACHE, exist_ok=True)
    key = tree_hash(crate_dir, (profile, crate_name))
    out = out_path or os.path.join(CACHE, "%s-%s-%s.json" % (crate_name, profile, key[:24]))
    if out_path:
        use_cache = False
    if use_cache and os.path.exists(out):
        return out
    lock = open(os.path.join(CACHE, ".lock-" + key[:24]), "w")
    fcntl.flock(lock, fcntl.LOCK_EX)
    try:
        if use_cache and os.path.exists(out):
            return out
        tdir = tempfile.mkdtemp(prefix="cfbsa-target-")
        odir = tempfile.mkdtemp(prefix="cfbsa-out-")
        try:
            env = dict(os.environ)
            env.update({
                "CARGO_NET_OFFLINE": "true",
                "LD_LIBRARY_PATH": _sysroot() + "/lib:" + os.environ.get("LD_LIBRARY_PATH", ""),
                "RUSTFLAGS": "-Zmir-opt-level=0 -Awarnings",
                "RUSTC_WORKSPACE_WRAPPER": DRIVER,
                "CARGO_TARGET_DIR": tdir,
                "CFBSA_OUT_DIR": odir,
            })
            env.pop("RUSTC_WRAPPER", None)
            cmd = ["cargo", "+nightly", "check", "--offline", "--lib"]
            if profile == "release":
                cmd.append("--release")
            r = subprocess.run(cmd, cwd=crate_dir, env=env, stdout=subprocess.PIPE, stderr=subprocess.STDOUT, text=True)
            produced = os.path.join(odir, crate_name + ".json")
            if r.returncode != 0:
                raise ExtractError("cargo check failed for %s (does not compile?):\n%s" % (crate_dir, r.stdout[-6000:]))
            if not os.path.exists(produced):
                raise ExtractError("driver produced no facts for %s:\n%s" % (crate_dir, r.stdout[-3000:]))
            shutil.move(produced, out + ".tmp")
            os.replace(out + ".tmp", out)
        finally:
            shutil.rmtree(tdir, ignore_errors=True)
            shutil.rmtree(odir, ignore_errors=True)
        if out_path:
            return out
        # keep the cache small
        ents = sorted((os.path.getmtime(os.path.join(CACHE, f)), f) for f in os.listdir(CACHE) if f.endswith(".json"))
        for _, f in ents[:-12]:
            try:
                os.remove(os.path.join(CACHE, f))
            except OSError:
                pass
        return out
    finally:
        fcntl.flock(lock, fcntl.LOCK_UN)
        lock.close()
        try:
            os.remove(lock.name)
        except OSError:
            pass


if __name__ == "__main__":
    import sys
    print(extract(sys.argv[1], sys.argv[2], sys.argv[3] if len(sys.argv) > 3 else "dev"))
