"""Qualifier inference for id kinds (TreeId: valid index into the directory
table; SectorId / MiniSectorId: member of a validated chain).  A value has the
qualifier if its provenance matches an introduction rule; parameters are
resolved through all call sites (least fixpoint)."""
import re

from cg import op_local
from core import view
from prov import Prov, guards, _split_top


class Qual:
    def __init__(self, ctx, spec):
        self.ctx = ctx
        self.spec = spec
        self.consts = [re.compile(x) for x in spec.get("constants", [])]
        self.producers = [re.compile(x) for x in spec.get("producers", [])]
        self.links = spec.get("link_fields", [])
        self.sentinel = spec.get("sentinel")
        self.fields = [re.compile(x) for x in spec.get("qualified_fields", [])]
        self.validators = spec.get("validated_by_dominating_call", [])
        self.containers = [re.compile(x) for x in spec.get("containers", [])]
        self._memo = {}
        self._callers = None
        self.audited_used = []

    # -- helpers -------------------------------------------------------
    def callers_of(self, path):
        if self._callers is None:
            self._callers = {}
            for f in self.ctx.fx.fns.values():
                for c in self.ctx.cg.calls[f.path]:
                    if c.kind == "call":
                        for g in c.targets:
                            self._callers.setdefault(g.path, []).append((f, c))
        return self._callers.get(path, [])

    def _guarded_not_sentinel(self, atoms, p):
        if self.sentinel is None:
            return True
        s = self.sentinel
        from core import numeric
        want = ("(Ne(%s,%s))" % (p, s), "!(Eq(%s,%s))" % (p, s), "(Ne(%s,%s))" % (s, p), "!(Eq(%s,%s))" % (s, p))
        wantn = None
        for a in atoms:
            if a in want:
                return True
            if "const:" in a and ("Ne(" in a or "Eq(" in a):
                # `match link { NO_STREAM => .., id => .. }` compares with the constant's value, not its name
                wantn = wantn or tuple(numeric(w) for w in want)
                if numeric(a) in wantn:
                    return True
        return False

    def _checked_since(self, f, l, p, dnode, use):
        """Every path from the definition node to the use passes a sentinel comparison of the
        variable (taking the 'not the sentinel' edge) or another definition of it."""
        g = guards(self.ctx, f)
        pg = g.pg
        avoid = set()
        for (e, bb, val, vals) in g._edges():
            a = g.describe(bb, val, vals)
            if a and self._guarded_not_sentinel([a], p):
                avoid.add(e)
        pr = Prov(f)
        for d in pr.defs.get(l, []):
            n = ("t", d[0]) if d[1] == "t" else ("s", d[0], d[1])
            if n != dnode:
                avoid.add(n)
        # boolean flags (`let mut found = false; while !found { .. }`): a walk that carries the flags' known values does
        # not take an edge that needs the opposite value
        names = {nm: lo for lo, nm in f.debug_names().items()}
        flagdefs = {}
        for nm, lo in names.items():
            ds = pr.defs.get(lo, [])
            vals_ = [pr._def(d, 1, (lo,)) for d in ds]
            if ds and all(re.match(r"^const:(0|1|true|false)$", x) for x in vals_):
                for d, x in zip(ds, vals_):
                    flagdefs[("t", d[0]) if d[1] == "t" else ("s", d[0], d[1])] = (nm, x in ("const:1", "const:true"))
        if not flagdefs:
            return use not in pg.reach_after(dnode, avoid)
        flags = {nm for (nm, _) in flagdefs.values()}
        edge_fact = {}
        for (e, bb, val, vals) in g._edges():
            m = re.match(r"^(!?)\(var:(\w+)\)$", g.describe(bb, val, vals) or "")
            if m and m.group(2) in flags:
                edge_fact[e] = (m.group(2), m.group(1) == "")
        init = {}
        for a_ in g.atoms_at(dnode):
            m = re.match(r"^(!?)\(var:(\w+)\)$", a_)
            if m and m.group(2) in flags:
                init[m.group(2)] = (m.group(1) == "")
        start = (dnode, tuple(sorted(init.items())))
        seen_ = {start}
        work = [start]
        while work:
            (n, st) = work.pop()
            for q in pg.succ.get(n, ()):
                if q in avoid:
                    continue
                fd = dict(st)
                if q in edge_fact:
                    nm, v = edge_fact[q]
                    if nm in fd and fd[nm] != v:
                        continue
                    fd[nm] = v
                if q in flagdefs:
                    fd[flagdefs[q][0]] = flagdefs[q][1]
                if q == use:
                    return False
                key = (q, tuple(sorted(fd.items())))
                if key not in seen_:
                    seen_.add(key)
                    work.append(key)
        return True

    # -- main ----------------------------------------------------------
    def check(self, f, call, argi, depth=0, seen=(), sent=False):
        """(ok, why) for argument argi of `call` in function f.  sent: the value is compared with the
        sentinel further down, at its use (a link field may then flow here unchecked)."""
        g = guards(self.ctx, f)
        p = g.prov.operand(call.term["args"][argi])
        atoms = g.atoms_at(("t", call.bb))
        return self.check_prov(f, p, atoms, call, depth, seen, sent)

    def check_prov(self, f, p, atoms, call, depth, seen, sent=False):
        if depth > 8:
            return False, "inference depth exceeded at %s" % p[:60]
        for rx in self.consts:
            if rx.search(p):
                return True, "constant"
        for rx in self.producers:
            if rx.search(p):
                return True, "produced by " + rx.pattern[:40]
        for rx in self.fields:
            if rx.search(p):
                return True, "field that only ever holds qualified values"
        for rx in self.containers:
            if rx.search(p):
                return True, "element of a container of qualified values"
        # validated by a dominating call on the same value
        if call is not None:
            v = view(self.ctx, f)
            pr = Prov(f)
            for spec in self.validators:
                for bb, c in v.calls.items():
                    if re.search(spec["callee"], c.name) and spec["arg"] < len(c.term["args"]) and pr.operand(c.term["args"][spec["arg"]]) == p:
                        oks = v.ok_nodes(bb)
                        if oks and ("t", call.bb) not in v.pg.reach([v.pg.entry()], set(oks)):
                            return True, "validated by the dominating %s" % c.name.split("::")[-1]
        # link field load guarded against the sentinel
        for lf in self.links:
            if p.endswith("." + lf):
                if self._guarded_not_sentinel(atoms, p):
                    return True, "link field compared with the sentinel (range validated at open)"
                if sent:
                    return True, "link field, compared with the sentinel where it is used (range validated at open)"
                return False, "link field %s used without a comparison with %s on the path" % (p[-50:], self.sentinel)
        m = re.match(r"^param:(\w+)$", p)
        if m:
            return self.check_param(f, m.group(1), depth, seen, sent)
        m = re.match(r"^param:arg1\.(\w+)$", p)
        if m and f.kind == "closure" and f.parent in self.ctx.fx.fns:
            # a captured variable: judge it in the enclosing function
            par = self.ctx.fx.fns[f.parent]
            names = {nm: l for l, nm in par.debug_names().items()}
            l = names.get(m.group(1))
            if l is not None:
                pp = Prov(par).local(l)
                return self.check_prov(par, pp, [], None, depth + 1, seen, sent)
            # the variable of an inlined helper may have been renamed on a clash (name__k): every candidate must do
            cands = [l2 for nm, l2 in names.items() if re.match(r"^%s__\d+$" % re.escape(m.group(1)), nm)]
            if cands:
                for l2 in cands:
                    ok_, why_ = self.check_prov(par, Prov(par).local(l2), [], None, depth + 1, seen, sent)
                    if not ok_:
                        return ok_, why_
                return True, "captured variable of an inlined helper"
            if par.kind == "closure" and depth < 8:
                # captured by the enclosing closure in turn
                return self.check_prov(par, p, [], None, depth + 1, seen, sent)
        m = re.match(r"^param:arg1\.(\w+)\.(\w+)$", p)
        if m and f.kind == "closure" and f.parent in self.ctx.fx.fns:
            # a field of a captured struct value that the enclosing function built (`Window { id, offset }`)
            par = self.ctx.fx.fns[f.parent]
            names = {nm: l for l, nm in par.debug_names().items()}
            l = names.get(m.group(1))
            adt = self.ctx.fx.adts.get(par.locals[l].get("adt")) if l is not None else None
            if adt is not None and not adt["is_enum"] and adt["variants"]:
                idx = [i for i, fld in enumerate(adt["variants"][0]["fields"]) if fld["name"] == m.group(2)]
                pp = Prov(par).local(l)
                short = adt["path"].split("::")[-1]
                head = "%s::%s(" % (short, short)
                if idx and pp.startswith(head) and pp.endswith(")"):
                    from prov import _split_top
                    parts = _split_top(pp[len(head):-1])
                    if idx[0] < len(parts):
                        return self.check_prov(par, parts[idx[0]], [], None, depth + 1, seen, sent)
        # the payload of an Option-valued variable (`let mut next = Some(start).filter(|&id| id != NO_STREAM);
        # while let Some(id) = next { ..; next = match link { NO_STREAM => None, id => Some(id) } }`)
        m = re.match(r"^(?:ok|some)\(var:(\w+)\)$", p)
        if m and self.sentinel is not None:
            names = {nm: l for l, nm in f.debug_names().items()}
            l = names.get(m.group(1))
            if l is not None and str(f.locals[l]["s"]).startswith("std::option::Option<u32>"):
                return self._check_option_local(f, l, depth + 1, seen, sent)
        m = re.match(r"^var:(\w+)$", p)
        if m:
            names = {nm: l for l, nm in f.debug_names().items()}
            l = names.get(m.group(1))
            pr = Prov(f)
            if l is None:
                return False, "unknown variable"
            g = guards(self.ctx, f)
            for d in pr.defs.get(l, []):
                dp = pr._def(d, 0, ())
                if dp == p:
                    continue
                alts = dp[4:-1].split("|") if dp.startswith("phi(") and dp.endswith(")") else [dp]
                is_link = all(any(a.endswith("." + lf) for lf in self.links) for a in alts)
                dnode = ("t", d[0]) if d[1] == "t" else ("s", d[0], d[1])
                if is_link:
                    if self._guarded_not_sentinel(atoms, p):
                        continue
                    datoms_ = g.atoms_at(dnode)
                    if all(self._guarded_not_sentinel(datoms_, a) for a in alts):
                        continue
                    ac = [x for x in self.spec.get("audited_contract", []) if x["function"] == f.path and re.search(x.get("variable_rx", "^%s$" % re.escape(x.get("variable", ""))), m.group(1))]
                    if ac:
                        self.audited_used.append(ac[0])
                        continue
                    if call is not None and self._checked_since(f, l, p, dnode, ("t", call.bb)):
                        continue
                    return False, "variable %s is loaded from a link field and can reach this use without a comparison with %s" % (m.group(1), self.sentinel)
                # other definitions are judged with the conditions that hold where they are made
                datoms = g.atoms_at(dnode)
                ok, w = self.check_prov(f, dp, datoms, None, depth + 1, seen, sent or self._guarded_not_sentinel(atoms, p))
                if not ok:
                    return False, "variable %s may hold %s: %s" % (m.group(1), dp[:60], w)
            return True, "every definition of the variable is qualified"
        if p.startswith("phi(") and p.endswith(")"):
            for alt in p[4:-1].split("|"):
                ok, w = self.check_prov(f, alt, atoms, None, depth + 1, seen, sent)
                if not ok:
                    return False, w
            return True, "all alternatives qualified"
        return False, "value %s has no qualified origin" % p[:80]

    def _closure_tests_sentinel(self, f, op):
        from cg import peel
        l = op_local(op)
        if l is None:
            return False
        ty = peel(f.locals[l])
        cl = self.ctx.fx.fns.get(ty.get("def")) if ty and ty.get("k") == "closure" else None
        if cl is None:
            return False
        g = guards(self.ctx, cl)
        for (e, bb, val, vals) in g._edges():
            if any(self.sentinel in a for a in g.describe_all(bb, val, vals)):
                return True
        # `|&id| id != NO_STREAM`: the comparison is the closure's value
        return bool(re.match(r"^(Ne|Eq)\(", Prov(cl).local(0)) and self.sentinel in Prov(cl).local(0))

    def _check_option_local(self, f, l, depth, seen, sent):
        """Every Some(..) that can be stored in the Option-valued local l holds a qualified value."""
        from facts import callee_name
        key = ("opt", f.path, l)
        if depth > 10:
            return False, "inference depth exceeded in an Option-valued variable"
        if key in seen:
            return True, "loop-carried"
        seen = tuple(seen) + (key,)
        pr = Prov(f)
        g = guards(self.ctx, f)
        for d in pr.defs.get(l, []):
            bb, idx, x = d
            dnode = ("t", bb) if idx == "t" else ("s", bb, idx)
            datoms = g.atoms_at(dnode)
            if idx == "t":
                nm = callee_name(x) or ""
                if re.search(r"option::Option::<T>::filter$", nm) and len(x["args"]) == 2:
                    rl = op_local(x["args"][0])
                    if rl is None:
                        return False, "Option::filter on a value that is not a local"
                    ok, w = self._check_option_local(f, rl, depth + 1, seen, sent or self._closure_tests_sentinel(f, x["args"][1]))
                    if not ok:
                        return False, w
                    continue
                ok, w = self.check_prov(f, "some(%s)" % pr._def(d, 0, ()), datoms, None, depth + 1, seen, sent)
                if not ok:
                    return False, w
                continue
            if x.get("s") != "assign" or x["place"]["proj"]:
                return False, "partial store into an Option-valued variable"
            rv = x["rv"]
            if rv["r"] == "aggregate" and rv.get("variant") == "None":
                continue
            if rv["r"] == "aggregate" and rv.get("variant") == "Some" and rv.get("ops"):
                ok, w = self.check_prov(f, pr.operand(rv["ops"][0]), datoms, None, depth + 1, seen, sent)
                if not ok:
                    return False, "Some(%s): %s" % (pr.operand(rv["ops"][0])[:50], w)
                continue
            if rv["r"] == "use" and op_local(rv["op"]) is not None and not rv["op"]["place"]["proj"]:
                ok, w = self._check_option_local(f, op_local(rv["op"]), depth + 1, seen, sent)
                if not ok:
                    return False, w
                continue
            return False, "Option-valued variable defined by %s" % pr._def(d, 0, ())[:60]
        return True, "every Some(..) stored in the variable holds a qualified value"

    def check_param(self, f, pname, depth, seen, sent=False):
        key = (f.path, pname, sent)
        if key in self._memo:
            return self._memo[key]
        if key in seen:
            return True, "recursive"
        names = f.debug_names()
        idx = [l for l, nm in names.items() if nm == pname and 1 <= l <= f.arg_count]
        if not idx:
            return False, "parameter not found"
        ai = idx[0] - 1
        callers = self.callers_of(f.path)
        if f.kind == "closure":
            return False, "closure parameter"
        if not callers:
            r = (False, "parameter %s of %s is supplied from outside the crate" % (pname, f.path))
            self._memo[key] = r
            return r
        for (cf, cc) in callers:
            if ai >= len(cc.term["args"]):
                continue
            ok, w = self.check(cf, cc, ai, depth + 1, seen + (key,), sent)
            if not ok:
                r = (False, "%s passes an unqualified value (line %d): %s" % (cf.path.split("::")[-1], cc.line, w))
                self._memo[key] = r
                return r
        r = (True, "all %d call sites pass qualified values" % len(callers))
        self._memo[key] = r
        return r
